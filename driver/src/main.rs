// jlfacts — fact extractor for the json-logic-rs static checks.
//
// A rustc_private driver used as RUSTC_WORKSPACE_WRAPPER under
// `cargo +nightly check`.  For every workspace-member crate it compiles it
// writes one JSON file ($JLFACTS_OUT/<crate>.<types>.json) holding, for every
// MIR body of the crate (functions, closures, consts, statics and their
// promoteds): locals with types, basic blocks, statements, terminators with
// the syntactic callee and the Instance-resolved callee, constants (ints,
// bools, floats, strings, fn items, promoted references), spans with macro
// backtraces; plus crate-level tables: items (visibility, signature, safety),
// statics/consts (type, Freeze), ADT variant tables, unsafe blocks.
//
// No verdict is computed here: the rule engine (Python) decides.
#![feature(rustc_private)]
#![allow(clippy::all)]

extern crate rustc_abi;
extern crate rustc_data_structures;
extern crate rustc_driver;
extern crate rustc_hir;
extern crate rustc_interface;
extern crate rustc_middle;
extern crate rustc_session;
extern crate rustc_span;

use std::collections::BTreeMap;
use std::fmt::Write as _;

use rustc_driver::{Callbacks, Compilation};
use rustc_hir::def::DefKind;
use rustc_hir::def_id::{DefId, LocalDefId, LOCAL_CRATE};
use rustc_interface::interface;
use rustc_middle::mir::{
    self, AggregateKind, BasicBlockData, Body, Const, ConstValue, Operand, Place, ProjectionElem,
    Rvalue, StatementKind, TerminatorKind,
};
use rustc_middle::ty::print::with_no_trimmed_paths;
use rustc_middle::ty::{self, Instance, Ty, TyCtxt, TypingEnv};
use rustc_span::Span;

// ---------------------------------------------------------------- JSON ----
fn jstr(s: &str) -> String {
    let mut o = String::with_capacity(s.len() + 2);
    o.push('"');
    for c in s.chars() {
        match c {
            '"' => o.push_str("\\\""),
            '\\' => o.push_str("\\\\"),
            '\n' => o.push_str("\\n"),
            '\r' => o.push_str("\\r"),
            '\t' => o.push_str("\\t"),
            c if (c as u32) < 0x20 => {
                let _ = write!(o, "\\u{:04x}", c as u32);
            }
            c => o.push(c),
        }
    }
    o.push('"');
    o
}
fn jarr(items: &[String]) -> String {
    format!("[{}]", items.join(","))
}
fn jobj(items: &[(&str, String)]) -> String {
    let mut o = String::from("{");
    let mut first = true;
    for (k, v) in items {
        if !first {
            o.push(',');
        }
        first = false;
        o.push_str(&jstr(k));
        o.push(':');
        o.push_str(v);
    }
    o.push('}');
    o
}
fn jbool(b: bool) -> String {
    if b { "true".into() } else { "false".into() }
}
fn jopt(o: Option<String>) -> String {
    o.unwrap_or_else(|| "null".into())
}

// ------------------------------------------------------------- context ----
struct Cx<'tcx> {
    tcx: TyCtxt<'tcx>,
    adts: BTreeMap<String, String>,
}

impl<'tcx> Cx<'tcx> {
    fn key(&self, def_id: DefId) -> String {
        let krate = self.tcx.crate_name(def_id.krate);
        format!("{}{}", krate, self.tcx.def_path(def_id).to_string_no_crate_verbose())
    }
    fn path(&self, def_id: DefId) -> String {
        with_no_trimmed_paths!(self.tcx.def_path_str(def_id))
    }
    fn path_args(&self, def_id: DefId, args: ty::GenericArgsRef<'tcx>) -> String {
        with_no_trimmed_paths!(self.tcx.def_path_str_with_args(def_id, args))
    }
    fn ty(&self, t: Ty<'tcx>) -> String {
        with_no_trimmed_paths!(format!("{}", t))
    }

    fn span(&self, sp: Span) -> String {
        let sm = self.tcx.sess.source_map();
        let root = sp.source_callsite();
        let lo = sm.lookup_char_pos(root.lo());
        let hi = sm.lookup_char_pos(root.hi());
        let file = format!("{}", lo.file.name.prefer_local_unconditionally());
        let mut macros: Vec<String> = Vec::new();
        if sp.from_expansion() {
            for ed in sp.macro_backtrace() {
                macros.push(jstr(&format!("{}", ed.kind.descr())));
            }
        }
        // the innermost (own) position as well: lets rules attribute MIR to
        // source regions inside the same file even under expansion
        let ilo = sm.lookup_char_pos(sp.lo());
        jobj(&[
            ("file", jstr(&file)),
            ("line", format!("{}", lo.line)),
            ("col", format!("{}", lo.col.0 + 1)),
            ("eline", format!("{}", hi.line)),
            ("ecol", format!("{}", hi.col.0 + 1)),
            ("exp", jbool(sp.from_expansion())),
            ("macros", jarr(&macros)),
            ("ifile", jstr(&format!("{}", ilo.file.name.prefer_local_unconditionally()))),
            ("iline", format!("{}", ilo.line)),
        ])
    }

    fn note_adt(&mut self, t: Ty<'tcx>) -> Option<String> {
        let t = t.peel_refs();
        if let ty::Adt(def, _) = t.kind() {
            let name = self.path(def.did());
            if !self.adts.contains_key(&name) {
                let mut vs = Vec::new();
                if def.is_enum() {
                    for (idx, discr) in def.discriminants(self.tcx) {
                        let v = def.variant(idx);
                        let fields: Vec<String> =
                            v.fields.iter().map(|f| jstr(f.name.as_str())).collect();
                        vs.push(jobj(&[
                            ("idx", format!("{}", idx.as_u32())),
                            ("name", jstr(v.name.as_str())),
                            ("discr", format!("{}", discr.val)),
                            ("fields", jarr(&fields)),
                        ]));
                    }
                } else if def.is_struct() {
                    let v = def.non_enum_variant();
                    let fields: Vec<String> =
                        v.fields.iter().map(|f| jstr(f.name.as_str())).collect();
                    vs.push(jobj(&[
                        ("idx", "0".into()),
                        ("name", jstr(v.name.as_str())),
                        ("discr", "0".into()),
                        ("fields", jarr(&fields)),
                    ]));
                }
                let kind = if def.is_enum() { "enum" } else if def.is_struct() { "struct" } else { "union" };
                self.adts.insert(
                    name.clone(),
                    jobj(&[("kind", jstr(kind)), ("variants", jarr(&vs))]),
                );
            }
            Some(name)
        } else {
            None
        }
    }
}

// ------------------------------------------------------------ body dump ---
struct BodyCx<'a, 'tcx> {
    cx: &'a mut Cx<'tcx>,
    body: &'a Body<'tcx>,
    owner: DefId,
    tenv: TypingEnv<'tcx>,
}

impl<'a, 'tcx> BodyCx<'a, 'tcx> {
    fn place(&mut self, p: &Place<'tcx>) -> String {
        let mut projs = Vec::new();
        for (base, elem) in p.iter_projections() {
            let s = match elem {
                ProjectionElem::Deref => jobj(&[("k", jstr("Deref"))]),
                ProjectionElem::Field(f, t) => jobj(&[
                    ("k", jstr("Field")),
                    ("i", format!("{}", f.as_u32())),
                    ("ty", jstr(&self.cx.ty(t))),
                ]),
                ProjectionElem::Index(l) => {
                    jobj(&[("k", jstr("Index")), ("local", format!("{}", l.as_u32()))])
                }
                ProjectionElem::ConstantIndex { offset, min_length, from_end } => jobj(&[
                    ("k", jstr("ConstantIndex")),
                    ("offset", format!("{}", offset)),
                    ("min_length", format!("{}", min_length)),
                    ("from_end", jbool(from_end)),
                ]),
                ProjectionElem::Subslice { from, to, from_end } => jobj(&[
                    ("k", jstr("Subslice")),
                    ("from", format!("{}", from)),
                    ("to", format!("{}", to)),
                    ("from_end", jbool(from_end)),
                ]),
                ProjectionElem::Downcast(name, idx) => {
                    let bt = base.ty(&self.body.local_decls, self.cx.tcx).ty;
                    let adt = self.cx.note_adt(bt);
                    let vname = match name {
                        Some(n) => n.as_str().to_string(),
                        None => match bt.kind() {
                            ty::Adt(d, _) => d.variant(idx).name.as_str().to_string(),
                            _ => String::new(),
                        },
                    };
                    jobj(&[
                        ("k", jstr("Downcast")),
                        ("variant", jstr(&vname)),
                        ("idx", format!("{}", idx.as_u32())),
                        ("adt", jopt(adt.map(|a| jstr(&a)))),
                    ])
                }
                ProjectionElem::OpaqueCast(_) => jobj(&[("k", jstr("OpaqueCast"))]),
                ProjectionElem::UnwrapUnsafeBinder(_) => jobj(&[("k", jstr("UnwrapUnsafeBinder"))]),
            };
            projs.push(s);
        }
        jobj(&[("local", format!("{}", p.local.as_u32())), ("proj", jarr(&projs))])
    }

    fn fn_ref(&mut self, def_id: DefId, args: ty::GenericArgsRef<'tcx>) -> String {
        let tcx = self.cx.tcx;
        let mut items: Vec<(&str, String)> = vec![
            ("path", jstr(&self.cx.path(def_id))),
            ("full", jstr(&self.cx.path_args(def_id, args))),
            ("key", jstr(&self.cx.key(def_id))),
            ("crate", jstr(tcx.crate_name(def_id.krate).as_str())),
            ("local", jbool(def_id.is_local())),
        ];
        // generic args as type strings (self type first for trait methods)
        let targs: Vec<String> = args
            .iter()
            .filter_map(|a| a.as_type())
            .map(|t| jstr(&self.cx.ty(t)))
            .collect();
        items.push(("targs", jarr(&targs)));
        // fn items / closures appearing as type arguments: callable values
        let mut fnargs = Vec::new();
        for a in args.iter() {
            if let Some(t) = a.as_type() {
                match t.peel_refs().kind() {
                    ty::FnDef(d, _) => fnargs.push(jobj(&[
                        ("path", jstr(&self.cx.path(*d))),
                        ("key", jstr(&self.cx.key(*d))),
                        ("local", jbool(d.is_local())),
                    ])),
                    ty::Closure(d, _) => fnargs.push(jobj(&[
                        ("path", jstr(&self.cx.path(*d))),
                        ("key", jstr(&self.cx.key(*d))),
                        ("local", jbool(d.is_local())),
                        ("closure", jbool(true)),
                    ])),
                    _ => {}
                }
            }
        }
        items.push(("fnargs", jarr(&fnargs)));
        let resolved = match Instance::try_resolve(tcx, self.tenv, def_id, args) {
            Ok(Some(inst)) => {
                let rd = inst.def_id();
                let kind = format!("{:?}", inst.def);
                let kind = kind.split('(').next().unwrap_or("").to_string();
                jobj(&[
                    ("path", jstr(&self.cx.path(rd))),
                    ("full", jstr(&self.cx.path_args(rd, inst.args))),
                    ("key", jstr(&self.cx.key(rd))),
                    ("crate", jstr(tcx.crate_name(rd.krate).as_str())),
                    ("local", jbool(rd.is_local())),
                    ("kind", jstr(&kind)),
                ])
            }
            _ => "null".into(),
        };
        items.push(("resolved", resolved));
        let fwd = self.forwarded(def_id, args);
        items.push(("fwd", jarr(&fwd)));
        jobj(&items)
    }

    /// Resolve the local-interest target behind std's forwarding impls:
    /// `Into`→`From`, `TryInto`→`TryFrom`, `ToString`/`new_display`→`Display::fmt`,
    /// `new_debug`→`Debug::fmt`, `&A == &B`→`A == B`, `slice::contains`→`PartialEq::eq`.
    fn forwarded(&mut self, def_id: DefId, args: ty::GenericArgsRef<'tcx>) -> Vec<String> {
        use rustc_span::Symbol;
        let tcx = self.cx.tcx;
        let mut out = Vec::new();
        let tys: Vec<Ty<'tcx>> = args.iter().filter_map(|a| a.as_type()).collect();
        let name = tcx.opt_item_name(def_id).map(|s| s.as_str().to_string()).unwrap_or_default();
        let path = self.cx.path(def_id);
        let diag = |n: &str| tcx.get_diagnostic_item(Symbol::intern(n));
        let mut want: Vec<(Option<DefId>, &str, Vec<Ty<'tcx>>)> = Vec::new();
        let tr = tcx.trait_of_assoc(def_id);
        if tr.is_some() && tr == diag("Into") && tys.len() == 2 {
            want.push((diag("From"), "from", vec![tys[1], tys[0]]));
        } else if tr.is_some() && tr == diag("TryInto") && tys.len() == 2 {
            want.push((diag("TryFrom"), "try_from", vec![tys[1], tys[0]]));
        } else if tr.is_some() && tr == diag("ToString") && tys.len() == 1 {
            want.push((diag("Display"), "fmt", vec![tys[0]]));
        } else if path.ends_with("Argument::<'_>::new_display") && tys.len() == 1 {
            want.push((diag("Display"), "fmt", vec![tys[0]]));
        } else if path.ends_with("Argument::<'_>::new_debug") && tys.len() == 1 {
            want.push((diag("Debug"), "fmt", vec![tys[0]]));
        } else if tr.is_some() && tr == tcx.lang_items().eq_trait() && tys.len() == 2 {
            let (a, b) = (tys[0].peel_refs(), tys[1].peel_refs());
            if a != tys[0] {
                want.push((tr, if name == "ne" { "ne" } else { "eq" }, vec![a, b]));
            }
        } else if tr.is_some() && tr == tcx.lang_items().partial_ord_trait() && tys.len() == 2 {
            let (a, b) = (tys[0].peel_refs(), tys[1].peel_refs());
            if a != tys[0] {
                want.push((tr, "partial_cmp", vec![a, b]));
            }
        } else if path == "core::slice::<impl [T]>::contains" && tys.len() == 1 {
            want.push((tcx.lang_items().eq_trait(), "eq", vec![tys[0], tys[0]]));
        }
        for (trait_did, meth, targs) in want {
            let Some(trait_did) = trait_did else { continue };
            let Some(assoc) = tcx
                .associated_items(trait_did)
                .filter_by_name_unhygienic(Symbol::intern(meth))
                .next()
            else {
                continue;
            };
            let gargs = tcx.mk_args_from_iter(targs.iter().map(|t| ty::GenericArg::from(*t)));
            if let Ok(Some(inst)) = Instance::try_resolve(tcx, self.tenv, assoc.def_id, gargs) {
                let rd = inst.def_id();
                out.push(jobj(&[
                    ("path", jstr(&self.cx.path(rd))),
                    ("full", jstr(&self.cx.path_args(rd, inst.args))),
                    ("key", jstr(&self.cx.key(rd))),
                    ("crate", jstr(tcx.crate_name(rd.krate).as_str())),
                    ("local", jbool(rd.is_local())),
                ]));
            }
        }
        out
    }

    fn constant(&mut self, c: &mir::ConstOperand<'tcx>) -> String {
        let tcx = self.cx.tcx;
        let cty = c.const_.ty();
        let mut items: Vec<(&str, String)> = vec![("ty", jstr(&self.cx.ty(cty)))];
        match cty.kind() {
            ty::FnDef(d, args) => {
                items.push(("fn", self.fn_ref(*d, args)));
                return jobj(&items);
            }
            _ => {}
        }
        if let Const::Unevaluated(uv, _) = c.const_ {
            if let Some(p) = uv.promoted {
                items.push((
                    "promoted",
                    jstr(&format!("{}::{{promoted#{}}}", self.cx.key(uv.def), p.as_u32())),
                ));
                return jobj(&items);
            } else {
                items.push(("item", jstr(&self.cx.key(uv.def))));
                items.push(("item_path", jstr(&self.cx.path(uv.def))));
            }
        }
        // scalar / str values
        let is_scalar_ty = matches!(
            cty.kind(),
            ty::Bool | ty::Char | ty::Int(_) | ty::Uint(_) | ty::Float(_)
        );
        if is_scalar_ty {
            if let Some(si) = c.const_.try_eval_scalar_int(tcx, self.tenv) {
                let size = si.size();
                let bits = si.to_bits(size);
                match cty.kind() {
                    ty::Bool => items.push(("bool", jbool(bits != 0))),
                    ty::Char => {
                        items.push(("char", jstr(&char::from_u32(bits as u32).map(|c| c.to_string()).unwrap_or_default())))
                    }
                    ty::Int(_) => {
                        let v = size.sign_extend(bits);
                        items.push(("int", jstr(&format!("{}", v as i128))));
                    }
                    ty::Uint(_) => items.push(("int", jstr(&format!("{}", bits)))),
                    ty::Float(_) => {
                        let f = if size.bytes() == 8 {
                            f64::from_bits(bits as u64)
                        } else {
                            f32::from_bits(bits as u32) as f64
                        };
                        items.push(("float", jstr(&format!("{:?}", f))));
                    }
                    _ => {}
                }
            }
        } else if let ty::Ref(_, inner, _) = cty.kind() {
            // byte-array constants (e.g. the encoded template of format_args!)
            let is_u8_array = match inner.kind() {
                ty::Array(et, _) | ty::Slice(et) => matches!(et.kind(), ty::Uint(ty::UintTy::U8)),
                _ => false,
            };
            if is_u8_array {
                if let Ok(val) = c.const_.eval(tcx, self.tenv, c.span) {
                    let bytes: Option<Vec<u8>> = match val {
                        ConstValue::Slice { .. } => val.try_get_slice_bytes_for_diagnostics(tcx).map(|b| b.to_vec()),
                        ConstValue::Scalar(rustc_middle::mir::interpret::Scalar::Ptr(ptr, _)) => {
                            let (prov, offset) = ptr.into_raw_parts();
                            let alloc_id = prov.alloc_id();
                            match tcx.try_get_global_alloc(alloc_id) {
                                Some(rustc_middle::mir::interpret::GlobalAlloc::Memory(alloc)) => {
                                    let a = alloc.inner();
                                    let start = offset.bytes() as usize;
                                    let len = a.len();
                                    Some(a.inspect_with_uninit_and_ptr_outside_interpreter(start..len).to_vec())
                                }
                                _ => None,
                            }
                        }
                        _ => None,
                    };
                    if let Some(b) = bytes {
                        let hex: String = b.iter().map(|x| format!("{:02x}", x)).collect();
                        items.push(("bytes", jstr(&hex)));
                    }
                }
            }
            if inner.is_str() {
                if let Ok(val) = c.const_.eval(tcx, self.tenv, c.span) {
                    if let ConstValue::Slice { .. } = val {
                        if let Some(bytes) = val.try_get_slice_bytes_for_diagnostics(tcx) {
                            items.push(("str", jstr(&String::from_utf8_lossy(bytes))));
                        }
                    }
                }
            }
        }
        jobj(&items)
    }

    fn operand(&mut self, o: &Operand<'tcx>) -> String {
        match o {
            Operand::Copy(p) => jobj(&[("k", jstr("Copy")), ("place", self.place(p))]),
            Operand::Move(p) => jobj(&[("k", jstr("Move")), ("place", self.place(p))]),
            Operand::Constant(c) => jobj(&[("k", jstr("Const")), ("const", self.constant(c))]),
            _ => jobj(&[("k", jstr("RuntimeChecks"))]),
        }
    }

    fn rvalue(&mut self, rv: &Rvalue<'tcx>) -> String {
        match rv {
            Rvalue::Use(op, ..) => jobj(&[("k", jstr("Use")), ("op", self.operand(op))]),
            Rvalue::Repeat(op, _) => jobj(&[("k", jstr("Repeat")), ("op", self.operand(op))]),
            Rvalue::Ref(_, bk, p) => jobj(&[
                ("k", jstr("Ref")),
                ("mut", jbool(matches!(bk, mir::BorrowKind::Mut { .. }))),
                ("place", self.place(p)),
            ]),
            Rvalue::ThreadLocalRef(d) => {
                jobj(&[("k", jstr("ThreadLocalRef")), ("item", jstr(&self.cx.key(*d)))])
            }
            Rvalue::RawPtr(kind, p) => jobj(&[
                ("k", jstr("RawPtr")),
                ("mut", jbool(matches!(kind, mir::RawPtrKind::Mut))),
                ("place", self.place(p)),
            ]),
            Rvalue::Cast(kind, op, t) => {
                let ks = format!("{:?}", kind);
                let src = op.ty(&self.body.local_decls, self.cx.tcx);
                jobj(&[
                    ("k", jstr("Cast")),
                    ("cast", jstr(&ks)),
                    ("op", self.operand(op)),
                    ("from", jstr(&self.cx.ty(src))),
                    ("to", jstr(&self.cx.ty(*t))),
                ])
            }
            Rvalue::BinaryOp(op, ab) => {
                let lt = ab.0.ty(&self.body.local_decls, self.cx.tcx);
                jobj(&[
                    ("k", jstr("BinaryOp")),
                    ("op", jstr(&format!("{:?}", op))),
                    ("a", self.operand(&ab.0)),
                    ("b", self.operand(&ab.1)),
                    ("opty", jstr(&self.cx.ty(lt))),
                ])
            }
            Rvalue::UnaryOp(op, a) => {
                let t = a.ty(&self.body.local_decls, self.cx.tcx);
                jobj(&[
                    ("k", jstr("UnaryOp")),
                    ("op", jstr(&format!("{:?}", op))),
                    ("a", self.operand(a)),
                    ("opty", jstr(&self.cx.ty(t))),
                ])
            }
            Rvalue::Discriminant(p) => {
                let t = p.ty(&self.body.local_decls, self.cx.tcx).ty;
                let adt = self.cx.note_adt(t);
                jobj(&[
                    ("k", jstr("Discriminant")),
                    ("place", self.place(p)),
                    ("adt", jopt(adt.map(|a| jstr(&a)))),
                ])
            }
            Rvalue::Aggregate(kind, ops) => {
                let opv: Vec<String> = ops.iter().map(|o| self.operand(o)).collect();
                let mut items: Vec<(&str, String)> = vec![("k", jstr("Aggregate"))];
                match &**kind {
                    AggregateKind::Array(t) => {
                        items.push(("agg", jstr("Array")));
                        items.push(("ty", jstr(&self.cx.ty(*t))));
                    }
                    AggregateKind::Tuple => items.push(("agg", jstr("Tuple"))),
                    AggregateKind::Adt(did, vidx, args, _, _) => {
                        let def = self.cx.tcx.adt_def(*did);
                        let t = Ty::new_adt(self.cx.tcx, def, args);
                        self.cx.note_adt(t);
                        items.push(("agg", jstr("Adt")));
                        items.push(("adt", jstr(&self.cx.path(*did))));
                        items.push(("variant", jstr(def.variant(*vidx).name.as_str())));
                        items.push(("idx", format!("{}", vidx.as_u32())));
                        items.push(("ty", jstr(&self.cx.ty(t))));
                    }
                    AggregateKind::Closure(did, _) => {
                        items.push(("agg", jstr("Closure")));
                        items.push(("closure", jstr(&self.cx.key(*did))));
                    }
                    AggregateKind::Coroutine(did, _) | AggregateKind::CoroutineClosure(did, _) => {
                        items.push(("agg", jstr("Coroutine")));
                        items.push(("closure", jstr(&self.cx.key(*did))));
                    }
                    AggregateKind::RawPtr(..) => items.push(("agg", jstr("RawPtr"))),
                }
                items.push(("ops", jarr(&opv)));
                jobj(&items)
            }
            Rvalue::CopyForDeref(p) => {
                jobj(&[("k", jstr("CopyForDeref")), ("place", self.place(p))])
            }
            Rvalue::WrapUnsafeBinder(op, _) => {
                jobj(&[("k", jstr("WrapUnsafeBinder")), ("op", self.operand(op))])
            }
        }
    }

    fn block(&mut self, bb: &BasicBlockData<'tcx>) -> String {
        let mut stmts = Vec::new();
        for st in &bb.statements {
            let s = match &st.kind {
                StatementKind::Assign(b) => {
                    let (p, rv) = &**b;
                    let pty = p.ty(&self.body.local_decls, self.cx.tcx).ty;
                    jobj(&[
                        ("k", jstr("Assign")),
                        ("place", self.place(p)),
                        ("pty", jstr(&self.cx.ty(pty))),
                        ("rv", self.rvalue(rv)),
                        ("span", self.cx.span(st.source_info.span)),
                    ])
                }
                StatementKind::SetDiscriminant { place, variant_index } => jobj(&[
                    ("k", jstr("SetDiscriminant")),
                    ("place", self.place(place)),
                    ("idx", format!("{}", variant_index.as_u32())),
                    ("span", self.cx.span(st.source_info.span)),
                ]),
                StatementKind::Intrinsic(i) => jobj(&[
                    ("k", jstr("Intrinsic")),
                    ("text", jstr(&format!("{:?}", i))),
                    ("span", self.cx.span(st.source_info.span)),
                ]),
                _ => continue,
            };
            stmts.push(s);
        }
        let term = bb.terminator();
        let tspan = self.cx.span(term.source_info.span);
        let t = match &term.kind {
            TerminatorKind::Goto { target } => {
                jobj(&[("k", jstr("Goto")), ("target", format!("{}", target.as_u32()))])
            }
            TerminatorKind::SwitchInt { discr, targets } => {
                let mut arms = Vec::new();
                for (v, t) in targets.iter() {
                    arms.push(format!("[{},{}]", jstr(&format!("{}", v)), t.as_u32()));
                }
                let dty = discr.ty(&self.body.local_decls, self.cx.tcx);
                jobj(&[
                    ("k", jstr("SwitchInt")),
                    ("discr", self.operand(discr)),
                    ("dty", jstr(&self.cx.ty(dty))),
                    ("arms", jarr(&arms)),
                    ("otherwise", format!("{}", targets.otherwise().as_u32())),
                ])
            }
            TerminatorKind::Return => jobj(&[("k", jstr("Return"))]),
            TerminatorKind::Unreachable => jobj(&[("k", jstr("Unreachable"))]),
            TerminatorKind::UnwindResume => jobj(&[("k", jstr("UnwindResume"))]),
            TerminatorKind::UnwindTerminate(_) => jobj(&[("k", jstr("UnwindTerminate"))]),
            TerminatorKind::Drop { place, target, .. } => jobj(&[
                ("k", jstr("Drop")),
                ("place", self.place(place)),
                ("target", format!("{}", target.as_u32())),
            ]),
            TerminatorKind::Call { func, args, destination, target, .. } => {
                let argv: Vec<String> = args.iter().map(|a| self.operand(&a.node)).collect();
                let fty = func.ty(&self.body.local_decls, self.cx.tcx);
                let callee = match fty.kind() {
                    ty::FnDef(d, ga) => self.fn_ref(*d, ga),
                    _ => "null".into(),
                };
                jobj(&[
                    ("k", jstr("Call")),
                    ("func", self.operand(func)),
                    ("fty", jstr(&self.cx.ty(fty))),
                    ("callee", callee),
                    ("args", jarr(&argv)),
                    ("dest", self.place(destination)),
                    ("target", jopt(target.map(|t| format!("{}", t.as_u32())))),
                ])
            }
            TerminatorKind::TailCall { func, args, .. } => {
                let argv: Vec<String> = args.iter().map(|a| self.operand(&a.node)).collect();
                let fty = func.ty(&self.body.local_decls, self.cx.tcx);
                let callee = match fty.kind() {
                    ty::FnDef(d, ga) => self.fn_ref(*d, ga),
                    _ => "null".into(),
                };
                jobj(&[
                    ("k", jstr("TailCall")),
                    ("func", self.operand(func)),
                    ("callee", callee),
                    ("args", jarr(&argv)),
                ])
            }
            TerminatorKind::Assert { cond, expected, msg, target, .. } => {
                let m = format!("{:?}", msg);
                let kind = m.split(|c: char| !c.is_alphanumeric()).next().unwrap_or("").to_string();
                jobj(&[
                    ("k", jstr("Assert")),
                    ("cond", self.operand(cond)),
                    ("expected", jbool(*expected)),
                    ("msg", jstr(&kind)),
                    ("msg_full", jstr(&m)),
                    ("target", format!("{}", target.as_u32())),
                ])
            }
            TerminatorKind::FalseEdge { real_target, .. } => {
                jobj(&[("k", jstr("Goto")), ("target", format!("{}", real_target.as_u32()))])
            }
            TerminatorKind::FalseUnwind { real_target, .. } => {
                jobj(&[("k", jstr("Goto")), ("target", format!("{}", real_target.as_u32()))])
            }
            other => jobj(&[("k", jstr("Other")), ("text", jstr(&format!("{:?}", other)))]),
        };
        jobj(&[
            ("stmts", jarr(&stmts)),
            ("term", t),
            ("tspan", tspan),
            ("cleanup", jbool(bb.is_cleanup)),
        ])
    }
}

fn dump_body<'tcx>(
    cx: &mut Cx<'tcx>,
    owner: DefId,
    body: &Body<'tcx>,
    key: String,
    kind: &str,
    parent: Option<String>,
) -> String {
    let tcx = cx.tcx;
    let tenv = TypingEnv::post_analysis(tcx, owner);
    let mut names: BTreeMap<u32, String> = BTreeMap::new();
    for vdi in &body.var_debug_info {
        if let mir::VarDebugInfoContents::Place(p) = &vdi.value {
            if p.projection.is_empty() {
                names.entry(p.local.as_u32()).or_insert_with(|| vdi.name.as_str().to_string());
            }
        }
    }
    let mut locals = Vec::new();
    for (l, decl) in body.local_decls.iter_enumerated() {
        let adt = cx.note_adt(decl.ty);
        locals.push(jobj(&[
            ("ty", jstr(&cx.ty(decl.ty))),
            ("name", jopt(names.get(&l.as_u32()).map(|n| jstr(n)))),
            ("adt", jopt(adt.map(|a| jstr(&a)))),
        ]));
    }
    let mut bcx = BodyCx { cx, body, owner, tenv };
    let mut blocks = Vec::new();
    for bb in body.basic_blocks.iter() {
        blocks.push(bcx.block(bb));
    }
    let _ = bcx.owner;
    let span = cx.span(body.span);
    jobj(&[
        ("key", jstr(&key)),
        ("name", jstr(&cx.path(owner))),
        ("kind", jstr(kind)),
        ("parent", jopt(parent.map(|p| jstr(&p)))),
        ("span", span),
        ("arg_count", format!("{}", body.arg_count)),
        ("locals", jarr(&locals)),
        ("blocks", jarr(&blocks)),
    ])
}

// --------------------------------------------------------- HIR: unsafe ----
struct UnsafeFinder<'a, 'tcx> {
    cx: &'a Cx<'tcx>,
    owner: String,
    out: Vec<String>,
}
impl<'a, 'tcx> rustc_hir::intravisit::Visitor<'tcx> for UnsafeFinder<'a, 'tcx> {
    fn visit_block(&mut self, b: &'tcx rustc_hir::Block<'tcx>) {
        if let rustc_hir::BlockCheckMode::UnsafeBlock(src) = b.rules {
            self.out.push(jobj(&[
                ("owner", jstr(&self.owner)),
                ("user", jbool(matches!(src, rustc_hir::UnsafeSource::UserProvided))),
                ("span", self.cx.span(b.span)),
            ]));
        }
        rustc_hir::intravisit::walk_block(self, b);
    }
}

// -------------------------------------------------------------- driver ----
struct Cb;

impl Callbacks for Cb {
    fn after_analysis<'tcx>(
        &mut self,
        _compiler: &interface::Compiler,
        tcx: TyCtxt<'tcx>,
    ) -> Compilation {
        let out_dir = match std::env::var("JLFACTS_OUT") {
            Ok(d) => d,
            Err(_) => return Compilation::Continue,
        };
        let mut cx = Cx { tcx, adts: BTreeMap::new() };
        let crate_name = tcx.crate_name(LOCAL_CRATE).to_string();
        let crate_types: Vec<String> =
            tcx.crate_types().iter().map(|t| format!("{:?}", t).to_lowercase()).collect();

        let mut bodies: Vec<String> = Vec::new();
        let mut items: Vec<String> = Vec::new();
        let mut unsafe_blocks: Vec<String> = Vec::new();
        let ev = tcx.effective_visibilities(());

        for ldid in tcx.hir_body_owners() {
            let def_id = ldid.to_def_id();
            let dk = tcx.def_kind(def_id);
            let key = cx.key(def_id);
            let kind = match dk {
                DefKind::Fn | DefKind::AssocFn => "fn",
                DefKind::Closure => "closure",
                DefKind::Const { .. } | DefKind::AssocConst { .. } => "const",
                DefKind::Static { .. } => "static",
                DefKind::AnonConst | DefKind::InlineConst => "anonconst",
                _ => "other",
            };
            // item record
            {
                let mut it: Vec<(&str, String)> = vec![
                    ("key", jstr(&key)),
                    ("name", jstr(&cx.path(def_id))),
                    ("kind", jstr(kind)),
                    ("span", cx.span(tcx.def_span(def_id))),
                ];
                if matches!(dk, DefKind::Fn | DefKind::AssocFn) {
                    let vis = tcx.visibility(def_id);
                    it.push(("vis_public", jbool(vis.is_public())));
                    it.push(("reachable", jbool(ev.is_reachable(ldid))));
                    it.push(("exported", jbool(ev.is_exported(ldid))));
                    let sig = tcx.fn_sig(def_id).instantiate_identity().skip_normalization();
                    it.push(("sig", jstr(&with_no_trimmed_paths!(format!("{}", sig)))));
                    it.push(("unsafe", jbool(!sig.safety().is_safe())));
                    let inputs: Vec<String> = sig
                        .inputs()
                        .skip_binder()
                        .iter()
                        .map(|t| jstr(&cx.ty(*t)))
                        .collect();
                    it.push(("inputs", jarr(&inputs)));
                    it.push(("output", jstr(&cx.ty(sig.output().skip_binder()))));
                    // the item's own type parameters, in the order in which references list their type arguments
                    // (`targs`): lets a rule read a generic private function once per instantiation
                    let generics: Vec<String> = ty::GenericArgs::identity_for_item(tcx, def_id)
                        .iter()
                        .filter_map(|a| a.as_type())
                        .map(|t| jstr(&cx.ty(t)))
                        .collect();
                    it.push(("generics", jarr(&generics)));
                    let attrs = tcx.codegen_fn_attrs(def_id);
                    it.push(("no_mangle", jbool(attrs.symbol_name.is_some() || attrs.flags.contains(rustc_middle::middle::codegen_fn_attrs::CodegenFnAttrFlags::NO_MANGLE))));
                }
                if matches!(dk, DefKind::Const { .. } | DefKind::AssocConst { .. } | DefKind::Static { .. }) {
                    let t = tcx.type_of(def_id).instantiate_identity().skip_normalization();
                    let tenv = TypingEnv::post_analysis(tcx, def_id);
                    it.push(("ty", jstr(&cx.ty(t))));
                    it.push(("freeze", jbool(t.is_freeze(tcx, tenv))));
                    if let DefKind::Static { mutability, .. } = dk {
                        it.push(("static_mut", jbool(mutability.is_mut())));
                        let attrs = tcx.codegen_fn_attrs(def_id);
                        it.push(("thread_local", jbool(attrs.flags.contains(rustc_middle::middle::codegen_fn_attrs::CodegenFnAttrFlags::THREAD_LOCAL))));
                    }
                }
                items.push(jobj(&it));
            }
            // unsafe blocks
            {
                let body = tcx.hir_body_owned_by(ldid);
                let mut f = UnsafeFinder { cx: &cx, owner: key.clone(), out: Vec::new() };
                rustc_hir::intravisit::Visitor::visit_body(&mut f, body);
                unsafe_blocks.extend(f.out);
            }
            // MIR
            let parent = if matches!(dk, DefKind::Closure) {
                Some(cx.key(tcx.typeck_root_def_id(def_id)))
            } else {
                None
            };
            match dk {
                DefKind::Fn | DefKind::AssocFn | DefKind::Closure => {
                    let body = tcx.optimized_mir(def_id);
                    bodies.push(dump_body(&mut cx, def_id, body, key.clone(), kind, parent));
                }
                DefKind::Const { .. } | DefKind::AssocConst { .. } | DefKind::Static { .. } => {
                    let body = tcx.mir_for_ctfe(def_id);
                    bodies.push(dump_body(&mut cx, def_id, body, key.clone(), kind, parent));
                }
                _ => continue,
            }
            let promoted = tcx.promoted_mir(def_id);
            for (idx, pbody) in promoted.iter_enumerated() {
                let pkey = format!("{}::{{promoted#{}}}", key, idx.as_u32());
                bodies.push(dump_body(&mut cx, def_id, pbody, pkey, "promoted", Some(key.clone())));
            }
        }
        let _ = LocalDefId::to_def_id;

        let adts: Vec<String> =
            cx.adts.iter().map(|(k, v)| format!("{}:{}", jstr(k), v)).collect();
        let features: Vec<String> = tcx
            .sess
            .config
            .iter()
            .filter_map(|(k, v)| {
                if k.as_str() == "feature" { v.map(|s| jstr(s.as_str())) } else { None }
            })
            .collect();
        let doc = jobj(&[
            ("crate", jstr(&crate_name)),
            ("crate_types", jarr(&crate_types.iter().map(|s| jstr(s)).collect::<Vec<_>>())),
            ("features", jarr(&features)),
            ("overflow_checks", jbool(tcx.sess.overflow_checks())),
            ("debug_assertions", jbool(tcx.sess.opts.debug_assertions)),
            ("items", jarr(&items)),
            ("unsafe_blocks", jarr(&unsafe_blocks)),
            ("adts", format!("{{{}}}", adts.join(","))),
            ("bodies", jarr(&bodies)),
        ]);
        let fname = format!("{}/{}.{}.json", out_dir, crate_name, crate_types.join("+"));
        std::fs::write(&fname, doc).expect("jlfacts: cannot write fact file");
        Compilation::Continue
    }
}

fn main() {
    let mut args: Vec<String> = std::env::args().collect();
    // RUSTC_WORKSPACE_WRAPPER protocol: argv[1] is the real rustc
    if args.len() > 1 && (args[1].ends_with("rustc") || args[1].contains("rustc")) && !args[1].starts_with('-') {
        args.remove(1);
    }
    let mut cb = Cb;
    rustc_driver::run_compiler(&args, &mut cb);
}
