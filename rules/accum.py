#!/usr/bin/env python3
"""Accumulations: where a unit reduces a sequence to one value, however it is spelled.

    iter.fold(seed, |acc, x| …)    iter.try_fold(seed, …)    let mut acc = seed; for x in iter { acc = … }

`find(unit)` lists them with their seed expression (resolved through helper parameters when the unit calls the helper
with a constant) so that rules can state "folds once, from the identity" without naming a spelling."""
import re
from .core import callee_of, callee_path, strip_refs, strip_payload, const_value, expr_mentions
from . import panic as PN

FOLD = re.compile(r"(^std::iter::Iterator::|as std::iter::Iterator>::|as std::iter::DoubleEndedIterator>::)(fold|try_fold|rfold|try_rfold)$")


class Accum:
    def __init__(self, form, body, bi, seed, ty):
        self.form, self.body, self.bi, self.seed, self.ty = form, body, bi, seed, ty

    def where(self):
        return self.body.where(self.bi)


def _resolve_param(unit, body, e, depth=0):
    """A seed that is a parameter of a helper: the value the unit's call sites pass (when they agree)."""
    e0 = strip_refs(e)
    if depth > 3 or e0[0] != "arg":
        return e
    owner = body
    while owner.kind == "closure" and owner.creator():
        owner = owner.creator()[0]
    if owner.key == unit.root.key:
        return e
    vals = []
    for s in unit.calls(lambda c, _k=owner.key: c.get("key") == _k):
        if e0[1] - 1 < len(s.term["args"]):
            vals.append(_resolve_param(unit, s.body, s.body.xtrace(s.term["args"][e0[1] - 1]), depth + 1))
    if vals and all(repr(strip_refs(v)) == repr(strip_refs(vals[0])) for v in vals):
        return vals[0]
    return e


def seed_value(e):
    """Constant (float/int/named const path) of a seed expression, through Ok(..)/Some(..)."""
    x = strip_refs(e)
    while x[0] == "agg" and x[1].get("variant") in ("Ok", "Some") and x[2]:
        x = strip_refs(x[2][0])
    if x[0] == "const":
        v = const_value(x[1])
        if v is not None:
            return v
        return x[1].get("item_path") or x[1].get("item")
    names = []
    expr_mentions(x, lambda y: names.append(y[1].get("item_path")) if (y[0] == "const" and "item_path" in y[1]) else False)
    # one of several constants (a merge of `match self { Max => NEG_INFINITY, Min => INFINITY }`) is not *a* seed
    return names[0] if names and len(set(names)) == 1 else None


def find(unit, ty_pred=lambda ty: "f64" in ty):
    out = []
    for b in unit.bodies:
        # adaptor forms
        for bi, t in b.calls():
            p = callee_path(t) or ""
            if FOLD.search(p) and len(t["args"]) >= 2:
                seed = _resolve_param(unit, b, b.xtrace(t["args"][1]))
                ty = b.local_ty(t["args"][1]["place"]["local"]) if t["args"][1]["k"] in ("Copy", "Move") else str(t["args"][1].get("const", {}).get("ty"))
                if ty_pred(ty):
                    out.append(Accum(p.rsplit("::", 1)[1], b, bi, seed, ty))
        # loop forms: a local defined before the loop and re-defined inside it
        for (h, blocks, srcs) in PN.loops_of(b):
            for l, ds in b.defs().items():
                if b.is_arg(l) or not ty_pred(b.local_ty(l)):
                    continue
                inside = [d for d in ds if d[1] in blocks and not d[-1]]
                outside = [d for d in ds if d[1] not in blocks and not d[-1]]
                if not inside or len(outside) != 1:
                    continue
                # the value must live across iterations: some definition inside reads the local itself, or it is read after the loop
                carried = False
                for d in inside:
                    ex = b._trace_def(d, 0, frozenset([l]))
                    if expr_mentions(ex, lambda y: y == ("cycle", l)):
                        carried = True
                if not carried:
                    # conditional update (`if n > best { best = n }`): compared against itself in the loop
                    for bi2 in blocks:
                        for st in b.blocks[bi2]["stmts"]:
                            if st["k"] == "Assign" and st["rv"]["k"] == "BinaryOp":
                                for side in ("a", "b"):
                                    o = st["rv"][side]
                                    if o["k"] in ("Copy", "Move") and not o["place"]["proj"] and _root_local(b, o["place"]["local"]) == l:
                                        carried = True
                if not carried:
                    continue
                seed = _resolve_param(unit, b, b._trace_def(outside[0], 0, frozenset()))
                out.append(Accum("loop", b, h, seed, b.local_ty(l)))
    return out


def _root_local(b, l):
    for _ in range(4):
        ds = b.defs().get(l, [])
        if len(ds) == 1 and ds[0][0] == "stmt" and ds[0][3]["k"] == "Use" and ds[0][3]["op"]["k"] in ("Copy", "Move") and not ds[0][3]["op"]["place"]["proj"]:
            l = ds[0][3]["op"]["place"]["local"]
        else:
            break
    return l


def loop_exits_early(b, header):
    """Exit edges of the loop at `header` other than the exhaustion (None) edge of its iterator whose continuation can
    end the function *successfully*: the accumulation stops before all elements were visited.  Returns [(u, v)]."""
    from .core import switch_edges_for_variant
    from . import pathsum
    loops = [(h, blocks, srcs) for (h, blocks, srcs) in PN.loops_of(b) if h == header]
    if not loops:
        return []
    _, blocks, _ = loops[0]
    none_edges = set()
    for sb in blocks:
        tt = b.blocks[sb]["term"]
        if tt["k"] != "SwitchInt":
            continue
        e = b.trace(tt["discr"])
        if e[0] == "discr":
            x = strip_refs(e[1])
            if x[0] == "call" and x[1] and (x[1]["path"].endswith("::next") or x[1]["path"].endswith("::next_back")):
                r = switch_edges_for_variant(b, sb, "None")
                if r:
                    none_edges.add((sb, r[0]))
    bad = []
    for u in sorted(blocks):
        for v in b.succs(u):
            if v in blocks or (u, v) in none_edges:
                continue
            w = pathsum.Walker(b, start=v, max_paths=300)
            ok = not w.overflow      # no path at all: the continuation is unreachable code (the `otherwise` of an exhaustive match)
            for p in w.paths:
                r = strip_refs(p.result) if p.result is not None else None
                is_err = r is not None and ((r[0] == "agg" and r[1].get("variant") == "Err") or (r[0] == "call" and r[1] is not None and "from_residual" in r[1].get("path", "")))
                if not is_err:
                    ok = False
            if not ok:
                bad.append((u, v))
    return bad
