#!/usr/bin/env python3
"""C01 — evaluation is total: a value or an error, never a panic, abort or hang.

  K1  no undischarged panic source is reachable from an entry point (Rust apply,
      the public js_op helpers, the CLI's main, the Python binding): every
      Assert terminator and every call of a function classified panicky
      (spec/api/panicky.tsv) carries one of the justifications
        J1 discriminant guard (typestate), J2 constructor flow (always-Some),
        J3 arity interval (constant index < operand count given the table's
           arity set, refined along dominating length comparisons, followed
           through closures and forwarding functions),
        J4 constant operand / value set (non-zero divisor, radix in 2..=36, …),
        J5 a table entry keyed by (function role, source, ordinal) with a reason;
      every external callee is classified (total / panicky / trusted dependency) —
      an unclassified one makes the run INCONCLUSIVE;
  K2  loops are bounded by a finite std iterator; no infinite-iterator
      constructor; every recursive cycle of the call graph has a descent
      witness: the evaluator cycle by C04's provenance result (the parser only
      ever descends into rule text), self-recursive coercion helpers by
      structural descent (arguments strictly inside a parameter's array/object
      payload) or by acyclicity of the variant-transition graph;
  K3  process boundary: main returns Result (exit status via Termination) and
      contains no panic source but the table ones, its `expect` on a clap
      argument is backed by required(true); the Python binding converts every
      Err into ValueError and constructs no other exception; the text
      boundaries parse with serde_json::from_str (recursion limit 128 kept:
      no disable_recursion_limit, no unbounded_depth feature).
Not decided: stack consumption of 128 nested evaluator frames; panics inside
dependency functions classified total by reading.

The justifications are stated on what a value *is*, not on how the code around it is spelled (rules/panic.py):
  index        length interval of the indexed view (operand list by arity; item of chunks_exact(n)/windows(n)/chunks(n);
               remainder) refined by the length tests that dominate the site
  counter      a 64-bit storage (local, fold accumulator, struct field) only ever set to a small constant or stepped by one
  a - b        intervals from the comparisons that hold on every path to the site (core.implied_comparisons), through |x|
  radix        value sets through constructors, phis, captures, call sites and the return values of private functions
  str slicing  every bound is an offset of the sliced string itself (0, len, a search position, a constant behind ASCII)
  loop         the type of the value whose next() drives it is a finite iterator (adaptors, &mut I, type parameters
               resolved at every call site of the private function)
  recursion    size-change graph over tree-carrying parameters / variant-transition graph with kinds read from
               constructors and kind predicates decided per combination / provenance (C04) for the evaluator cycle,
               re-read on the helper-inlined view of the operators concerned when the path-insensitive reading is dirty
"""
import json, os, re, subprocess
from collections import defaultdict
from .core import (callee_of, callee_path, op_const, const_value, strip_refs, strip_payload, show_expr, expr_mentions)
from .engine import Inconclusive, VERIF
from .roles import Roles
from . import panic as PN
from . import prov as P
from . import extract as ex


def load_justified():
    rows = {}
    path = os.path.join(VERIF, "spec", "justified.tsv")
    for line in open(path):
        line = line.rstrip("\n")
        if not line or line.startswith("#"):
            continue
        k, reason = line.split("\t", 1)
        rows[k] = reason
    return rows


def role_name(roles, body):
    """Stable, name-independent identification of a body: operator-table role where there is one."""
    k = body.key
    suffix = ""
    while True:
        info = roles.op_fns.get(k) if roles else None
        if info:
            return "op(%s)%s" % ("/".join(sorted(info["keys"])), suffix)
        if "::{closure#" in k:
            k, c = k.rsplit("::{closure#", 1)
            suffix = "::{closure#" + c + suffix
        else:
            break
    return body.key.split("::", 1)[1] if "::" in body.key else body.key


def entry_points(facts, roles):
    ents = []
    for b in facts.fns():
        it = facts.items.get(b.key, {})
        if b.kind == "fn" and (it.get("exported") or it.get("reachable")):
            # the property names three entry points (Rust, CLI, Python); the WASM binding is not one of them
            if "wasm_bindgen::JsValue" in " ".join(it.get("inputs", []) + [it.get("output", "")]):
                continue
            if b.span.get("exp") and any("wasm_bindgen" in m for m in b.span.get("macros", [])):
                continue
            ents.append(b.key)
    return ents


def table_edges(facts, roles):
    """execute-like bodies (containing an indirect call) may invoke every function of the tables."""
    extra = defaultdict(set)
    allfns = {e.fn_key for t in roles.tables for e in t.entries} | {k for t in roles.tables for e in t.entries for _, ks in e.extra for k in ks}

    def norm(sig):
        sig = re.sub(r"for<[^>]*>\s*", "", sig or "")
        sig = re.sub(r"'\w+\s*", "", sig)
        sig = re.sub(r"\s*\{.*\}$", "", sig)
        return re.sub(r"\s+", "", sig)
    sigs = {k: norm(facts.items.get(k, {}).get("sig")) for k in allfns}
    for k in allfns:
        cb = facts.body(k)
        if not sigs[k] and cb is not None and cb.kind == "closure":
            # a closure stored as a function pointer: its pointer type is (parameters after the environment) -> result
            ps = [cb.local_ty(l) for l in range(2, cb.arg_count + 1)]
            sigs[k] = norm("fn(%s) -> %s" % (", ".join(ps), cb.local_ty(0)))
    for b in facts.fns():
        for _, t in b.calls():
            if callee_of(t) is not None:
                continue
            fty = norm(t.get("fty") or "")
            if fty.startswith("fn("):
                # a call through a fn pointer can only reach table functions of that very pointer type
                extra[b.key] |= {k for k in allfns if not sigs[k] or sigs[k] == fty}
            else:
                extra[b.key] |= allfns
    return extra


def sccs(nodes, succ):
    index = {}
    low = {}
    stack = []
    on = set()
    out = []
    counter = [0]

    def strong(v):
        work = [(v, iter(succ(v)))]
        index[v] = low[v] = counter[0]
        counter[0] += 1
        stack.append(v)
        on.add(v)
        while work:
            n, it = work[-1]
            adv = False
            for w in it:
                if w not in index:
                    index[w] = low[w] = counter[0]
                    counter[0] += 1
                    stack.append(w)
                    on.add(w)
                    work.append((w, iter(succ(w))))
                    adv = True
                    break
                elif w in on:
                    low[n] = min(low[n], index[w])
            if adv:
                continue
            work.pop()
            if work:
                low[work[-1][0]] = min(low[work[-1][0]], low[n])
            if low[n] == index[n]:
                comp = []
                while True:
                    w = stack.pop()
                    on.discard(w)
                    comp.append(w)
                    if w == n:
                        break
                out.append(comp)

    for v in nodes:
        if v not in index:
            strong(v)
    return out


def run(ctx):
    ctx.explanation = __doc__
    ctx.rule = "instances = panic sources (Assert terminators + panicky calls) in bodies reachable from the entry points, loops, call-graph cycles, boundary facts; non-trivial = discharged by a dataflow justification (J1–J4') rather than by a table line"
    ctx.trusted = ["spec/api/total.tsv, deps.tsv (dependency and std functions classified total by reading)", "rustc MIR construction: every overflow/bounds/division check appears as an Assert terminator in the debug-profile MIR", "spec/justified.tsv (J5 entries, one reason each)"]
    justified = load_justified()
    used_j5 = set()
    api = PN.Api()
    plan = [("default", "jsonlogic_rs", "debug"), ("cmdline", "jsonlogic_rs", "debug"), ("cmdline", "jsonlogic", "debug"), ("python", "jsonlogic_rs", "debug")]
    if ctx.tier == "thorough":
        plan += [("wasm", "jsonlogic_rs", "debug"), ("default", "jsonlogic_rs", "release"), ("cmdline", "jsonlogic", "release"), ("python", "jsonlogic_rs", "release")]
    unknown_all = {}
    inventory = {}
    for cfg, crate, prof in plan:
        facts = ctx.facts(cfg, crate, prof)
        tag = "%s/%s/%s" % (cfg, crate, prof)
        is_lib = crate == "jsonlogic_rs"
        roles = Roles(facts) if is_lib else None
        if is_lib:
            ents = entry_points(facts, roles)
            extra = table_edges(facts, roles)
            arity = PN.Arity(facts, roles)
            # premise of the arity justification (J3): an operator only ever runs on an operand list whose length was
            # checked against its descriptor — table entries are invoked by the operation evaluators, nowhere else
            from .c03 import table_invokers
            from .c04 import operator_receives_operand_list
            for tb_ in roles.tables:
                operator_receives_operand_list(ctx, facts, roles, tb_, tag, "K1.arity-premise", result_clause=False)
            for ek in sorted(table_invokers(facts, roles)):
                for cb in facts.fns():
                    for cbi, ct in cb.calls():
                        cc = callee_of(ct)
                        if cc and cc["local"] and cc["key"] == ek:
                            rk = cb.key
                            while "::{closure#" in rk:
                                rk = rk.rsplit("::{closure#", 1)[0]
                            ctx.check(rk in roles.evaluators, "K1.source", "arity premise: %s ← %s (%s)" % (ek.split("::", 1)[1], cb.key.split("::", 1)[1], tag),
                                      "an operator is run from %s on an operand list that never went through the length check: the positional accesses items[0..2] of the operators can be out of bounds (panic)" % cb.key.split("::", 1)[1], where=cb.where(cbi), fn=cb.key, nontrivial=True)
        else:
            ents = [b.key for b in facts.fns() if b.kind == "fn" and b.key.endswith("::main")]
            ctx.need(ents, "binary crate has no main")
            extra = {}
            arity = None
        reach = facts.reach(ents, extra)
        bodies = [facts.body(k) for k in sorted(reach) if facts.body(k) is not None and facts.body(k).kind in ("fn", "closure")]
        ctx.count("entry points (%s)" % tag, len(ents))
        ctx.count("reachable bodies (%s)" % tag, len(bodies))
        if is_lib and prof == "debug":
            ctx.floor("reachable bodies (%s)" % tag, len(bodies), 150)
        nsrc = 0
        by_kind = defaultdict(int)
        ordinals = defaultdict(int)
        for b in bodies:
            # glue generated by dependency macros (cpython's py_fn!/py_module_initializer!, wasm_bindgen) is dependency code
            if b.span.get("exp") and any(m in ("py_module_initializer", "py_fn", "wasm_bindgen") or m.startswith("py_") for m in b.span.get("macros", [])):
                by_kind["(dependency macro glue, listed not judged)"] += 1
                continue
            srcs, unknown = PN.sources_of(api, b)
            for (ub, ubi, path) in unknown:
                # a call written by a dependency macro inside a user-written function (py_fn!(..) as an argument) is the
                # same dependency glue as the bodies skipped above
                if ub.blocks[ubi]["tspan"].get("exp") and any(m.startswith("py_") or m == "wasm_bindgen" for m in ub.blocks[ubi]["tspan"].get("macros", [])):
                    by_kind["(dependency macro glue, listed not judged)"] += 1
                    continue
                unknown_all.setdefault(path, ub.where(ubi))
            for s in srcs:
                t = b.blocks[s.bi]["term"]
                if t["k"] == "Call" and b.blocks[s.bi]["tspan"].get("exp") and any(m.startswith("py_") or m == "wasm_bindgen" for m in b.blocks[s.bi]["tspan"].get("macros", [])):
                    by_kind["(dependency macro glue, listed not judged)"] += 1
                    continue
                nsrc += 1
                rn = role_name(roles, b)
                okey = (rn, s.what)
                ordn = ordinals[(tag, okey)]
                ordinals[(tag, okey)] += 1
                ident = "%s|%s|%d" % (rn, s.what.replace("std::option::Option::<T>::", "Option::").replace("<std::vec::Vec<T, A> as std::ops::Index<I>>::index", "Vec[index]"), ordn)
                by_kind[s.what if s.kind == "assert" else s.what.rsplit("::", 1)[-1]] += 1
                just = PN.justify(facts, roles, arity, s, justified) if is_lib or s.rule not in ("index",) else None
                if just is None and not is_lib and s.what == "std::process::exit":
                    just = "process::exit in the command-line binary ends the process with an exit status (the status itself is C18's K4)"
                if just is None and not is_lib and s.what == "std::io::_eprint":
                    just = "diagnostic written to stderr by the command-line binary: panics only if stderr is closed or broken — an environment fault outside the property's quantifier"
                if just is None and ident in justified:
                    just = "J5 table: " + justified[ident]
                    used_j5.add(ident)
                if just:
                    ctx.ok("K1.source", "%s (%s)" % (ident, tag), nontrivial=not just.startswith("J5"),
                           sample={"source": ident, "where": b.where(s.bi), "justification": just} if ordn == 0 else None)
                else:
                    ctx.fail("K1.source", ident,
                             "panic source without justification: %s %s%s" % (s.kind, s.what, (" — " + s.reason) if s.reason else ""),
                             where=b.where(s.bi), fn=b.key, path=call_path(facts, ents, extra, b.key))
        ctx.count("panic sources (%s)" % tag, dict(by_kind))
        if cfg == "default" and prof == "debug":
            inventory = dict(by_kind)
        if is_lib and prof == "debug":
            ctx.floor("panic sources judged (%s)" % tag, nsrc, 55)

        # ---------------- K2 loops
        nloops = 0
        for b in bodies:
            for (h, blocks, srcs) in PN.loops_of(b):
                nloops += 1
                why = PN.loop_bounded(b, h, blocks, srcs)
                ctx.check(why is not None, "K2.loop", "%s loop@bb%d (%s)" % (role_name(roles, b), h, tag),
                          "a loop that is not driven by a finite std iterator (back edge into bb%d): it can spin forever on some input" % h,
                          where=b.where(h), fn=b.key, nontrivial=True, sample={"loop": b.key, "why": why})
        ctx.count("loops (%s)" % tag, nloops)
        # iterations over an integer range: the upper bound must be bounded by an in-memory size
        nr = 0
        seen_r = set()
        for b in bodies:
            for (bi, path, end) in PN.range_iterations(b):
                key = (b.key, strip_refs(end) if isinstance(end, tuple) else None)
                if repr(key) in seen_r:
                    continue
                seen_r.add(repr(key))
                nr += 1
                ctx.check(PN.bounded(b, end), "K2.range-bound", "%s range iteration bb%d (%s)" % (role_name(roles, b), bi, tag),
                          "iteration over an integer range whose upper bound %s is not bounded by the size of an in-memory collection: a huge JSON-supplied number makes the call run (practically) forever" % show_expr(strip_refs(end))[:120],
                          where=b.where(bi), fn=b.key, nontrivial=True)
        ctx.count("range iterations (%s)" % tag, nr)

        # ---------------- K2 recursion
        if is_lib and prof == "debug":
            recursion(ctx, facts, roles, reach, extra, tag, ctx.fact_paths.get((cfg, crate, prof)))

        # ---------------- K3 boundary
        if crate == "jsonlogic":
            boundary_cli(ctx, facts, tag)
        if cfg == "python" and is_lib and prof == "debug":
            boundary_python(ctx, facts, roles, tag)
        if is_lib and prof == "debug":
            depth_limit(ctx, facts, tag)
    if unknown_all:
        raise Inconclusive("unclassified external callees (add them to spec/api/total.tsv or panicky.tsv after reading them): %s" % "; ".join("%s @ %s" % (p, w) for p, w in sorted(unknown_all.items())[:12]))
    if ctx.tier == "thorough":
        clippy_crosscheck(ctx, inventory)
    stale = sorted(set(justified) - used_j5)
    ctx.count("J5 table lines used / total", "%d / %d" % (len(used_j5), len(justified)))
    ctx.notes.append("J5 lines not matched in this run (other configs or stale): %s" % stale)
    # manifest-level fact: serde_json features
    feats = serde_json_features()
    ctx.check("unbounded_depth" not in feats, "K3.depth-feature", "serde_json built without unbounded_depth", "serde_json is built with feature unbounded_depth: the 128 recursion limit at the text boundaries is gone", where="Cargo.toml")


def clippy_crosscheck(ctx, inventory):
    """Cross-reference (not a verdict): clippy's restriction lints, run on the same tree, must not see
    more unwrap/expect/indexing/arithmetic sites in non-test code than the extractor's own inventory."""
    env = dict(os.environ, CARGO_TARGET_DIR=os.path.join(ex.CACHE, "target-clippy"), CARGO_NET_OFFLINE="true")
    lints = ["unwrap_used", "expect_used", "indexing_slicing", "arithmetic_side_effects", "panic", "unreachable", "string_slice"]
    cmd = ["cargo", "+nightly", "clippy", "--offline", "--message-format=json", "--quiet", "--"] + [x for l in lints for x in ("-W", "clippy::" + l)]
    try:
        r = subprocess.run(cmd, cwd=ex.REPO, env=env, capture_output=True, text=True, timeout=600)
    except Exception as e:
        ctx.notes.append("clippy cross-check could not run: %s" % e)
        return
    counts = {}
    for line in r.stdout.splitlines():
        try:
            m = json.loads(line)
        except ValueError:
            continue
        if m.get("reason") == "compiler-message":
            code = (m["message"].get("code") or {}).get("code") or ""
            if code.startswith("clippy::") and code[8:] in lints:
                counts[code[8:]] = counts.get(code[8:], 0) + 1
    mine = {"unwrap_used": inventory.get("unwrap", 0), "expect_used": inventory.get("expect", 0), "indexing_slicing": inventory.get("index", 0),
            "arithmetic_side_effects": sum(v for k, v in inventory.items() if k in ("Overflow", "OverflowNeg", "DivisionByZero", "RemainderByZero"))}
    ctx.count("clippy restriction-lint inventory (cross-reference)", counts)
    for k, n in mine.items():
        ctx.check(counts.get(k, 0) <= n or k == "arithmetic_side_effects", "X.clippy-superset", "extractor sees at least clippy's %s sites (%d ≥ %d)" % (k, n, counts.get(k, 0)),
                  "clippy reports %d %s sites in the library but the extractor's inventory has only %d: a panic source class is not being seen" % (counts.get(k, 0), k, n), where="(cross-reference)")
    for k in ("panic", "unreachable", "string_slice"):
        ctx.check(counts.get(k, 0) == 0, "X.clippy-" + k, "clippy sees no %s in the library" % k, "clippy reports %d %s sites" % (counts.get(k, 0), k), where="(cross-reference)")


def call_path(facts, roots, extra, target):
    cg, _ = facts.callgraph()
    prev = {}
    from collections import deque
    dq = deque(roots)
    seen = set(roots)
    while dq:
        k = dq.popleft()
        if k == target:
            path = [k]
            while path[-1] in prev:
                path.append(prev[path[-1]])
            return [p.split("::", 1)[-1] for p in reversed(path)]
        for s in list(cg.get(k, ())) + list(extra.get(k, ())):
            if s not in seen:
                seen.add(s)
                prev[s] = k
                dq.append(s)
    return None


def serde_json_features():
    try:
        out = subprocess.check_output(["cargo", "metadata", "--offline", "--format-version", "1"], cwd=ex.REPO, stderr=subprocess.DEVNULL, text=True)
        d = json.loads(out)
        for n in d["resolve"]["nodes"]:
            if "#serde_json@" in n["id"] or n["id"].startswith("serde_json "):
                return set(n["features"])
    except Exception as e:
        raise Inconclusive("cargo metadata failed: %s" % e)
    raise Inconclusive("serde_json not found in cargo metadata")


# ------------------------------------------------------------------ recursion
def evaluator_sinks(ctx, facts, roles, fact_path):
    """S1 results for the descent witness of the evaluator cycle.  The provenance analysis joins the call sites of a
    helper and the paths inside it; when an operator's code was split into private helpers (the flag that guards a parse
    computed in one, the parse done in another) a sink can stay dirty although no run reaches it with anything but
    rule text.  The sinks that stay dirty are therefore read once more on the view of the program in which the private
    helpers of the operators concerned stand at their call sites (rules/inline.py: behaviour-preserving, with jump
    threading) — one more reading of the same clause on the same program, not a different clause."""
    s1 = P.analyse(roles)[1]
    dirty = [s for s, v, how in s1 if v == "dirty"]
    if not dirty or ctx.inline_set or not fact_path:
        return s1, ""
    try:
        from . import inline
        from .opfacts import Unit
        cands = set(inline.candidates(fact_path))
        helpers = set()
        roots = set()
        for s_ in dirty:
            k = s_.body.key
            while "::{closure#" in k:
                k = k.rsplit("::{closure#", 1)[0]
            roots.add(k)
        for fk in sorted(roles.op_fns):
            keys = Unit(roles, fk, extended=True).keys
            if keys & roots:
                helpers |= keys & cands
        if not helpers:
            return s1, ""
        vf = inline.load_view(fact_path, sorted(helpers))
        vs1 = P.analyse(Roles(vf))[1]
    except Exception as e:          # the view could not be built or read: the reading on the program as written stands
        ctx.notes.append("helper-inlined view for the evaluator cycle could not be read (%s: %s)" % (type(e).__name__, e))
        return s1, ""
    return vs1, " — read on the view with the operators' private helpers %s inlined at their call sites (on the program as written %d sink(s) stayed undecided by the path-insensitive analysis)" % (", ".join(h.split("::", 1)[-1] for h in sorted(helpers)), len(dirty))


def recursion(ctx, facts, roles, reach, extra, tag, fact_path=None):
    cg, _ = facts.callgraph()
    nodes = [k for k in reach if facts.body(k) is not None and facts.body(k).kind in ("fn", "closure")]

    def succ(k):
        return [s for s in list(cg.get(k, ())) + list(extra.get(k, ())) if s in reach and facts.body(s) is not None and facts.body(s).kind in ("fn", "closure")]

    comps = [c for c in sccs(nodes, succ) if len(c) > 1 or c[0] in succ(c[0])]
    ctx.count("recursive cycles (%s)" % tag, len(comps))
    evaluator_keys = set(roles.sinks) | set(roles.evaluators)
    s1 = None
    for comp in comps:
        cs = set(comp)
        roots = sorted(k for k in cs if "::{closure#" not in k)
        name = ",".join(role_name(roles, facts.body(r)) for r in roots[:4]) + ("…" if len(roots) > 4 else "")
        if cs & evaluator_keys:
            if s1 is None:
                s1, view_note = evaluator_sinks(ctx, facts, roles, fact_path)
            dirty = [s for s, v, how in s1 if v == "dirty"]
            # every parser call inside the cycle is an S1 sink by construction; the cycle descends in the rule tree iff they are all clean
            ctx.check(not dirty, "K2.recursion", "evaluator cycle (%d functions, %s)" % (len(cs), tag),
                      "the evaluator recursion re-enters the parser on a value that is not rule text (%s): recursion depth is no longer bounded by the nesting of the rule" % ", ".join(s.ident() for s in dirty[:3]),
                      where=dirty[0].body.where(dirty[0].bi) if dirty else "", fn=dirty[0].body.key if dirty else None, nontrivial=True,
                      sample={"cycle": "evaluator", "functions": len(cs), "witness": "all %d parser call sites receive rule text only (C04 K1): each nested parse is a strict sub-term of the rule%s" % (len(s1), view_note)})
            # depth is bounded by the nesting of the rule; the *work* is bounded too only if no level evaluates an operand
            # twice (an operand evaluated twice at each of d nested levels costs 2^d evaluations: a hang at depth 64)
            if not getattr(ctx, "_once_done", {}).get(tag):
                ctx._once_done = dict(getattr(ctx, "_once_done", {}), **{tag: True})
                from .c05 import at_most_once
                from .opfacts import Unit
                seen_fn = set()
                for tb_ in roles.tables:
                    if tb_.role != "lazy":
                        continue
                    for e_ in tb_.entries:
                        if e_.fn_key in seen_fn:
                            continue
                        seen_fn.add(e_.fn_key)
                        u_ = Unit(roles, e_.fn_key, extended=True)
                        if [s_ for s_ in u_.calls(lambda c: c.get("key") == roles.parsed_evaluate)]:
                            at_most_once(ctx, facts, roles, u_, e_.key, tag, "K2.work")
            # that witness speaks about the cycles that go through the parser or an evaluate function; a cycle inside the
            # component that avoids both (a helper calling itself on the rest of an operand list, say) needs its own
            rest = [k for k in comp if k not in evaluator_keys]
            rset = set(rest)
            rsucc = lambda k: [x for x in succ(k) if x in rset]
            for sub in [c for c in sccs(rest, rsucc) if len(c) > 1 or c[0] in rsucc(c[0])]:
                ss = set(sub)
                sroots = sorted(k for k in ss if "::{closure#" not in k)
                w = None
                if len(sroots) == 1:
                    fb = facts.body(sroots[0])
                    w = structural_descent(facts, roles, fb, ss) or variant_descent(facts, roles, fb, ss)
                elif sroots:
                    w = structural_descent_mutual(facts, roles, [facts.body(r) for r in sroots], ss)
                ctx.check(w is not None, "K2.recursion", "recursion inside the evaluator cycle that bypasses parser and evaluator: %s (%s)" % (",".join(role_name(roles, facts.body(r)) for r in sroots[:3]), tag),
                          "%s recurse(s) without going through the parser or an evaluate function and without a descent into the JSON tree: the depth is not bounded by the nesting of the rule (e.g. it grows with the length of an operand list)" % sorted(sroots),
                          where=facts.body(sroots[0]).where() if sroots else "", fn=sroots[0] if sroots else None, nontrivial=True)
            continue
        if len(roots) != 1:
            w = structural_descent_mutual(facts, roles, [facts.body(r) for r in roots], cs)
            ctx.check(w is not None, "K2.recursion", "mutual recursion of %s (%s)" % (name, tag),
                      "mutual recursion outside the evaluator without a descent witness: %s" % sorted(cs), where=facts.body(roots[0]).where(), fn=roots[0], nontrivial=True,
                      sample={"cycle": sorted(cs), "witness": w})
            continue
        f = facts.body(roots[0])
        w = structural_descent(facts, roles, f, cs) or variant_descent(facts, roles, f, cs)
        ctx.check(w is not None, "K2.recursion", "self-recursion of %s (%s)" % (name, tag),
                  "recursive call without a descent witness (arguments are neither strictly inside a parameter nor of a variant that cannot recurse again)",
                  where=f.where(), fn=f.key, nontrivial=True, sample={"function": f.key, "witness": w})


def value_params(f):
    """Parameters that are JSON values or one of the crate's own tree types."""
    out = []
    for i in range(1, f.arg_count + 1):
        adt = f.locals[i].get("adt") or ""
        if adt == "serde_json::Value" or (adt and not adt.startswith(("std::", "core::", "alloc::")) and adt in f.facts.adts and not adt.startswith("serde_json::")):
            out.append(i)
    return out


def rec_sites(facts, f, cs):
    out = []
    for k in cs:
        b = facts.body(k)
        for bi, t in b.calls():
            c = callee_of(t)
            if c and c.get("key") == f.key:
                out.append((b, bi, t))
    return out


def structural_descent(facts, roles, f, cs):
    vps = value_params(f)
    if not vps:
        return None
    seeds = {(f.key, p): {"P%d" % p} for p in vps}
    pr = P.Prov(roles, seeds=seeds, mark_inner=True).run()
    sites = rec_sites(facts, f, cs)
    if not sites:
        return None
    for b, bi, t in sites:
        for p in vps:
            tg = pr.op_tags(b, t["args"][p - 1])
            if not tg or not all(x.endswith(".in") and ".built" not in x for x in tg):
                return None
    return "structural descent: at all %d recursive call sites every JSON-valued argument lies strictly inside the array/object payload of a parameter (max size strictly decreases)" % len(sites)


def tree_params(f):
    """Parameters that carry (part of) a JSON tree: a value, one of the crate's own tree types, or a std container /
    slice / iterator of them (`&[Value]`, `&Vec<Value>`, `slice::Iter<Value>`, `Option<&Value>` …)."""
    out = []
    local = [a for a in f.facts.adts if not a.startswith(("std::", "core::", "alloc::", "serde_json::", "phf::"))]
    for i in range(1, f.arg_count + 1):
        if f.kind == "closure" and i == 1:
            continue
        ty = f.local_ty(i)
        if "serde_json::Value" in ty or "serde_json::Map" in ty or any(re.search(r"(^|[^\w:])%s($|[^\w:])" % re.escape(a), ty) for a in local):
            out.append(i)
    return out


def structural_descent_mutual(facts, roles, fs, cs):
    """Size-change reading of a cycle f1→f2→…→f1.  Every call between members hands on, in each tree-carrying
    parameter position, (a part of) a tree-carrying parameter of the caller: the largest tree in play never grows.  A
    call is *strict* when every such argument lies strictly inside an array/object payload (or a field / variant payload
    of one of the crate's tree types).  The cycle descends iff its calls without the strict ones form no cycle — how the
    members split the work between them (who unwraps the array, who walks it, who handles one item) does not matter."""
    seeds = {}
    members = {f.key: f for f in fs}
    for f in fs:
        vps = tree_params(f)
        if not vps:
            return None
        for p in vps:
            seeds[(f.key, p)] = {"P"}
    pr = P.Prov(roles, seeds=seeds, mark_inner=True).run()
    edges = []          # (caller root, callee, strict)

    def root_of(k):
        while "::{closure#" in k and k not in members:
            k = k.rsplit("::{closure#", 1)[0]
        return k

    for k in sorted(cs):
        b = facts.body(k)
        for bi, t in b.calls():
            c = callee_of(t)
            targets = []
            if c and c.get("key") in members:
                targets.append((c["key"], [pr.op_tags(b, a) for a in t["args"]], None))
            # members passed as callables to adaptors (`.map(Value::from)`): their parameters receive the other arguments
            for a in t["args"]:
                cc = op_const(a)
                if cc and "fn" in cc:
                    r = cc["fn"].get("resolved") or cc["fn"]
                    for r2 in [r] + list(cc["fn"].get("fwd", [])):
                        if r2.get("key") in members:
                            others = set()
                            for x in t["args"]:
                                if x is not a:
                                    others |= pr.op_tags(b, x)
                            targets.append((r2["key"], None, others))
            for fk, tags, spread in targets:
                vps = tree_params(members[fk])
                rel = [tags[p - 1] for p in vps if p - 1 < len(tags)] if tags is not None else [spread] * len(vps)
                if not rel or any((not tg) or any(x not in ("P", "P.in") for x in tg) for tg in rel):
                    return None       # a tree that is not (part of) a parameter of the caller: built, computed, foreign
                strict = all(all(x.endswith(".in") for x in tg) for tg in rel)
                edges.append((root_of(k), fk, strict))
    if not edges:
        return None
    weak = defaultdict(set)
    for u, v, strict in edges:
        if not strict:
            weak[u].add(v)
    color = {}

    def dfs(n):
        color[n] = 1
        for m in weak.get(n, ()):
            if color.get(m) == 1 or (m not in color and not dfs(m)):
                return False
        color[n] = 2
        return True

    for n in list(weak):
        if n not in color and not dfs(n):
            return None
    ns = sum(1 for e in edges if e[2])
    return "structural descent through %d call sites of the cycle: none hands on a tree that is not (part of) a tree-carrying parameter of its caller, %d go strictly inside an array/object payload (or a field / variant payload of a tree type), and the other %d form no cycle among themselves" % (len(edges), ns, len(edges) - ns)


OPT_PAYLOAD_FN = re.compile(r"^std::(option::Option|result::Result)::<.*>::(map|map_or|map_or_else|and_then|is_some_and|is_ok_and|filter|inspect|then)$")


KIND_PRED = {"is_null": "Null", "is_boolean": "Bool", "is_number": "Number", "is_string": "String", "is_array": "Array", "is_object": "Object"}


def kind_predicate(facts, roles, body, x, kinds, depth=0):
    """Truth value of a boolean expression that asks for the kind of a parameter whose kind is assumed (`kinds`:
    parameter → variant name): serde_json's is_*() predicates, a private predicate function over them (read by
    specialising it to the kinds of its arguments), negation.  None = not such a question."""
    if depth > 4:
        return None
    x = strip_refs(x)
    if x[0] == "const":
        v = const_value(x[1])
        return v if isinstance(v, bool) else None
    if x[0] == "unop" and x[1] == "Not":
        v = kind_predicate(facts, roles, body, x[2], kinds, depth)
        return None if v is None else (not v)
    if x[0] == "phi":
        vs = {kind_predicate(facts, roles, body, y, kinds, depth) for y in x[2]}
        return vs.pop() if len(vs) == 1 else None
    if x[0] != "call" or not x[1]:
        return None
    m = re.match(r"^serde_json::Value::(is_\w+)$", x[1].get("path") or "")
    if m:
        a = strip_refs(x[2][0]) if x[2] else None
        if m.group(1) in KIND_PRED and a is not None and a[0] == "arg" and a[1] in kinds:
            return kinds[a[1]] == KIND_PRED[m.group(1)]
        return None
    if x[1].get("local"):
        hb = facts.body(x[1]["key"])
        if hb is None or hb.kind != "fn" or hb.local_ty(0) != "bool":
            return None
        ck = {}
        for i, a in enumerate(x[2]):
            a = strip_refs(a)
            if a[0] == "arg" and a[1] in kinds:
                ck[i + 1] = kinds[a[1]]
        if not ck:
            return None
        try:
            restrict = P.specialise_unit(roles, hb.key, lambda e, adt, _ck=ck: _ck.get(e[1]) if (adt == "serde_json::Value" and e[0] == "arg") else None,
                                         assume_bool=lambda y, _ck=ck: kind_predicate(facts, roles, hb, y, _ck, depth + 1))
        except Exception:
            return None
        with hb.restricted(restrict.get(hb.key, set())):
            r = hb.trace(0)
        return kind_predicate(facts, roles, hb, r, ck, depth + 1)
    return None


def value_kinds(facts, body, e, assign, depth=0):
    """The JSON kinds (variant names) the value expression e can have, or None when it cannot be read.  Read from what
    the value is — a parameter whose kind is assumed, a constructor (written as an aggregate or applied as a function,
    here or in a private function that returns it, possibly inside Some/Ok), the payload a combinator hands to a
    closure — not from where in the source it is built."""
    if depth > 8:
        return None
    e = strip_refs(e)
    if e[0] == "arg" and e[1] in assign:          # (x-traced: a parameter of the function, also when read through a closure capture)
        return {assign[e[1]]}
    if e[0] == "agg" and e[1].get("adt") == "serde_json::Value" and e[1].get("variant"):
        return {e[1]["variant"]}
    if e[0] == "call" and e[1] and re.match(r"^serde_json::Value::(Null|Bool|Number|String|Array|Object)$", e[1].get("path") or ""):
        return {e[1]["path"].rsplit("::", 1)[1]}
    if e[0] == "carg":
        # a closure parameter: the payload of the Option/Result whose combinator runs the closure
        cb = facts.body(e[1])
        cr = cb.creator() if cb is not None else None
        if cr is None or e[2] != 2:
            return None
        for bi, t in cr[0].calls():
            if not OPT_PAYLOAD_FN.match(callee_path(t) or ""):
                continue
            if any(strip_refs(cr[0].trace(a))[0] == "agg" and strip_refs(cr[0].trace(a))[1].get("closure") == e[1] for a in t["args"][1:]):
                return payload_kinds(facts, cr[0], cr[0].xtrace(t["args"][0]), assign, depth + 1)
        return None
    if e[0] == "phi":
        out = set()
        for x in e[2]:
            r = value_kinds(facts, body, x, assign, depth + 1)
            if r is None:
                return None
            out |= r
        return out
    if e[0] == "field" and e[2] == 0 and e[1][0] == "downcast" and e[1][2] in ("Some", "Ok"):
        return payload_kinds(facts, body, e[1][1], assign, depth + 1)
    return None


def payload_kinds(facts, body, e, assign, depth=0):
    """Kinds of the Some/Ok payload of an Option/Result expression (None/Err alternatives contribute nothing)."""
    alts = PN.constructed(facts, body, e)
    if alts is None or depth > 8:
        return None
    out = set()
    for (b2, x) in alts:
        x = strip_refs(x)
        inner_assign = assign if b2 is body or b2.key.startswith(body.key) or body.key.startswith(b2.key) else {}
        if x[0] == "agg" and x[1].get("variant") in ("Some", "Ok") and len(x[2]) == 1:
            r = value_kinds(facts, b2, x[2][0], inner_assign, depth + 1)
        elif x[0] == "agg" and x[1].get("variant") in ("None", "Err"):
            continue
        elif x[0] == "call" and x[1] and x[1]["path"] in ("std::option::Option::<T>::map", "std::result::Result::<T, E>::map") and len(x[2]) == 2:
            f = strip_refs(x[2][1])
            fn = (f[1].get("fn") or {}) if f[0] == "const" else {}
            m = re.match(r"^serde_json::Value::(Null|Bool|Number|String|Array|Object)$", (fn.get("resolved") or fn).get("path") or fn.get("path") or "")
            r = {m.group(1)} if m else None
        else:
            r = None
        if r is None:
            return None
        out |= r
    return out or None


def variant_descent(facts, roles, f, cs):
    vps = value_params(f)
    if not vps or len(vps) > 2:
        return None
    variants = facts.variants("serde_json::Value")
    import itertools
    edges = {}
    for combo in itertools.product(variants, repeat=len(vps)):
        assign = dict(zip(vps, combo))

        def assume(e, adt, _a=assign):
            if adt == "serde_json::Value" and e[0] == "arg" and e[1] in _a:
                return _a[e[1]]
            return None

        restrict = P.specialise_unit(roles, f.key, assume, assume_bool=lambda x, _a=assign: kind_predicate(facts, roles, f, x, _a))
        outs = set()
        for b, bi, t in rec_sites(facts, f, cs):
            if bi not in restrict.get(b.key, set()):
                continue
            nxt = []
            for p in vps:
                ks = value_kinds(facts, b, b.xtrace(t["args"][p - 1]), assign)
                nxt.append(sorted(ks) if ks else None)
            if None in nxt:
                return None
            outs.update(itertools.product(*nxt))
        edges[combo] = outs
    # acyclic?
    color = {}

    def dfs(n):
        color[n] = 1
        for m in edges.get(n, ()):
            if color.get(m) == 1:
                return False
            if m not in color and not dfs(m):
                return False
        color[n] = 2
        return True

    for n in edges:
        if n not in color and not dfs(n):
            return None
    ne = sum(len(v) for v in edges.values())
    return "variant-transition graph over %d kind combinations has %d edges and no cycle: every recursive call moves to a kind combination from which recursion ends" % (len(edges), ne)


# ------------------------------------------------------------------ boundary
def boundary_cli(ctx, facts, tag):
    mains = [b for b in facts.fns() if b.kind == "fn" and b.key.endswith("::main")]
    ctx.need(len(mains) == 1, "main not found")
    m = mains[0]
    out = facts.items[m.key]["output"]
    propagates = any((callee_path(t) or "").endswith("as std::ops::Try>::branch") for _, t in m.calls())
    ctx.check(out.startswith("std::result::Result<(), ") or (out == "()" and not propagates), "K3.cli-result", "main ends with an exit status: Result<(), _> through Termination, or () with failures handled by process::exit (%s)" % tag,
              "main returns %s: failures would not become an exit status" % out, where=m.where(), fn=m.key)
    # expect() on a clap value is backed by required(true) on the same argument name
    for bi, t in m.calls():
        if callee_path(t) == "std::option::Option::<T>::expect":
            recv = strip_refs(m.trace(t["args"][0]))
            name = None
            if recv[0] == "call" and recv[1] and recv[1]["path"].endswith("::value_of"):
                n = strip_refs(recv[2][1])
                name = const_value(n[1]) if n[0] == "const" else None
            # The declarations are read as the set of (argument name, required flag) combinations that reach
            # `Arg::required` on an `Arg::with_name(name)` — written in place, handed to a helper as parameters, or taken
            # from the rows of a constant table (x_joint.joint_values): satisfied when the name is declared with `true`
            # and never with `false`; violated when the declarations were all read and say otherwise; not read else.
            from .x_joint import joint_values
            decls, unreadable = set(), []
            if name is not None:
                for b in facts.fns():
                    for bj, tt in b.calls():
                        if (callee_path(tt) or "").endswith("Arg::<'a, 'b>::required"):
                            e = strip_refs(b.trace(tt["args"][0]))
                            flag = strip_refs(b.trace(tt["args"][1]))
                            ctor = []
                            expr_mentions(e, lambda x: ctor.append(x) if x[0] == "call" and x[1] and x[1]["path"].endswith("::with_name") and x[2] else False)
                            vals = joint_values(facts, b, [ctor[0][2][0], flag]) if len(ctor) == 1 else None
                            if vals is None or any(not isinstance(n_, str) or not isinstance(f_, bool) for n_, f_ in vals):
                                unreadable.append((b, bj))
                            else:
                                decls |= vals
            key = "expect on clap argument %r is backed by required(true) (%s)" % (name, tag)
            if (name, True) in decls and (name, False) not in decls:
                ctx.ok("K3.cli-required", key, nontrivial=True, sample={"argument": name, "declarations read (name, required)": sorted(decls)})
            elif unreadable and (name, False) not in decls:
                ub, ubj = unreadable[0]
                ctx.unread("K3.cli-required", key, "a declaration Arg::required(..) whose argument name / flag is not read as constants (in place, parameters over all call sites, rows of a constant table)", where=ub.where(ubj), fn=ub.key)
            else:
                ctx.fail("K3.cli-required", key, "main unwraps the value of argument %r but the argument is not declared required(true) (declarations read: %s): a missing argument would panic" % (name, sorted(decls)), where=m.where(bi), fn=m.key)
    exits = [callee_path(t) for b in facts.fns() for _, t in b.calls() if callee_path(t) in ("std::process::abort", "std::intrinsics::abort")]
    ctx.check(not exits, "K3.cli-no-abort", "no process::abort in the binary — process::exit(status) is an ordinary end with an exit status (%s)" % tag, "the binary calls %s" % exits, where=m.where(), fn=m.key)


def boundary_python(ctx, facts, roles, tag):
    # functions of the python interface module: those reachable only with the python feature and returning PyResult / Result<String,String>
    py = [b for b in facts.fns() if "python_iface" in b.key]
    ctx.need(py, "python interface not found in the python configuration")
    pyerr_new = []
    for b in py:
        if b.span.get("exp"):
            continue
        for bi, t in b.calls():
            c = callee_of(t)
            if c and c["crate"] == "cpython" and "PyErr" in c["path"]:
                pyerr_new.append((b, bi, c))
    ctx.need(pyerr_new, "no PyErr construction found in the python interface")
    for b, bi, c in pyerr_new:
        ok = c["path"].endswith("PyErr::new") and any("ValueError" in x for x in c.get("targs", []) or [c["full"]]) or "ValueError" in c["full"]
        ctx.check(ok, "K3.py-valueerror", "%s bb%d (%s)" % (b.key.split("::", 1)[1], bi, tag),
                  "the binding raises through %s, which is not ValueError" % c["full"], where=b.where(bi), fn=b.key, nontrivial=True, sample={"ctor": c["full"]})
    # the function registered with py_fn! returns PyResult<String> whose Err is built only there
    wrappers = [b for b in py if b.kind == "fn" and not b.span.get("exp") and "PyResult" in facts.items[b.key]["output"] or (b.kind == "fn" and not b.span.get("exp") and "cpython::PyErr" in facts.items.get(b.key, {}).get("output", ""))]
    ctx.check(len(wrappers) >= 1, "K3.py-wrapper", "binding function returns PyResult (%s)" % tag, "no user-written function returning PyResult found", where=py[0].where(), fn=py[0].key)
    # "an Err becomes the exception" is stated on where exception values come from and on what consumes a Result, not on
    # how the conversion is spelled (map_err at the end, a combinator pipeline, a method of an error enum, `?`):
    #   * the type system already says that the Err a binding function returns is a PyErr; a PyErr value *originates* in a
    #     call into the cpython crate (std combinators and `?` only pass it on, local functions of the interface are
    #     judged themselves): a constructor — ValueError only, K3.py-valueerror above — or the Python runtime's own error
    #     handed on (PyModule::add …).  An origin anywhere else (another crate, a function outside the interface) is
    #     not read.
    #   * no Result in the user-written interface code is consumed by an API that panics on Err or drops it
    #     (unwrap/expect are K1 sources as well; ok/unwrap_or*/is_ok/is_err/err lose the error: a failed call would end
    #     as a value instead of the exception).
    DROPS_ERR = re.compile(r"^std::result::Result::<T, E>::(unwrap|expect|unwrap_unchecked|ok|err|unwrap_or|unwrap_or_else|unwrap_or_default|is_ok|is_err|is_ok_and|is_err_and|unwrap_err|expect_err|into_ok)$")
    NOT_READ = re.compile(r"^std::result::Result::<T, E>::(iter|iter_mut|into_iter|map_or|map_or_else|as_ref|as_mut|as_deref|transpose|flatten|copied|cloned)$|IntoIterator>::into_iter$")
    user = [b for b in py if not b.span.get("exp")]

    def op_local(o):
        return o["place"]["local"] if o.get("k") in ("Copy", "Move") else None
    for w in wrappers:
        unit = [b for b in user if b.key == w.key or b.key.startswith(w.key + "::{closure#")]
        origins, foreign, dropped = [], [], []
        for b in unit:
            for bi, t in b.calls():
                c = callee_of(t)
                p = (c or {}).get("path") or ""
                if c is not None and DROPS_ERR.match(p) and not (b.blocks[bi]["tspan"].get("exp") and any(m.startswith("py_") for m in b.blocks[bi]["tspan"].get("macros", []))):
                    dropped.append((b, bi, p))
                if c is not None and NOT_READ.search(p) and t["args"] and op_local(t["args"][0]) is not None and "std::result::Result<" in b.local_ty(op_local(t["args"][0])):
                    foreign.append((b, bi, "a Result handed to %s" % p))
                dty = b.local_ty(t["dest"]["local"]) if t.get("dest") and not t["dest"]["proj"] else ""
                if "cpython::PyErr" not in dty:
                    continue
                if c is None:
                    foreign.append((b, bi, "an indirect call"))
                elif c["local"]:
                    if not any(c["key"] == x.key for x in py):
                        foreign.append((b, bi, c["path"]))
                elif c["crate"] == "cpython":
                    origins.append((b, bi, c))
                elif c["crate"] not in ("core", "std", "alloc"):
                    foreign.append((b, bi, c["path"]))
        key = "%s maps every Err to the exception (%s)" % (w.key.split("::", 1)[1], tag)
        if dropped:
            b, bi, p = dropped[0]
            ctx.fail("K3.py-maps-err", key, "the binding consumes a Result with %s: an Err does not become the Python exception (it panics or is dropped)" % p, where=b.where(bi), fn=b.key)
        elif foreign:
            b, bi, p = foreign[0]
            ctx.unread("K3.py-maps-err", key, "not read: %s (an exception value that comes neither from the cpython crate nor from the interface itself, or a Result consumed in a way the rule does not follow)" % p, where=b.where(bi), fn=b.key)
        else:
            ctx.ok("K3.py-maps-err", key, nontrivial=True, sample={"binding": w.key, "exception values originate in": sorted({c["path"] for _, _, c in origins})})


def depth_limit(ctx, facts, tag):
    bad = []
    for b in facts.fns():
        for bi, t in b.calls():
            p = callee_path(t) or ""
            if "disable_recursion_limit" in p:
                bad.append((b, bi, p))
    ctx.check(not bad, "K3.depth-limit", "no disable_recursion_limit (%s)" % tag, "the deserializer's recursion limit is disabled at %s" % [b.where(bi) for b, bi, _ in bad], where=bad[0][0].where(bad[0][1]) if bad else "")
    # text boundaries use serde_json::from_str / from_reader (depth-limited) — never a hand-rolled parser
    n = 0
    for b in facts.fns():
        if "iface" in b.key:
            for bi, t in b.calls():
                p = callee_path(t) or ""
                if p.startswith("serde_json::") and ("from_str" in p or "from_slice" in p or "from_reader" in p):
                    n += 1
    ctx.count("depth-limited deserialiser entries in interface modules (%s)" % tag, n)
