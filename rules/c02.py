#!/usr/bin/env python3
"""C02 — only single-key objects keyed by an operator name are rules.

  K1  key set: the union of the three tables' keys equals the 35 documented names,
      the tables are pairwise disjoint, key == symbol in all three tables, every
      name sits in the table kind the documentation implies (eager / lazy / data),
      distinct keys are bound to distinct functions except the documented alias group;
  K2  exact-match dispatch: every Ok(Some(operation)) exit of the dispatcher is
      edge-dominated by (a) the Object edge of the switch on the value's kind,
      (b) an edge implying Map::len(object) == 1, (c) the Some edge of the table
      lookup; the key handed to the lookup is the object's first key, reached
      through borrow/deref/`?` plumbing only (no trim/case/strip/slice/…);
      the three tables are referenced by exactly one parser function each;
  K3  literal fallback is the identity and has the lowest precedence: in the
      value parser the raw-literal alternative is the right-most operand of the
      `or` chain; the raw parser accepts unconditionally without calling anything,
      its evaluation returns the stored reference without calling anything, and
      the conversion of an evaluated value into the result is clone / move only;
      the entry point parses its first argument and evaluates against its second;
  K5  no function on the parse chain discards or converts an error of the crate's
      error type into a success (an operator-keyed object with unacceptable operands must
      be an error, not a literal);
  K4  nothing inside a literal is evaluated: every call site of the value parser
      takes rule text from an enumerated role (entry point's rule, an operation's
      operand list, a lazy operator's own operands, elements of the literal array
      operand of the quantifiers) — shared with C04's provenance analysis.
"""
import json, os
from .core import (callee_path, callee_of, strip_refs, strip_payload, edge_dominates, const_value,
                   show_expr, expr_mentions, TRANSPARENT_CALLS, PAYLOAD_CALLS)
from .engine import Inconclusive, VERIF
from . import table as T
from .dispatch import Dispatcher, VALUE, GuardReader, PHF_GET

KEY_CHAIN_OK = set(TRANSPARENT_CALLS) | set(PAYLOAD_CALLS) | {
    "<serde_json::map::Keys<'a> as std::iter::Iterator>::next",
    "serde_json::Map::<std::string::String, serde_json::Value>::keys",
    "<serde_json::map::Iter<'a> as std::iter::Iterator>::next",
    "serde_json::Map::<std::string::String, serde_json::Value>::iter",
    "<std::string::String as std::clone::Clone>::clone",
    "<&T as std::clone::Clone>::clone",
}


def key_chain(disp, e=None, is_payload=None):
    """Walk from the lookup key back to the object; return (calls on the spine, terminal expr).
    `e`: the key expression (default: the flow-insensitive trace of the lookup's argument); `is_payload(expr)`: stop
    when the object itself is reached (path-local expressions, rules/dispatch.GuardReader)."""
    if e is None:
        e = disp.lookup_key_expr()
    calls = []
    for _ in range(200):
        e = strip_refs(e)
        if is_payload is not None and is_payload(e):
            return calls, e
        if e[0] == "call" and e[1]:
            calls.append(e[1]["path"])
            if not e[2]:
                return calls, e
            e = e[2][0]
            continue
        if e[0] == "payload" and len(e) > 2:
            e = e[2]
            continue
        if e[0] == "field" and e[1][0] == "downcast" and e[1][2] in ("Continue", "Some", "Ok"):
            e = e[1][1]
            continue
        if e[0] == "agg" and e[1].get("agg") == "Adt" and e[1].get("variant") in ("Continue", "Some", "Ok") and len(e[2]) == 1:
            e = e[2][0]
            continue
        if e[0] == "field" and e[2] == 0 and e[1][0] != "downcast":
            # (key, value) tuple from Map::iter().next()
            e = e[1]
            continue
        return calls, e
    return calls, e


def k2_guards(ctx, facts, disp, cfg):
    """K2 guard clauses, stated on the paths of the dispatcher (helpers expanded) that end in Ok(Some(operation)):
    on each of them the value is an Object, the object has exactly one entry, the table lookup hit; the key looked up is
    the object's first key verbatim, looked up in the table parameter, and the operator returned is the lookup's payload.
    The older statement (an edge implying the fact dominates the exit block) is a second sufficient condition."""
    b = disp.body
    rd = GuardReader(disp)
    obj_edges = disp.object_edge()
    len_edges = disp.len_one_edge()
    some_edges = disp.some_edge()
    readings = [(p, rd.read(p)) for p in rd.success] if rd.readable else []
    complete = rd.readable and not rd.truncated_success and bool(readings)
    ctx.count("dispatcher guards (%s)" % cfg, {"success paths": len(readings), "helpers expanded": len(rd.w.expanded), "object": len(obj_edges), "len==1": len(len_edges), "lookup Some": len(some_edges), "success exits": len(disp.success)})

    def by_edges(edges, name):
        ok = True
        for (sbi, ssi, inner) in disp.success:
            dom = any(edge_dominates(b, u, v, sbi) for u, v in edges)
            if not dom and name == "single-key":
                dom = disp.len_interval_at(sbi) == (1, 1)
            ok = ok and dom
        return ok and bool(disp.success)

    def fmt(lo, hi):
        return "%s..%s" % (lo, "∞" if hi == float("inf") else hi)
    where = b.where(disp.success[0][0], disp.success[0][1]) if disp.success else b.where()
    for name, edges, holds, msg in (
        ("object", obj_edges, lambda R: R.object, "a value that is not known to be an object"),
        ("single-key", len_edges, lambda R: (R.lo, R.hi) == (1, 1), "an object that is not known to have exactly one key"),
        ("lookup-hit", some_edges, lambda R: R.hit, "a key that was not found in the operator table"),
    ):
        clause, key = "K2.guard-" + name, "every Ok(Some) path (%s)" % cfg
        bad = [(p, R) for p, R in readings if not holds(R)]
        if complete and not bad:
            ctx.ok(clause, key, nontrivial=True, sample={"guard": name, "paths": len(readings), "facts": sorted({f_ for _, R in readings for f_ in R.len_facts})[:6] if name == "single-key" else None})
            continue
        if by_edges(edges, name):
            ctx.ok(clause, key, nontrivial=True, sample={"guard": name, "edges": edges})
            continue
        unknown = sorted({u for _, R in (bad or readings) for u in R.unknown})
        if not complete or unknown:
            ctx.unread(clause, key, "the paths of the dispatcher that recognise an operation are not all read (%s)" % (("questions about the object that are not understood: %s" % unknown[:3]) if unknown else "loops / too many paths"), where=where, fn=b.key)
            continue
        detail = "an operation is recognised for " + msg
        if name == "single-key":
            ivs = sorted({fmt(R.lo, R.hi) for _, R in bad})
            detail += ": on %d of %d paths the number of keys is only known to be in %s (facts: %s)" % (len(bad), len(readings), ", ".join(ivs), sorted({f_ for _, R in bad for f_ in R.len_facts})[:6])
        else:
            detail += " on %d of %d paths" % (len(bad), len(readings))
        ctx.fail(clause, key, detail, where=where, fn=b.key)

    # ---- the key, the table, the returned operator: path-local values
    if not complete:
        # a dispatcher with loops: the flow-insensitive reading is all there is
        calls, term = key_chain(disp)
        bad = [c for c in calls if c not in KEY_CHAIN_OK]
        first_key = any(c.endswith("Iterator>::next") for c in calls) and disp._is_object_payload(term)
        if bad or not first_key:
            ctx.unread("K2.key-verbatim", "lookup key is the object's key verbatim (%s)" % cfg, "the dispatcher's paths are not read and the key's derivation passes %s" % (bad or calls), where=b.where(disp.get_bi), fn=b.key)
        else:
            ctx.ok("K2.key-verbatim", "lookup key is the object's key verbatim (%s)" % cfg, nontrivial=True, sample={"chain": calls})
            ctx.ok("K2.key-source", "lookup key is the first key of the object (%s)" % cfg, nontrivial=True)
        m = strip_refs(b.trace(disp.get_term["args"][0]))
        ctx.check(m == ("arg", disp.map_arg), "K2.table-arg", "lookup is performed on the table parameter (%s)" % cfg, "lookup on %s" % show_expr(m), where=b.where(disp.get_bi), fn=b.key)
        for (sbi, ssi, inner) in disp.success:
            payload = inner[2][0]
            fields = payload[2] if payload[0] == "agg" else []
            got = any(strip_payload(f)[0] == "call" and strip_payload(f)[1] and strip_payload(f)[1]["path"] == "phf::Map::<K, V>::get" for f in fields)
            ctx.check(got, "K2.returns-hit", "returned operator is the looked-up entry (%s)" % cfg, "the operation returned is not built from the table lookup's result", where=b.where(sbi, ssi), nontrivial=True, fn=b.key)
        return
    verb_bad, src_bad, tab_bad, ret_bad, chains = [], [], [], [], set()
    for p, R in readings:
        ke, te = rd.lookup_on(p)
        if ke is None:
            src_bad.append("no table lookup on the path")
            continue
        calls, term = key_chain(disp, ke, rd.is_object_payload)
        chains.add(tuple(calls))
        bad = [c for c in calls if c not in KEY_CHAIN_OK and c != "serde_json::Value::as_object"]
        if bad:
            verb_bad.append(bad)
        nexts = [c for c in calls if c.endswith("Iterator>::next") or c == "std::iter::Iterator::next"]
        if not (len(nexts) == 1 and rd.is_object_payload(term)):
            src_bad.append("chain %s ending at %s" % (calls, show_expr(term)[:80]))
        if strip_refs(te) != ("arg", disp.map_arg):
            tab_bad.append(show_expr(strip_refs(te))[:80])
        inner = strip_refs(strip_refs(p.result)[2][0])
        payload = inner[2][0] if inner[2] else None
        fields = payload[2] if payload and payload[0] == "agg" else []
        got = False
        for f_ in fields:
            x = strip_payload(f_)
            if x[0] == "call" and x[1] and x[1]["path"] == PHF_GET and strip_refs(x[2][0]) == ("arg", disp.map_arg):
                got = True
        if not got:
            ret_bad.append(show_expr(payload)[:100] if payload else "?")
    ctx.check(not verb_bad, "K2.key-verbatim", "lookup key is the object's key verbatim (%s)" % cfg,
              "the key is transformed before the table lookup by %s — names would be recognised by something other than exact match" % (verb_bad[:1]),
              where=b.where(disp.get_bi), nontrivial=True, fn=b.key, sample={"chains": sorted(chains)[:2]})
    ctx.check(not src_bad, "K2.key-source", "lookup key is the first key of the object (%s)" % cfg,
              "the looked-up key does not derive from the first entry of the object's key iterator: %s" % src_bad[:1], where=b.where(disp.get_bi), nontrivial=True, fn=b.key)
    ctx.check(not tab_bad, "K2.table-arg", "lookup is performed on the table parameter (%s)" % cfg, "lookup on %s" % tab_bad[:1], where=b.where(disp.get_bi), fn=b.key)
    ctx.check(not ret_bad, "K2.returns-hit", "returned operator is the looked-up entry (%s)" % cfg, "the operation returned is not built from the table lookup's result: %s" % ret_bad[:1], where=where, nontrivial=True, fn=b.key)


def run(ctx):
    ctx.explanation = __doc__
    ctx.rule = "obligations = table facts (35 entries × key/symbol/kind, disjointness, aliasing) + dominance facts of the dispatcher + identity facts of the literal path; non-trivial = needs dominance / def-use reasoning rather than reading a constant"
    ctx.trusted = ["rustc MIR construction", "phf lookup compares the full key (hash + equality on the stored key)", "serde_json::Value::clone is structural identity", "spec/operators.json transcribes the statement"]
    from . import manifest as _MF
    _MF.same_library_clause(ctx, "K3.number-model")
    spec_doc = json.load(open(os.path.join(VERIF, "spec", "operators.json")))
    spec = spec_doc["operators"]
    cfgs = ["default"] if ctx.tier == "quick" else ["default", "cmdline", "python", "wasm"]
    for cfg in cfgs:
        facts = ctx.facts(cfg)
        tables = T.read_tables(facts)
        disp = Dispatcher(facts)
        entries = T.all_entries(tables)
        ctx.floor("table entries (%s)" % cfg, len(entries), 35)
        loc = lambda e: facts.body(e.table.const_key).where()

        # ---------------- K1
        keys = [e.key for e in entries]
        extra = sorted(set(keys) - set(spec))
        missing = sorted(set(spec) - set(keys))
        ctx.check(not extra, "K1.no-extra-name", "no undocumented operator name (%s)" % cfg, "names recognised as operators but not documented: %s" % extra, where=facts.body(tables[0].const_key).where())
        ctx.check(not missing, "K1.all-names", "all 35 documented names bound (%s)" % cfg, "documented operator names not recognised: %s" % missing, where=facts.body(tables[0].const_key).where())
        dup = sorted({k for k in keys if keys.count(k) > 1})
        ctx.check(not dup, "K1.disjoint", "tables pairwise disjoint (%s)" % cfg, "names bound in more than one table (the parser precedence would shadow one): %s" % dup, where=facts.body(tables[0].const_key).where(), nontrivial=True)
        for e in entries:
            ctx.check(e.key == e.symbol, "K1.symbol", e.key, "key %r is bound to an operator whose symbol is %r" % (e.key, e.symbol), where=loc(e), fn=e.table.const_key,
                      sample={"key": e.key, "symbol": e.symbol, "table": e.table.role, "fn": e.fn_path})
            if e.key in spec:
                ctx.check(e.table.role == spec[e.key]["kind"], "K1.kind", e.key,
                          "operator %r is in the %s table but the documented evaluation discipline needs the %s table" % (e.key, e.table.role, spec[e.key]["kind"]), where=loc(e), fn=e.table.const_key)
        groups = {}
        for e in entries:
            groups.setdefault(e.fn_key, []).append(e.key)
        alias_ok = [sorted(g) for g in spec_doc["alias_groups"]]
        for fnk, ks in groups.items():
            if len(ks) > 1:
                ctx.check(sorted(ks) in alias_ok, "K1.alias", "+".join(sorted(ks)), "distinct names %s share one implementation %s but are not a documented alias group" % (sorted(ks), fnk), where=facts.body(tables[0].const_key).where(), nontrivial=True)
        for g in alias_ok:
            fns = {e.fn_key for e in entries if e.key in g}
            nums = {e.num for e in entries if e.key in g}
            ctx.check(len(fns) == 1 and len(nums) == 1, "K1.alias-bound", "+".join(g), "alias group %s is bound to %d functions / %d arities" % (g, len(fns), len(nums)), where=facts.body(tables[0].const_key).where(), nontrivial=True)

        # ---------------- K2
        b = disp.body
        k2_guards(ctx, facts, disp, cfg)

        for (ob, obi, ot) in disp.other_sites:
            ctx.fail("K2.table-consulted-elsewhere", "lookup|%s" % ob.key.split("::", 1)[1], "%s looks a key up in an operator table on its own: what is an operation, and with how many operands, is decided in a second place that can disagree with the dispatcher" % ob.key.split("::", 1)[1], where=ob.where(obi), fn=ob.key)
        for t in tables:
            for u in t.other_users:
                ub = facts.body(u)
                inside_eval = u in Roles_inside(facts)
                ctx.check(not inside_eval, "K2.table-consulted-elsewhere", "%s|%s" % (t.const_key.split("::", 1)[1], u.split("::", 1)[1]),
                          "the operator table %s is also consulted from %s during parsing/evaluation: names can be recognised by something other than the exact-match dispatch" % (t.const_key.split("::", 1)[1], u.split("::", 1)[1]),
                          where=ub.where() if ub else "", fn=u, nontrivial=True)
        # ---------------- K5: an operator-keyed object never silently falls back to a literal (read before K3: it does not
        # depend on the shape of the parser chain, and a chain K3 cannot read must not hide a swallowed error)
        from .c03 import k5_error_discipline
        k5_error_discipline(ctx, facts, disp, cfg)
        # ---------------- K3
        k3(ctx, facts, tables, disp, cfg)

        # ---------------- K4
        from .roles import Roles
        from . import prov as P
        roles = Roles(facts)
        p, results = P.analyse(roles)
        ctx.floor("parser call sites (%s)" % cfg, len(results), 25)
        # The provenance analysis is context-insensitive across function boundaries: a parse site inside a private
        # helper of a lazy operator (`member_satisfies(predicate, item, is_rule_text, data)`) sees the join of what all
        # call sites pass and loses the case split that guards it in the caller.  A site that is dirty there is looked
        # at again on the view of the program in which the private helpers of the operator units are inlined at their
        # call sites (rules/inline.py — the same program); the verdicts of that view are the ones reported.
        if any(v == "dirty" for _sk, v, _h in results) and not getattr(facts, "inlined", None) and not ctx.inline_set:
            try:
                from . import inline as _inline
                from .opfacts import Unit as _Unit
                cands = set(_inline.candidates(facts.path))
                helpers = set()
                for fk, info in roles.op_fns.items():
                    if info["role"] == "lazy":
                        helpers |= (_Unit(roles, fk, extended=True).keys & cands)
                helpers -= set(roles.op_fns)
                if helpers:
                    f2 = _inline.load_view(facts.path, sorted(helpers))
                    roles2 = Roles(f2)
                    p2, results2 = P.analyse(roles2)
                    if len(results2) >= 25 and not any(v == "dirty" for _sk, v, _h in results2):
                        ctx.notes.append("K4 decided on the view of the program with the private helpers of the lazy operators inlined at their call sites (%s): as written, the provenance analysis joins all call sites of a helper" % ", ".join(sorted(h.split("::", 1)[1] for h in helpers)))
                        facts, roles, results = f2, roles2, results2
            except Inconclusive:
                pass
        allowed_units = {roles.entry.key, roles.value_parser.key} | set(roles.parsers) | {lb.key for lb in roles.list_parsers}
        allowed_units |= {fk for fk, info in roles.op_fns.items() if info["role"] == "lazy"}
        # … and the private helper functions of those units: a function all of whose uses (calls, references as a value)
        # lie in allowed units or in other such helpers runs only as part of them.  (Where the parse call sits is a
        # matter of spelling; what is parsed there is decided by K4.literal-inside on the provenance of the argument.)
        cg, _ = facts.callgraph()
        users = {}
        for k_, vs in cg.items():
            for v_ in vs:
                users.setdefault(v_, set()).add(k_)
        table_fns = {fk for fk in roles.op_fns}

        def root_of(k_):
            while "::{closure#" in k_ and k_ not in allowed_units:
                k_ = k_.rsplit("::{closure#", 1)[0]
            return k_

        def runs_inside_allowed(k_, seen=()):
            k_ = root_of(k_)
            if k_ in allowed_units:
                return True
            it_ = facts.items.get(k_) or {}
            if k_ in seen or len(seen) > 8 or k_ in table_fns or it_.get("exported") or it_.get("no_mangle"):
                return False
            us = {root_of(u) for u in users.get(k_, ())} - {k_}
            for sub in [kk for kk in cg if kk.startswith(k_ + "::{closure#")]:
                us -= {sub}
            return bool(us) and all(runs_inside_allowed(u, seen + (k_,)) for u in us)
        for sk, verdict, how in results:
            unit = sk.body.key
            while "::{closure#" in unit and unit not in allowed_units:
                unit = unit.rsplit("::{closure#", 1)[0]
            ctx.check(unit in allowed_units or runs_inside_allowed(unit), "K4.who-may-parse", sk.ident(),
                      "the value parser is invoked from %s, which is neither the entry point, the parser itself nor a lazy operator — something classified as a literal may be evaluated there" % sk.body.key,
                      where=sk.body.where(sk.bi), fn=sk.body.key, nontrivial=True)
            if verdict == "dirty":
                ctx.fail("K4.literal-inside", sk.ident(), "a computed value (which may be a literal returned as itself) is parsed as a rule: provenance %s" % sorted(sk.tags), where=sk.body.where(sk.bi), fn=sk.body.key)
            else:
                ctx.ok("K4.literal-inside", sk.ident(), nontrivial=(verdict == "discharged"), sample={"site": sk.ident(), "tags": sorted(sk.tags), "verdict": verdict})


def Roles_inside(facts):
    from .roles import Roles
    r = Roles(facts)
    return r.inside() | facts.reach([r.value_parser.key])


def k3(ctx, facts, tables, disp, cfg):
    # the value parser: calls ≥ 3 distinct `<X as Parser>::from_value`
    vp = None
    for b in facts.fns():
        if b.kind != "fn":
            continue
        ps = {callee_of(t)["key"] for ub_ in [b] + [x_ for x_ in facts.fns() if x_.key.startswith(b.key + "::{closure#")] for _, t in ub_.calls() if callee_of(t) and callee_of(t)["local"] and callee_of(t)["path"].endswith("::from_value") and " as Parser<" in callee_of(t)["path"]}
        if len(ps) >= 3:
            ctx.need(vp is None, "two functions look like the value parser")
            vp = (b, ps)
    ctx.need(vp is not None, "value parser (function trying the operation parsers in turn) not found")
    b, parsers = vp
    ctx.count("parser alternatives (%s)" % cfg, len(parsers))
    # raw parser: from_value with no calls returning Ok(Some(agg{arg1}))
    raw = []
    for k in parsers:
        pb = facts.body(k)
        if pb and not list(pb.calls()):
            r = pb.trace(0)
            if r[0] == "agg" and r[1].get("variant") == "Ok" and r[2] and r[2][0][0] == "agg" and r[2][0][1].get("variant") == "Some":
                inner = r[2][0][2][0]
                if inner[0] == "agg" and [strip_refs(x) for x in inner[2]] == [("arg", 1)]:
                    raw.append(k)
    ctx.check(len(raw) == 1, "K3.raw-accepts", "the literal parser accepts every value unconditionally (%s)" % cfg,
              "no parser alternative is the unconditional literal wrapper `Ok(Some(Raw{value}))` (found %d)" % len(raw), where=b.where(), nontrivial=True, fn=b.key)
    if len(raw) != 1:
        return
    raw_key = raw[0]
    table_parsers = {t.operation_impl[0] for t in tables}
    ctx.check(parsers - {raw_key} == table_parsers, "K3.alternatives", "alternatives = the three table parsers + the literal parser (%s)" % cfg,
              "parser alternatives are %s" % sorted(parsers), where=b.where(), fn=b.key)

    # precedence: flatten the `or` chain feeding the function's Ok result
    def alt_of(e):
        e2 = strip_payload(e)
        # Option::map(payload(from_value(arg1)), ctor)
        if e2[0] == "call" and e2[1] and e2[1]["path"] == "std::option::Option::<T>::map":
            e2 = strip_payload(e2[2][0])
        if e2[0] == "call" and e2[1] and e2[1].get("key") in parsers and [strip_refs(a) for a in e2[2]] == [("arg", 1)]:
            return e2[1]["key"]
        return None

    def flatten(e):
        e = strip_refs(e)
        if e[0] == "call" and e[1] and e[1]["path"] == "std::option::Option::<T>::or":
            return flatten(e[2][0]) + flatten(e[2][1])
        a = alt_of(e)
        return [a]

    res = None
    # result on the normal path: the def of _0 that is not a from_residual call
    for d in b.defs().get(0, []):
        if d[0] == "call" and callee_path(d[2]) and "from_residual" in callee_path(d[2]):
            continue
        res = b._trace_def(d, 0, frozenset())
    ctx.need(res is not None, "value parser has no normal result definition")
    x = strip_refs(res)
    if x[0] == "call" and x[1] and x[1]["path"] in ("std::option::Option::<T>::ok_or_else", "std::option::Option::<T>::ok_or"):
        x = x[2][0]
    elif x[0] == "agg" and x[1].get("variant") == "Ok":
        x = x[2][0]
    order = flatten(x)
    if None in order or len(order) < 2:
        # not an `or` chain (e.g. early returns): precedence = order in which the alternatives are tried,
        # read from dominance between the parser call sites; the literal parser must come after all others
        sites = {}
        for bi, t in b.calls():
            c = callee_of(t)
            if c and c.get("key") in parsers:
                sites.setdefault(c["key"], []).append(bi)
        unread_order = None
        if set(sites) != parsers or any(len(v) != 1 for v in sites.values()):
            unread_order = "the parser alternatives are not tried in the value parser's own body (closures / helpers): %s" % show_expr(res)[:100]
        else:
            ks = sorted(sites, key=lambda k: len(b.dominators(sites[k][0])))
            for i in range(len(ks) - 1):
                if not b.dominates(sites[ks[i]][0], sites[ks[i + 1]][0]):
                    unread_order = "the parser alternatives are not tried in a fixed order"
            order = ks
        if unread_order:
            for cl_, k_ in (("K3.raw-last", "literal fallback has the lowest precedence (%s)" % cfg), ("K3.all-tried", "every table parser is an alternative (%s)" % cfg)):
                ctx.unread(cl_, k_, unread_order, where=b.where(), fn=b.key)
            order = None
    if order is not None:
      ctx.check(order[-1] == raw_key and order.count(raw_key) == 1, "K3.raw-last", "literal fallback has the lowest precedence (%s)" % cfg,
              "parser precedence is %s — the literal wrapper %s is not the last alternative, so operator objects after it would be returned as literals" % (order, raw_key),
              where=b.where(), nontrivial=True, fn=b.key, sample={"precedence": order})
    if order is not None:
      ctx.check(set(order) == parsers, "K3.all-tried", "every table parser is an alternative (%s)" % cfg, "alternatives in the chain: %s" % order, where=b.where(), fn=b.key)

    # raw evaluate: sibling in the same impl; no calls, returns Ok(Evaluated::Raw(self.0))
    impl = raw_key.rsplit("::", 1)[0]
    ev = [bb for bb in facts.fns() if bb.kind == "fn" and bb.key.startswith(impl + "::") and bb.key != raw_key]
    ctx.need(len(ev) == 1, "evaluate sibling of the literal parser not found")
    ev = ev[0]
    r = ev.trace(0)
    ident = (not list(ev.calls())) and r[0] == "agg" and r[1].get("variant") == "Ok" and r[2][0][0] == "agg" and len(r[2][0][2]) == 1
    if ident:
        leaf = strip_refs(r[2][0][2][0])
        ident = leaf[0] == "field" and strip_refs(leaf[1]) == ("arg", 1)
        evariant = r[2][0][1].get("variant")
    ctx.check(bool(ident), "K3.raw-evaluate", "evaluating a literal returns the stored reference, no call (%s)" % cfg,
              "the literal's evaluation is %s with calls %s" % (show_expr(r), [callee_path(t) for _, t in ev.calls()]), where=ev.where(), nontrivial=True, fn=ev.key)
    reach = facts.reach([ev.key, raw_key]) - {ev.key, raw_key}
    reach = {k for k in reach if facts.body(k) is not None and facts.body(k).kind in ("fn", "closure")}
    ctx.check(not reach, "K3.raw-reach", "the literal path reaches no other function of the crate (%s)" % cfg, "reachable from the literal parser/evaluator: %s" % sorted(reach), where=ev.where(), fn=ev.key)

    # From<Evaluated> for Value: clone (borrowed) or move (owned), nothing else
    conv = None
    for bb in facts.fns():
        it = facts.items.get(bb.key)
        if it and it.get("output") == "serde_json::Value" and len(it.get("inputs", [])) == 1 and it["inputs"][0].endswith("Evaluated<'_>"):
            conv = bb
    ctx.need(conv is not None, "conversion Evaluated → Value not found")
    adt = conv.locals[1]["adt"]
    for v in facts.variants(adt):
        blocks, dec = conv.specialize(lambda e, a: v if (a == adt and e == ("arg", 1)) else None)
        with conv.restricted(blocks):
            r = strip_refs(conv.trace(0))
        if r[0] == "call" and r[1] and r[1]["path"] == "<serde_json::Value as std::clone::Clone>::clone":
            r = strip_refs(r[2][0])
        good = r[0] == "field" and r[1][0] == "downcast" and r[1][2] == v and strip_refs(r[1][1]) == ("arg", 1)
        ctx.check(good, "K3.result-identity", "Evaluated::%s converts to the value itself (%s)" % (v, cfg),
                  "Evaluated::%s is converted as %s" % (v, show_expr(r)), where=conv.where(), nontrivial=True, fn=conv.key)

    # entry point
    entry = [bb for bb in facts.fns() if facts.items.get(bb.key, {}).get("exported") and facts.items[bb.key].get("inputs") == ["&serde_json::Value", "&serde_json::Value"] and facts.items[bb.key]["output"].startswith("std::result::Result<serde_json::Value")]
    ctx.need(len(entry) == 1, "public entry point apply(&Value,&Value) not identified (%d candidates)" % len(entry))
    ap = entry[0]
    pcalls = [(bi, t) for bi, t in ap.calls() if callee_of(t) and callee_of(t).get("key") == b.key]
    ecalls = [(bi, t) for bi, t in ap.calls() if callee_of(t) and callee_of(t)["local"] and callee_of(t)["path"].endswith("::evaluate")]
    ok = len(pcalls) == 1 and len(ecalls) == 1
    if ok:
        ok = strip_refs(ap.trace(pcalls[0][1]["args"][0])) == ("arg", 1)
        e0 = strip_payload(ap.trace(ecalls[0][1]["args"][0]))
        ok = ok and e0[0] == "call" and e0[1].get("key") == b.key
        ok = ok and strip_refs(ap.trace(ecalls[0][1]["args"][1])) == ("arg", 2)
    ctx.check(ok, "K3.entry", "apply parses its first argument and evaluates against its second (%s)" % cfg,
              "entry point does not have the shape parse(rule)?.evaluate(data)", where=ap.where(), nontrivial=True, fn=ap.key)
    r = strip_refs(ap.trace(0))
    # decision cases of the entry point: on success it returns the evaluation's payload through the faithful conversion,
    # on failure the error of the parse or of the evaluation — nothing else (`.map(Value::from)`, `Ok(x?.into())`, match …)
    from . import optnorm
    okr = False
    cases = optnorm.decision_cases(facts, ap)
    if cases is not None:
        good, other = 0, []
        for conds, v, pth in cases:
            v = strip_refs(v)
            if (v[0] == "call" and v[1] and "from_residual" in v[1]["path"]) or (v[0] == "agg" and v[1].get("variant") == "Err"):
                continue
            inner = strip_refs(v[2][0]) if (v[0] == "agg" and v[1].get("variant") == "Ok" and v[2]) else None
            isconv = inner is not None and inner[0] == "call" and inner[1] and (inner[1].get("key") == conv.key or conv.key in {y.get("key") for y in (inner[1].get("fwd") or []) if isinstance(y, dict)})
            def _eval_payload(y):
                y = strip_refs(y)
                return y[0] == "payload" and "evaluate" in str(y[1])

            def _inline_faithful(x):
                # the faithful conversion written out at the call site: the New payload as it is, or a clone of the Raw one
                x = strip_refs(x)
                cloned = False
                if x[0] == "call" and x[1] and x[1]["path"] == "<serde_json::Value as std::clone::Clone>::clone" and x[2]:
                    cloned, x = True, strip_refs(x[2][0])
                if x[0] == "field" and x[2] == 0 and isinstance(x[1], tuple) and x[1][0] == "downcast" and _eval_payload(x[1][1]):
                    return (x[1][2] == "New" and not cloned) or (x[1][2] == "Raw" and cloned)
                return False
            if isconv and inner[2] and _eval_payload(inner[2][0]):
                good += 1
            elif inner is not None and _inline_faithful(inner):
                good += 1
            else:
                other.append(show_expr(v)[:80])
        okr = good >= 1 and not other
    ctx.check(okr, "K3.entry-result", "apply returns the evaluation result converted by identity (%s)" % cfg, "apply's result is %s" % show_expr(r), where=ap.where(), nontrivial=True, fn=ap.key)
