#!/usr/bin/env python3
"""C03 — every operator enforces its documented arity; {op: x} == {op: [x]}.

Decided from the source, for all operand counts n in N (interval arithmetic):
  K1  semantics of the arity descriptor, per variant, read from the function
      that validates a length (one comparison per variant) — and the accepted
      set of each of the 35 table entries derived from it equals the documented
      set (spec/operators.json);
  K2  the unary-acceptance predicate agrees with `1 in accepted set` for every
      descriptor value occurring in the tables;
  K3  every Ok(Some(parsed operation)) exit of the dispatcher is dominated by the
      success edge of the length check applied to the length of the very vector
      that is returned; the check returns Err exactly when the predicate is false;
  K5  no function between the entry point and the dispatcher discards a Result of
      the crate's error type (ok(), unwrap_or*, is_err …): the rejection survives;
  K6  operator functions are invoked only through their table entries, or by another
      operator function forwarding its own operand list with an arity set inside the callee's;
  K4  the unbracketed operand becomes a one-element vector holding the operand
      itself, only under the unary-acceptance edge; the bracketed form is the
      array's elements in order; both meet at the same length check.
  K7  at evaluation time each of the three operation evaluators runs its operator
      at exactly one site and hands it the operand list itself (never the inside
      of an operand's value): {op: x} stays {op: [x]} after parsing too;
"""
import json, os, re
from .core import (callee_path, callee_of, strip_refs, strip_payload, edge_dominates,
                   switch_edges_for_variant, bool_edge, const_value, show_expr, expr_mentions)
from .engine import Inconclusive, VERIF
from . import table as T
from . import panic as PN
from . import x_ipaths
from .dispatch import Dispatcher, VALUE

INF = float("inf")

CMP_CALLS = {
    "::eq": "Eq", "::ne": "Ne", "::ge": "Ge", "::gt": "Gt", "::le": "Le", "::lt": "Lt",
}


def _cmp_of_call(path):
    if "PartialEq" in path or "PartialOrd" in path:
        for suf, op in CMP_CALLS.items():
            if path.endswith(suf):
                return op
    return None


FLIP = {"Eq": "Eq", "Ne": "Ne", "Ge": "Le", "Gt": "Lt", "Le": "Ge", "Lt": "Gt"}


class NarrowedLength(Exception):
    """The operand count is converted to a narrower integer type before it is compared."""


def predicate(body, blocks, len_arg, self_arg, variant):
    """Normalise the bool returned on `blocks` to (op, rhs) over LEN, where rhs is
    ('const', n) | ('payload', i) | ('range',) — or ('true',)/('false',)."""
    with body.restricted(blocks):
        e = strip_refs(body.trace(0))

    def classify(x):
        x = strip_refs(x)
        if x == ("arg", len_arg):
            return ("LEN",)
        if x[0] == "cast" and strip_refs(x[2]) == ("arg", len_arg):
            to = x[3] if len(x) > 3 else "?"
            if to in ("usize", "u64", "u128", "i128"):
                return ("LEN",)
            raise NarrowedLength(to)
        if x[0] == "const" and isinstance(const_value(x[1]), int) and not isinstance(const_value(x[1]), bool):
            return ("const", const_value(x[1]))
        if x[0] == "field" and x[1][0] == "downcast" and x[1][2] == variant and strip_refs(x[1][1]) == ("arg", self_arg):
            return ("payload", x[2])
        if x[0] == "field" and strip_refs(x[1])[0] == "field" and strip_refs(x[1])[1][0] == "downcast" and strip_refs(x[1])[1][2] == variant and strip_refs(strip_refs(x[1])[1][1]) == ("arg", self_arg):
            return ("rangefield", x[2])     # a field of the payload struct: Range { start, end }
        return ("?", show_expr(x))

    if e[0] == "const" and isinstance(const_value(e[1]), bool):
        return ("true",) if const_value(e[1]) else ("false",)
    op = a = b = None
    if e[0] == "call" and e[1]:
        p = e[1]["path"]
        if p.endswith("::contains") and "Range" in p:
            r, x = classify(e[2][0]), classify(e[2][1])
            incl = "RangeInclusive" in p
            return ("in_range", r, x, incl)
        op = _cmp_of_call(p)
        if op:
            a, b = classify(e[2][0]), classify(e[2][1])
    elif e[0] == "binop" and e[1] in FLIP:
        op, a, b = e[1], classify(e[2]), classify(e[3])
    if op is None and e[0] == "phi":
        # a conjunction `c1 && c2`: the result is false or the last comparison, which is only reached when the earlier ones held
        from .core import implied_comparisons
        alts = [strip_refs(x) for x in e[2]]
        rest = [x for x in alts if not (x[0] == "const" and const_value(x[1]) is False)]
        if len(rest) == 1 and rest[0][0] == "binop" and rest[0][1] in FLIP:
            last = rest[0]
            # the block where that comparison is assigned to the result
            dblk = None
            for d in body.defs().get(0, []):
                if d[0] == "stmt" and d[1] in blocks and strip_refs(body._trace_def(d, 0, frozenset())) == last:
                    dblk = d[1]
            if dblk is not None:
                conj = [("cmp", last[1], classify(last[2]), classify(last[3]))]
                for (op2, x2, y2) in implied_comparisons(body, dblk):
                    a2, b2 = classify(x2), classify(y2)
                    if "LEN" in (a2[0], b2[0]):
                        conj.append(("cmp", op2, a2, b2))
                return ("and", conj)
    if op is None:
        raise Inconclusive("arity predicate for variant %s is not a single comparison: %s" % (variant, show_expr(e)))
    return ("cmp", op, a, b)


def interval_of(pred, num, subject):
    """Accepted set {n | pred} as list of inclusive intervals, with the payload of
    descriptor `num` substituted and `subject` ('LEN' free variable, or the constant
    1 for the unary predicate) taken into account."""
    payload = list(num[1:])

    def val(x):
        if x[0] == "const":
            return x[1]
        if x[0] == "payload":
            if num[0] == "Variadic":
                return None
            return payload[x[1]]
        if x[0] == "rangefield" and num[0] == "Variadic":
            return payload[x[1]]
        return None

    if pred[0] == "and":
        lo, hi = 0, INF
        for sub in pred[1]:
            iv = interval_of(sub, num, subject)
            if not iv:
                return []
            if len(iv) != 1:
                raise Inconclusive("conjunction with a non-interval conjunct")
            lo, hi = max(lo, iv[0][0]), min(hi, iv[0][1])
        return [(lo, hi)] if lo <= hi else []
    if pred[0] == "true":
        return [(0, INF)]
    if pred[0] == "false":
        return []
    if pred[0] == "in_range":
        _, r, x, incl = pred
        if r[0] != "payload" or num[0] != "Variadic":
            raise Inconclusive("range containment on something that is not the Variadic payload")
        lo, hi = payload[0], payload[1] - 1
        if x[0] == "LEN":
            return [(lo, hi)] if lo <= hi else []
        if x[0] == "const":
            return [(0, INF)] if lo <= x[1] <= hi else []
        raise Inconclusive("range containment of an unknown subject")
    _, op, a, b = pred
    if a[0] == "LEN" and b[0] != "LEN":
        c = val(b)
    elif b[0] == "LEN" and a[0] != "LEN":
        c = val(a)
        op = FLIP[op]
    else:
        # no LEN: a closed comparison of payload with constants (unary predicate)
        x, y = val(a), val(b)
        if x is None or y is None:
            raise Inconclusive("comparison operands not understood: %r %r" % (a, b))
        truth = {"Eq": x == y, "Ne": x != y, "Ge": x >= y, "Gt": x > y, "Le": x <= y, "Lt": x < y}[op]
        return [(0, INF)] if truth else []
    if c is None:
        raise Inconclusive("comparison operand not understood")
    return {
        "Eq": [(c, c)],
        "Ne": ([(0, c - 1)] if c > 0 else []) + [(c + 1, INF)],
        "Ge": [(c, INF)],
        "Gt": [(c + 1, INF)],
        "Le": [(0, c)],
        "Lt": [(0, c - 1)] if c > 0 else [],
    }[op]


class Unread(Exception):
    """The arity predicate has a form the path reader cannot interpret."""


WIDE = ("usize", "u64", "u128", "i128")


def _merge_iv(ivs):
    out = []
    for lo, hi in sorted(ivs):
        if lo > hi:
            continue
        if out and lo <= out[-1][1] + 1:
            out[-1] = (out[-1][0], max(out[-1][1], hi))
        else:
            out.append((lo, hi))
    return out


def _meet_iv(a, b):
    return _merge_iv([(max(l1, l2), min(h1, h2)) for (l1, h1) in a for (l2, h2) in b])


def _not_iv(a):
    out, cur = [], 0
    for lo, hi in _merge_iv(a):
        if lo > cur:
            out.append((cur, lo - 1))
        cur = hi + 1
    if cur != INF + 1 and cur < INF:
        out.append((cur, INF))
    return out


ALL = [(0, INF)]


class ArityReader:
    """The accepted operand counts of one descriptor value, read from the path summaries of the predicate function
    (rules/x_ipaths.py: helpers such as a bounds table expanded) with the descriptor's variant fixed: every path gives
    a conjunction of questions about LEN and a result; the accepted set is the union over the paths.  Comparison
    ladders, `matches!`, range `contains`, (Bound, Bound) tables and early returns are the same table here."""

    def __init__(self, facts, fn_key, adt, len_arg):
        self.facts, self.adt, self.len_arg = facts, adt, len_arg
        self.b = facts.body(fn_key)
        self._w = {}

    def walker(self, variant):
        if variant not in self._w:
            adt = self.adt
            w = x_ipaths.summarize(self.b, x_ipaths.loop_free_local(self.facts), max_paths=400,
                                   known=lambda pe, a: variant if (a == adt and strip_refs(pe) == ("arg", 1)) else None)
            if w.overflow or not w.paths or any(p.truncated for p in w.paths):
                raise Unread("the arity predicate %s has loops or too many paths" % self.b.key)
            self._w[variant] = w
        return self._w[variant]

    # ---- values -------------------------------------------------------------------------------------------
    def value(self, x, num):
        x = strip_refs(x)
        if x[0] == "cast" and len(x) > 3:
            inner = self.value(x[2], num)
            if inner == ("LEN",) and x[3] not in WIDE:
                raise NarrowedLength(x[3])
            return inner
        if self.len_arg is not None and x == ("arg", self.len_arg):
            return ("LEN",)
        if x[0] == "const":
            v = const_value(x[1])
            if isinstance(v, int) and not isinstance(v, bool):
                return v
        if x[0] == "field":
            base = strip_refs(x[1])
            if base[0] == "downcast" and base[2] == num[0] and strip_refs(base[1]) == ("arg", 1):
                if num[0] == "Variadic" and len(num) == 3 and x[2] == 0 and self._payload_is_range(num):
                    return ("bounds", ("Included", num[1]), ("Excluded", num[2]))
                if x[2] + 1 < len(num):
                    return num[1 + x[2]]
            if base[0] == "field":
                inner = self.value(base, num)
                if isinstance(inner, tuple) and inner[0] == "bounds":      # Range { start, end }
                    b_ = inner[1 + x[2]] if x[2] in (0, 1) else None
                    if b_ and b_[0] != "Unbounded":
                        return b_[1]
        if x[0] == "agg":
            var, ops = x[1].get("variant"), x[2]
            adt = x[1].get("adt") or ""
            if var in ("Included", "Excluded", "Unbounded") and "Bound" in adt:
                if var == "Unbounded":
                    return ("Unbounded",)
                v = self.value(ops[0], num)
                if isinstance(v, int):
                    return (var, v)
            if x[1].get("agg") == "Tuple" and len(ops) == 2:
                a, b_ = self.value(ops[0], num), self.value(ops[1], num)
                if all(isinstance(t, tuple) and t[0] in ("Included", "Excluded", "Unbounded") for t in (a, b_)):
                    return ("bounds", a, b_)
            if "ops::Range" in adt or "range::Range" in adt:
                vs = [self.value(o, num) for o in ops]
                if all(isinstance(v, int) for v in vs):
                    nm = adt.rsplit("::", 1)[-1].split("<")[0]
                    if nm == "Range" and len(vs) == 2:
                        return ("bounds", ("Included", vs[0]), ("Excluded", vs[1]))
                    if nm == "RangeFrom" and len(vs) == 1:
                        return ("bounds", ("Included", vs[0]), ("Unbounded",))
                    if nm == "RangeTo" and len(vs) == 1:
                        return ("bounds", ("Unbounded",), ("Excluded", vs[0]))
                    if nm == "RangeToInclusive" and len(vs) == 1:
                        return ("bounds", ("Unbounded",), ("Included", vs[0]))
        if x[0] == "call" and x[1] and re.search(r"RangeInclusive::<Idx>::new$", x[1]["path"]) and len(x[2]) == 2:
            vs = [self.value(o, num) for o in x[2]]
            if all(isinstance(v, int) for v in vs):
                return ("bounds", ("Included", vs[0]), ("Included", vs[1]))
        raise Unread("operand of the arity predicate not understood: %s" % show_expr(x)[:100])

    def _payload_is_range(self, num):
        for v in self.facts.adts.get(self.adt, {}).get("variants", []):
            if v["name"] == num[0]:
                return len(v.get("fields", [])) == 1
        return True

    # ---- questions ----------------------------------------------------------------------------------------
    def holds(self, x, truth, num):
        """{LEN | (x == truth)} as intervals."""
        x = strip_refs(x)
        while x[0] == "unop" and x[1] == "Not":
            truth, x = not truth, strip_refs(x[2])
        if x[0] == "const" and isinstance(const_value(x[1]), bool):
            return ALL if const_value(x[1]) == truth else []
        op = a = b_ = None
        if x[0] == "binop" and x[1] in FLIP:
            op, a, b_ = x[1], x[2], x[3]
        elif x[0] == "call" and x[1]:
            p = x[1]["path"]
            if p.endswith("::contains") and ("Range" in p or "Bound" in p) and len(x[2]) == 2:
                r, item = self.value(x[2][0], num), self.value(x[2][1], num)
                if not (isinstance(r, tuple) and r[0] == "bounds"):
                    raise Unread("containment in something that is not a range: %s" % show_expr(x)[:100])
                lo = 0 if r[1][0] == "Unbounded" else (r[1][1] if r[1][0] == "Included" else r[1][1] + 1)
                hi = INF if r[2][0] == "Unbounded" else (r[2][1] if r[2][0] == "Included" else r[2][1] - 1)
                if item == ("LEN",):
                    iv = _merge_iv([(lo, hi)])
                elif isinstance(item, int):
                    iv = ALL if lo <= item <= hi else []
                else:
                    raise Unread("containment of an unknown subject")
                return iv if truth else _not_iv(iv)
            op = _cmp_of_call(p)
            if op and len(x[2]) == 2:
                a, b_ = x[2][0], x[2][1]
            else:
                op = None
        if op is None:
            raise Unread("question of the arity predicate not understood: %s" % show_expr(x)[:100])
        va, vb = self.value(a, num), self.value(b_, num)
        if vb == ("LEN",) and va != ("LEN",):
            va, vb, op = vb, va, FLIP[op]
        if va == ("LEN",) and isinstance(vb, int):
            c = vb
            iv = {"Eq": [(c, c)], "Ne": _not_iv([(c, c)]), "Ge": [(c, INF)], "Gt": [(c + 1, INF)], "Le": [(0, c)], "Lt": [(0, c - 1)] if c > 0 else []}[op]
            iv = _merge_iv(iv)
            return iv if truth else _not_iv(iv)
        if isinstance(va, int) and isinstance(vb, int):
            t = {"Eq": va == vb, "Ne": va != vb, "Ge": va >= vb, "Gt": va > vb, "Le": va <= vb, "Lt": va < vb}[op]
            return ALL if t == truth else []
        raise Unread("comparison of the arity predicate not understood: %s" % show_expr(x)[:100])

    def accepted(self, num):
        """Union over the paths for descriptor `num` of (questions on the path ∧ result is true)."""
        w = self.walker(num[0])
        out = []
        for p in w.paths:
            iv = ALL
            for key, val0 in p.order:
                val = p.atoms.get(key, val0)
                rw = w.raw.get((key, val)) or w.raw.get((key, val0))
                if key[0] == "int" and key in w.exprs:
                    # a `match` on an integer (`Self::Exactly(1)`, `matches!(len, 0 | 1)`): the switched quantity is the
                    # descriptor's payload (a constant once the descriptor is fixed) or the length
                    subj = self.value(w.exprs[key], num)
                    if isinstance(subj, int) and not isinstance(subj, bool):
                        holds_ = (subj == val) if isinstance(val, int) else (subj not in val[1] if isinstance(val, tuple) and val and val[0] == "not" else None)
                        if holds_ is None:
                            raise Unread("integer switch of the arity predicate not understood")
                        if not holds_:
                            iv = []
                        continue
                    if subj == ("LEN",):
                        if isinstance(val, int):
                            iv = _meet_iv(iv, [(val, val)])
                        elif isinstance(val, tuple) and val and val[0] == "not":
                            iv = _meet_iv(iv, _not_iv(_merge_iv([(c_, c_) for c_ in sorted(val[1])])))
                        else:
                            raise Unread("integer switch of the arity predicate not understood")
                        continue
                if key[0] == "variant" or rw is None or key[0] == "int":
                    raise Unread("the arity predicate asks something that is not a comparison: %s" % (show_expr(w.exprs[key])[:80] if key in w.exprs else key[0]))
                iv = _meet_iv(iv, self.holds(rw[0], rw[1], num))
            if iv:
                iv = _meet_iv(iv, self.holds(p.result, True, num))
            out.extend(iv)
        return _merge_iv(out)


def find_roles(facts, tables, disp):
    desc_adt = None
    for e in T.all_entries(tables):
        pass
    # descriptor ADT: the enum whose variants are used in the tables
    cands = [a for a, d in facts.adts.items() if d["kind"] == "enum" and {"Exactly", "AtLeast", "Variadic"} <= {v["name"] for v in d["variants"]}]
    names = {e.num[0] for e in T.all_entries(tables)}
    cands = [a for a in cands if names <= set(facts.variants(a))]
    if len(cands) != 1:
        raise Inconclusive("arity descriptor enum not identified")
    desc_adt = cands[0]
    roles = {"adt": desc_adt}
    # the unary-acceptance predicate and the length check, identified by signature among the functions called by the
    # dispatcher or by the private helpers it reaches (without going through the tables); `bi` is the call's block when
    # the call sits in the dispatcher itself, else None
    seen, todo = set(), [disp.body.key]
    table_fns = {e.fn_key for e in T.all_entries(tables)}
    while todo:
        k = todo.pop()
        if k in seen:
            continue
        seen.add(k)
        hb = facts.body(k)
        if hb is None:
            continue
        for bi, t in hb.calls():
            c = callee_of(t)
            if not c or not c["local"]:
                continue
            it = facts.items.get(c["key"])
            if it and it.get("inputs") and it["inputs"][0].endswith(desc_adt) and (it["inputs"][0].startswith("&") or it["inputs"][0] == desc_adt):
                here = bi if k == disp.body.key else None
                if it["output"] == "bool" and len(it["inputs"]) == 1:
                    if "unary" not in roles or (here is not None and roles["unary"][1] is None):
                        roles["unary"] = (c["key"], here)
                    continue
                if len(it["inputs"]) == 2 and it["output"].startswith("std::result::Result<"):
                    if "check" not in roles or (here is not None and roles["check"][1] is None):
                        roles["check"] = (c["key"], here)
                    continue
                if len(it["inputs"]) == 2 and it["output"] == "bool":
                    # the length predicate asked by the dispatcher (or a helper of it) directly: the length check need
                    # not be a function of its own (`if !info.is_valid_len(&n) { return Err(WrongArgumentCount{..}) }`)
                    if "valid_direct" not in roles or (here is not None and roles["valid_direct"][1] is None):
                        roles["valid_direct"] = (c["key"], here)
                    continue
            cb_ = facts.body(c["key"])
            if cb_ is not None and cb_.kind == "fn" and c["key"] not in table_fns and len(seen) < 40 and not (it or {}).get("exported"):
                todo.append(c["key"])
    if "unary" not in roles or ("check" not in roles and "valid_direct" not in roles):
        raise Inconclusive("length-check / unary-acceptance calls not found in the dispatcher or its helpers")
    if "check" not in roles:
        # no length-check function: the dispatcher asks the length predicate itself (K3 is then read on its paths)
        roles["check"] = None
        roles["valid"] = (roles["valid_direct"][0], None)
        return roles
    chk = facts.body(roles["check"][0])
    # the predicate may be asked inside a closure of the check (`Some(len).filter(|l| self.is_valid_len(l)).ok_or_else(..)`)
    for cb_ in [chk] + [x for x in facts.bodies.values() if x.kind == "closure" and x.key.startswith(chk.key + "::{closure#")]:
        for bi, t in cb_.calls():
            c = callee_of(t)
            if c and c["local"]:
                it = facts.items.get(c["key"])
                if it and it["output"] == "bool" and len(it.get("inputs", [])) == 2 and it["inputs"][0].endswith(desc_adt):
                    if "valid" not in roles or cb_ is chk:
                        roles["valid"] = (c["key"], bi if cb_ is chk else None)
    if "valid" not in roles:
        raise Inconclusive("length predicate not found inside the length check")
    return roles


def variant_predicates(facts, fn_key, adt, has_len):
    b = facts.body(fn_key)
    preds = {}
    for v in facts.variants(adt):
        blocks, decided = b.specialize(lambda e, a: v if (a == adt and e == ("arg", 1)) else None)
        if not decided:
            raise Inconclusive("%s does not switch on the descriptor variant" % fn_key)
        preds[v] = predicate(b, blocks, 2 if has_len else None, 1, v)
    return preds


def fmt_iv(iv):
    return " ∪ ".join("[%s,%s]" % (lo, "∞" if hi == INF else hi) for lo, hi in iv) or "∅"


def reject_through_option(ctx, facts, cfg):
    """K4.reject across a function boundary.  When the unary-acceptance predicate is asked inside a function that
    answers with an `Option` (a "find the operation" helper) and a denied acceptance makes it answer `None`, the
    rejection is an error only if every caller turns that `None` into an `Err`.  A caller whose decision cases map the
    helper's `None` to a success (`.map(..).transpose()`, `match … None => Ok(None)`) has turned "{op: x} with a
    non-unary op" into "not an operation": the rule is handed back as a literal instead of being rejected.  Read on
    path summaries of the helper and decision cases of its callers (Option/Result plumbing in case normal form)."""
    from . import optnorm, pathsum
    descs = [a for a, d in facts.adts.items() if d["kind"] == "enum" and {"Exactly", "AtLeast", "Variadic"} <= {v["name"] for v in d["variants"]}]
    if len(descs) != 1:
        return
    unary = {k for k, it in facts.items.items() if it.get("kind") == "fn" and it.get("output") == "bool" and len(it.get("inputs") or []) == 1 and it["inputs"][0].lstrip("&").endswith(descs[0])}
    n = 0
    for B in facts.fns():
        if B.kind != "fn" or not (facts.items.get(B.key, {}).get("output") or "").startswith("std::option::Option<"):
            continue
        sites = [bi for bi, t in B.calls() if callee_of(t) and callee_of(t).get("key") in unary]
        if not sites:
            continue
        w = pathsum.summarize(B, max_paths=3000)
        if w.overflow or not w.paths:
            continue
        denied = []
        for p in w.paths:
            if p.truncated or p.result is None:
                continue
            if any(p.atoms.get(("site", bi)) is False for bi in sites):
                r = strip_refs(p.result)
                if (r[0] == "agg" and r[1].get("variant") == "None") or (r[0] == "call" and r[1] and r[1]["path"].endswith("::from_residual")):
                    denied.append(p)
        if not denied:
            continue
        for C in facts.fns():
            csites = [bi for bi, t in C.calls() if callee_of(t) and callee_of(t).get("key") == B.key]
            if not csites or C.key == B.key:
                continue
            cases = optnorm.decision_cases(facts, C)
            if cases is None:
                continue
            for conds, v, p in cases:
                for k, val in conds.items():
                    if k[0] != "variant" or val != "None":
                        continue
                    ex = (cases.exprs or {}).get(k)
                    if ex is None:
                        ex = optnorm.SRC_EXPRS.get(k)
                    ex = strip_refs(ex) if ex is not None else None
                    if ex is None or ex[0] != "call" or not ex[1] or ex[1].get("key") != B.key:
                        continue
                    n += 1
                    vv = strip_refs(v)
                    if vv[0] == "agg" and vv[1].get("variant") == "Ok":
                        ctx.fail("K4.reject", "non-array operand of a non-unary operator is an error (%s)|%s via %s" % (cfg, C.key.split("::", 1)[1], B.key.split("::", 1)[1]),
                                 "when unary acceptance is denied %s answers None, and its caller %s turns that None into %s: {op: x} with an operator that does not take one operand is treated as \"not an operation\" (a literal) instead of being rejected" % (
                                     B.key.split("::", 1)[1], C.key.split("::", 1)[1], show_expr(vv)[:60]), where=B.where(sites[0]), fn=B.key)
    ctx.count("callers of an Option-valued finder that asks the unary predicate (%s)" % cfg, n)


def construction_sites(ctx, facts, tables, cfg):
    """K6.construction — an operation (the struct an operator and its parsed operand list are stored in) is assembled only
    by the parser of its table, i.e. from what the dispatcher returned after the length check.  An aggregate of one of the
    three operation types anywhere else (a "fast path" that builds `DataOperation { operator, arguments }` itself) is an
    operation whose operand count nobody checked.  Private helpers all of whose callers are the parser are part of it."""
    n = 0
    for t in tables:
        if not t.operation_impl:
            continue
        fv = t.operation_impl[0]
        out = facts.items.get(fv, {}).get("output") or ""
        m = re.search(r"Option<([\w:]+)", out)
        if not m:
            continue
        adt = m.group(1)
        allowed = {fv}
        changed = True
        while changed:
            changed = False
            for b in facts.fns():
                root = b.key.split("::{closure#", 1)[0]
                if root in allowed or b.kind != "fn" or facts.items.get(root, {}).get("exported"):
                    continue
                callers = {o.key.split("::{closure#", 1)[0] for o in facts.fns() for _, tt in o.calls() if callee_of(tt) and callee_of(tt).get("key") == root}
                if callers and callers <= allowed:
                    allowed.add(root)
                    changed = True
        for b in facts.fns():
            root = b.key.split("::{closure#", 1)[0]
            for bi, si, st in b.stmts():
                if st["k"] == "Assign" and st["rv"]["k"] == "Aggregate" and (st["rv"].get("adt") or "") == adt:
                    n += 1
                    if root not in allowed:
                        ctx.fail("K6.construction", "%s built in %s" % (adt.rsplit("::", 1)[-1], root.split("::", 1)[1]),
                                 "%s assembles a %s itself: the operation does not come out of the dispatcher, so its operand count was never checked against the operator's arity" % (root.split("::", 1)[1], adt.rsplit("::", 1)[-1]),
                                 where=b.where(bi, si), fn=b.key)
    ctx.count("operation aggregates (%s)" % cfg, n)
    if not any(v["clause"] == "K6.construction" for v in ctx.viol):
        ctx.check(n >= 3, "K6.construction", "operations are assembled only by the parser of their table (%s)" % cfg, "%d operation aggregates found (expected one per table)" % n, nontrivial=True)


def every_parser_checks(ctx, facts, tables, cfg):
    """K3.every-parser-checks — wherever the length check lives (in the dispatcher, in a helper of it, or in the parsers
    that call the dispatcher), the parser of *every* table reaches it: a table whose parser builds its operation from the
    dispatcher's answer without any way to the length check accepts every operand count.  A call-graph statement (the
    path-precise K3 clauses are read on the dispatcher when the check sits there)."""
    descs = [a for a, d in facts.adts.items() if d["kind"] == "enum" and {"Exactly", "AtLeast", "Variadic"} <= {v["name"] for v in d["variants"]}]
    if len(descs) != 1:
        return
    checks = {k for k, it in facts.items.items() if it.get("kind") == "fn" and len(it.get("inputs") or []) == 2 and it["inputs"][0].lstrip("&").endswith(descs[0])
              and (it.get("output") or "").startswith("std::result::Result<")}
    preds = {k for k, it in facts.items.items() if it.get("kind") == "fn" and len(it.get("inputs") or []) == 2 and it["inputs"][0].lstrip("&").endswith(descs[0]) and it.get("output") == "bool"}
    is_len = lambda k: "usize" in ((facts.items.get(k, {}).get("inputs") or ["", ""])[1])
    anchors = {k for k in checks if is_len(k)} or {k for k in preds if is_len(k)}
    if not anchors:
        return
    table_fns = {e.fn_key for t_ in tables for e in t_.entries}
    cg_, _ = facts.callgraph()

    def direct_reach(root):
        """Functions the parser can call directly (calls and closures; not through the tables' constants, whose
        mention of every operator is no call, and not into the operators)."""
        seen, todo = set(), [root]
        while todo:
            k = todo.pop()
            if k in seen or k in table_fns:
                continue
            seen.add(k)
            bb = facts.body(k)
            if bb is None or bb.kind not in ("fn", "closure"):
                continue
            for n_ in cg_.get(k, ()):
                nb_ = facts.body(n_)
                if nb_ is not None and nb_.kind in ("fn", "closure"):      # calls, closures, function items used as values
                    todo.append(n_)
        return seen
    for t in tables:
        if not t.operation_impl:
            continue
        fv = t.operation_impl[0]
        reach = direct_reach(fv)
        ctx.check(bool(reach & anchors), "K3.every-parser-checks", "the parser of the %s table reaches the length check (%s)" % (t.role, cfg),
                  "the parser of the %s table (%s) cannot reach the length check %s: its operators are run with any number of operands" % (t.role, fv.split("::", 1)[1], sorted(x.split("::", 1)[1] for x in anchors)),
                  where=facts.body(fv).where() if facts.body(fv) else "", fn=fv, nontrivial=True)


def run(ctx):
    ctx.level = "proof"
    ctx.explanation = __doc__
    ctx.rule = "obligations = 35 table entries × (accepted-set equality, unary agreement) + dispatcher dominance facts; non-trivial = needs interval arithmetic beyond a constant comparison (payload-dependent or range descriptors)"
    ctx.trusted = ["rustc MIR construction", "phf lookup (hash/displacement arrays generated from the same key list)", "transcription of the statement into spec/operators.json", "nightly std expansion of vec![x] (recognised idiom)"]
    spec = json.load(open(os.path.join(VERIF, "spec", "operators.json")))["operators"]
    cfgs = ["default"] if ctx.tier == "quick" else ["default", "cmdline", "python", "wasm"]
    for cfg in cfgs:
        facts = ctx.facts(cfg)
        reject_through_option(ctx, facts, cfg)
        tables = T.read_tables(facts)
        construction_sites(ctx, facts, tables, cfg)
        every_parser_checks(ctx, facts, tables, cfg)
        disp = Dispatcher(facts)
        roles = find_roles(facts, tables, disp)
        adt = roles["adt"]
        entries = T.all_entries(tables)
        ctx.floor("table entries (%s)" % cfg, len(entries), 35)
        # ---- K1: descriptor semantics → accepted sets vs documentation (path summaries per descriptor variant)
        vread = ArityReader(facts, roles["valid"][0], adt, 2)
        uread = ArityReader(facts, roles["unary"][0], adt, None)
        vb = facts.body(roles["valid"][0])
        ctx.floor("descriptor variants (%s)" % cfg, len(facts.variants(adt)), 6)
        narrowed = False
        for e in entries:
            s = spec.get(e.key)
            if s is None:
                ctx.fail("K1.accepted", "%s" % e.key, "operator %r is not one of the documented operators" % e.key, facts.body(e.table.const_key).where())
                continue
            want = [(s["min"], INF if s["max"] is None else s["max"])]
            iv = None
            try:
                iv = vread.accepted(e.num)
            except NarrowedLength as nl:
                if not narrowed:
                    ctx.fail("K1.length-narrowed", "length predicate (%s)" % cfg, "the operand count is converted to %s before it is compared with the descriptor: counts are checked modulo 2^bits, so surplus operands are accepted and valid long lists rejected" % nl, where=vb.where(), fn=vb.key)
                narrowed = True
            except Unread as u:
                ctx.unread("K1.accepted", e.key, "the accepted operand counts of descriptor %s cannot be read: %s" % (e.num, u), where=vb.where(), fn=vb.key)
            if iv is not None:
                ctx.check(iv == want, "K1.accepted", e.key,
                          "operator %r accepts %s operands (descriptor %s) but the documented set is %s" % (e.key, fmt_iv(iv), e.num, fmt_iv(want)),
                          where=facts.body(e.table.const_key).where(), nontrivial=e.num[0] in ("AtLeast", "Exactly", "Variadic"),
                          sample={"operator": e.key, "descriptor": list(e.num), "accepted": fmt_iv(iv), "documented": fmt_iv(want)}, fn=e.table.const_key)
            # an operator whose operands are all evaluated (eager / data discipline) has them all *parsed* with the operation:
            # a malformed operation anywhere among its operands is rejected whatever the data.  Moved to the lazy table,
            # the operator decides itself what gets parsed, and wrong operand counts in the parts it skips go unnoticed.
            if s.get("kind") in ("eager", "data"):
                ctx.check(e.table.role in ("eager", "data"), "K1.operands-parsed", e.key,
                          "operator %r is documented to evaluate all its operands but sits in the %s table: its operands are no longer all parsed (and length-checked) together with the operation" % (e.key, e.table.role),
                          where=facts.body(e.table.const_key).where(), fn=e.table.const_key)
            # ---- K2
            if iv is None:
                continue
            try:
                uiv = uread.accepted(e.num)
            except (Unread, NarrowedLength) as u:
                ctx.unread("K2.unary", e.key, "the unary-acceptance predicate cannot be read for descriptor %s: %s" % (e.num, u), where=facts.body(roles["unary"][0]).where(), fn=roles["unary"][0])
                continue
            unary_code = bool(uiv)
            unary_sem = any(lo <= 1 <= hi for lo, hi in iv)
            ctx.check(unary_code == unary_sem, "K2.unary", e.key,
                      "unbracketed operand %s by the unary predicate but one operand is %s by the length predicate" % ("accepted" if unary_code else "rejected", "accepted" if unary_sem else "rejected"),
                      where=facts.body(roles["unary"][0]).where(), nontrivial=e.num[0] in ("AtLeast", "Exactly", "Variadic"), fn=roles["unary"][0])
        if narrowed:
            continue
        missing = sorted(set(spec) - {e.key for e in entries})
        ctx.check(not missing, "K1.complete", "all documented operators bound (%s)" % cfg, "documented operators missing from the tables: %s" % missing, where=facts.body(tables[0].const_key).where())

        k34(ctx, facts, disp, roles, cfg)
        k5_error_discipline(ctx, facts, disp, cfg)
        # K7: at evaluation time the operator receives the very list that was formed and counted here
        from .roles import Roles as _Roles
        from .c04 import operator_receives_operand_list
        _r = _Roles(facts)
        for _t in _r.tables:
            operator_receives_operand_list(ctx, facts, _r, _t, cfg, "K7")
        k6_only_through_the_tables(ctx, facts, tables, cfg)



class Recorder:
    """Collects the outcome of a reading without reporting it, so that two sufficient readings of one clause group can
    be tried and one of them reported."""
    def __init__(self):
        self.calls = []
        self.bad = 0

    def ok(self, *a, **k):
        self.calls.append(("ok", a, k))

    def fail(self, *a, **k):
        self.bad += 1
        self.calls.append(("fail", a, k))

    def unread(self, *a, **k):
        self.bad += 1
        self.calls.append(("unread", a, k))

    def check(self, cond, *a, **k):
        if not cond:
            self.bad += 1
        self.calls.append(("check", (cond,) + a, k))

    def need(self, cond, reason):
        if not cond:
            raise Inconclusive(reason)

    def count(self, *a, **k):
        self.calls.append(("count", a, k))

    def floor(self, *a, **k):
        self.calls.append(("floor", a, k))

    def replay(self, ctx):
        for m, a, k in self.calls:
            getattr(ctx, m)(*a, **k)


def k34(ctx, facts, disp, roles, cfg):
    """K3 (the success exit lies behind the length check of the returned list) and K4 (the two operand forms) have two
    sufficient readings: the statement structure of the dispatcher (`k34_structural`) and the path reading
    (`k34_paths`, helpers expanded — does not care in which function the forms are built).  Either one holding
    establishes the clauses; when neither does, the violations of the reading that could be applied are reported."""
    r1 = Recorder()
    try:
        if os.environ.get("JL_K34_PATHS") == "1":       # development aid: the path reading alone
            raise Inconclusive("structural reading switched off")
        k34_structural(r1, facts, disp, roles, cfg)
    except Inconclusive as e:
        r1 = None
    if r1 is not None and not r1.bad:
        r1.replay(ctx)
        return
    r2 = Recorder()
    k34_paths(r2, facts, disp, roles, cfg)
    if not r2.bad:
        r2.replay(ctx)
        return
    if r1 is not None and any(m == "fail" or (m == "check" and not a[0]) for m, a, k in r1.calls) and not any(m == "fail" or (m == "check" and not a[0]) for m, a, k in r2.calls):
        r1.replay(ctx)      # the path reading is undecided, the structural one read a violation
        return
    r2.replay(ctx)


VEC_PLUMB = re.compile(r"(::collect|::iter|::into_iter|::to_vec|::from_iter|::copied|::cloned|Deref>::deref|::as_slice|::as_ref|Vec::<T>::from|From<.*>>::from)$")


def k34_paths(ctx, facts, disp, roles, cfg):
    from .dispatch import GuardReader, PHF_GET
    from . import pathsum
    b = disp.body
    unary_key, chk_key = roles["unary"][0], (roles["check"][0] if roles["check"] else None)
    vkey = roles["valid"][0]
    # without a length-check function the dispatcher asks the length predicate itself: the check *is* the atom
    # `predicate(descriptor, &len(list)) = true` on the path, and its failure side is read on the dispatcher's paths
    skip_ = {unary_key, chk_key} if chk_key else {unary_key, vkey}
    rd = GuardReader(disp, skip=skip_)
    if rd.readable and rd.truncated_success:
        # a loop on the way to a success exit: when all it does is move the items of an iterator into a vector it is read
        # as the `extend` it is (rules/x_loops.py); any other loop stays unread
        from . import x_loops
        import copy as _copy
        nb = x_loops.collect_view(b)
        if nb is not None:
            disp = _copy.copy(disp)
            disp.body = b = nb
            rd = GuardReader(disp, skip=skip_)
    w = rd.w
    where = b.where(disp.success[0][0], disp.success[0][1]) if disp.success else b.where()
    if not rd.readable or rd.truncated_success or not rd.success:
        for cl in ("K3.dominated", "K4.forms"):
            ctx.unread(cl, "paths of the dispatcher (%s)" % cfg, "the dispatcher's paths cannot be enumerated (loops / too many paths)", where=where, fn=b.key)
        return

    def outcome(p, call):
        """Ok / Err of the Result-valued local call `call` on path p, else None."""
        k = ("variant", pathsum.canon(strip_refs(call)))
        v = p.atoms.get(k)
        if v in ("Ok", "Err"):
            return v
        for key, val0 in p.order:
            rw = w.raw.get((key, p.atoms.get(key, val0))) or w.raw.get((key, val0))
            if rw and rw[0][0] == "call" and rw[0][1] and rw[0][2] and strip_refs(rw[0][2][0])[:4] == strip_refs(call)[:4]:
                pth = rw[0][1]["path"]
                if pth.endswith("::is_ok"):
                    return "Ok" if rw[1] else "Err"
                if pth.endswith("::is_err"):
                    return "Err" if rw[1] else "Ok"
        return None

    def consumed(p, ev):
        """the result of call event ev is looked at somewhere on p (an atom, a later call's argument, the result)."""
        def same(x):
            return x[0] == "call" and len(x) > 3 and x[1] is not None and x[1].get("key") == ev[1].get("key") and x[3] == ev[3]
        if p.result is not None and expr_mentions(p.result, same):
            return True
        for key in p.atoms:
            e = w.exprs.get(key)
            if e is not None and expr_mentions(e, same):
                return True
            for val in (p.atoms[key],):
                rw = w.raw.get((key, val))
                if rw and expr_mentions(rw[0], same):
                    return True
        for ev2 in p.events:
            if ev2 is not ev and any(isinstance(a, tuple) and expr_mentions(a, same) for a in ev2[2]):
                return True
        return False

    def valid_on(p):
        """[(truth, [argument expressions])] of the questions to the length predicate on p."""
        out = []
        for key, val0 in p.order:
            rw = w.raw.get((key, p.atoms.get(key, val0))) or w.raw.get((key, val0))
            if rw and rw[0][0] == "call" and rw[0][1] and rw[0][1].get("key") == vkey and isinstance(rw[1], bool):
                # the arguments as they are on *this* path (the atom's recorded question is shared by all paths
                # through the call site): from the path's own call event at that site
                evs = [ev for ev in p.events if ev[0] == "call" and ev[1] and ev[1].get("key") == vkey and len(rw[0]) > 3 and ev[3] == rw[0][3]]
                out.append((rw[1], list(evs[-1][2]) if evs else list(rw[0][2])))
        return out

    def unary_on(p):
        """truth of the unary-acceptance call on p (None: not asked)."""
        for key, val0 in p.order:
            rw = w.raw.get((key, p.atoms.get(key, val0))) or w.raw.get((key, val0))
            if rw and rw[0][0] == "call" and rw[0][1] and rw[0][1].get("key") == unary_key:
                return rw[1]
        return None

    def variant_on(p, e):
        return p.atoms.get(("variant", pathsum.canon(strip_refs(e))))

    def vec_elems_macro(p, v):
        """elements of a `vec![..]` built in the dispatcher on path p."""
        if not (v[0] == "call" and v[1] and v[1]["path"] == "std::boxed::box_assume_init_into_vec_unsafe" and len(v) > 4 and v[4] == b.key):
            return None
        found = None
        for bi in p.blocks:
            for st in b.blocks[bi]["stmts"]:
                if st["k"] == "Assign" and st["place"]["proj"] and st["place"]["proj"][0]["k"] == "Deref" and st["rv"]["k"] == "Aggregate" and st["rv"].get("agg") == "Array":
                    base = b.trace(st["place"]["local"])
                    if expr_mentions(base, lambda x: x[0] == "call" and x[1] and x[1]["path"] == "std::boxed::Box::<T>::new_uninit"):
                        if found is not None:
                            return None
                        found = [w.operand(o, p.env) for o in st["rv"]["ops"]]
        return found

    def form_of(p, v):
        """('array-of', O) | ('single', O) | ('other', text) | None (not read)"""
        v = strip_refs(v)
        el = vec_elems_macro(p, v)
        if el is not None:
            return ("single", el[0]) if len(el) == 1 else ("other", "a vector of %d elements" % len(el))
        if v[0] == "after":
            muts = []
            x = v
            while x[0] == "after":
                muts.append(x)
                x = strip_refs(x[1])
            if not (x[0] == "call" and x[1] and re.search(r"Vec::<T>::(new|with_capacity)$", x[1]["path"])):
                return None
            muts = [m for m in muts if not re.search(r"::(reserve|reserve_exact|shrink_to_fit)$", m[2])]
            if len(muts) != 1:
                return ("other", "an operand list filled by %d mutations (%s)" % (len(muts), [m[2] for m in muts]))
            m = muts[0]
            args = m[3] if len(m) > 3 else []
            if re.search(r"Vec::<T, A>::push$", m[2]) and len(args) == 2:
                return ("single", args[1])
            if re.search(r"(::extend|::extend_from_slice|::append)$", m[2]) and len(args) == 2:
                return view_of(args[1])
            return ("other", "an operand list modified by %s" % m[2])
        if v[0] == "call" and v[1] and re.search(r"Vec::<T>::(new|with_capacity)$", v[1]["path"]):
            return ("other", "an empty operand list (%s)" % v[1]["path"])
        return view_of(v)

    def view_of(v):
        x = strip_refs(v)
        n = 0
        while x[0] == "call" and x[1] and VEC_PLUMB.search(x[1]["path"]) and x[2] and n < 12:
            x = strip_refs(x[2][0])
            n += 1
        if n == 0 and x[0] != "agg":
            return None
        if x[0] == "field" and x[2] == 0 and x[1][0] == "downcast" and x[1][2] == "Array":
            return ("array-of", x[1][1])
        if x[0] == "call" and x[1] and x[1]["path"] in ("std::slice::from_ref", "core::slice::from_ref") and x[2]:
            return ("single", x[2][0])
        if x[0] == "agg" and x[1].get("agg") == "Array":
            return ("single", x[2][0]) if len(x[2]) == 1 else ("other", "an array of %d elements" % len(x[2]))
        if x[0] == "call" and x[1] and x[1]["path"].endswith(("iter::once", "option::Option::<T>::into_iter")) and x[2]:
            return ("single", x[2][0])
        return None

    def operand_ok(p, o):
        """o is the object's value under the dispatched key."""
        ke, _te = rd.lookup_on(p)
        if ke is None:
            return False
        kk = strip_payload(ke)
        src = strip_payload(o)
        if src[0] == "call" and src[1] and src[1]["path"].startswith("serde_json::Map::<") and src[1]["path"].endswith("::get") and len(src[2]) == 2 and rd.is_object_payload(src[2][0]):
            return strip_payload(src[2][1]) == kk
        so = strip_refs(o)
        if so[0] == "field" and so[2] == 1 and kk[0] == "field" and kk[2] == 0 and strip_refs(so[1]) == strip_refs(kk[1]):
            t = strip_payload(so[1])       # the (key, value) entry both come from: the first one
            return t[0] == "call" and t[1] and t[1]["path"].endswith("Iterator>::next") and bool(t[2]) and rd.iter_position(t[2][0]) == 0
        return False

    forms = set()
    n_ok = 0
    dom_bad, same_bad, opnd_bad, guard_bad, br_bad, other, unread = [], [], [], [], [], [], []
    for p in rd.success:
        inner = strip_refs(strip_refs(p.result)[2][0])
        payload = strip_refs(inner[2][0]) if inner[2] else None
        fields = [strip_refs(f_) for f_ in payload[2]] if payload and payload[0] == "agg" else []
        if chk_key is None:
            asked = valid_on(p)
            calls_ = [ev for ev in p.events if ev[0] == "call" and ev[1] and ev[1].get("key") == vkey]
            passed = [("call", None, args_, None) for truth_, args_ in asked if truth_]
            if not passed:
                if calls_ and not asked and any(consumed(p, ev) for ev in calls_):
                    unread.append(("K3.dominated", "the answer of the length predicate is consumed in a way that is not read"))
                else:
                    dom_bad.append(p)
                continue
        else:
            checks = [ev for ev in p.events if ev[0] == "call" and ev[1] and ev[1].get("key") == chk_key]
            passed = [ev for ev in checks if outcome(p, ("call", ev[1], ev[2], ev[3])) == "Ok"]
            if not passed:
                if checks and all(outcome(p, ("call", ev[1], ev[2], ev[3])) is None for ev in checks) and any(consumed(p, ev) for ev in checks):
                    unread.append(("K3.dominated", "the outcome of the length check is consumed in a way that is not read"))
                else:
                    dom_bad.append(p)
                continue
        vec = None
        for ev in passed:
            le = strip_refs(ev[2][1]) if len(ev[2]) > 1 else None
            if le is not None and le[0] == "call" and le[1] and le[1]["path"].endswith("::len") and le[2]:
                cand = strip_refs(le[2][0])
                if any(f_ == cand for f_ in fields):
                    vec = cand
        if vec is None:
            same_bad.append(show_expr(strip_refs(passed[0][2][1]))[:100] if len(passed[0][2]) > 1 else "?")
            continue
        n_ok += 1
        fm = form_of(p, vec)
        if fm is None:
            unread.append(("K4.other-form", "an operand list whose construction is not read: %s" % show_expr(vec)[:120]))
            continue
        if fm[0] == "other":
            other.append(fm[1])
            continue
        kind, o = fm
        if not operand_ok(p, o):
            opnd_bad.append(show_expr(strip_refs(o))[:120])
        if kind == "array-of":
            forms.add("bracketed")
            if variant_on(p, o) != "Array":
                br_bad.append(p)
        else:
            forms.add("unbracketed")
            u = unary_on(p)
            if u is None:
                unread.append(("K4.unary-guard", "no question to the unary-acceptance predicate is read on a path that wraps the operand"))
            elif u is not True:
                guard_bad.append(p)
    for cl, msg in unread:
        ctx.unread(cl, "paths of the dispatcher (%s)" % cfg, msg, where=where, fn=b.key)
    ctx.check(not dom_bad, "K3.dominated", "Ok(Some) exit in %s" % cfg, "a parsed operation is returned on %d path(s) that do not pass the success outcome of the length check" % len(dom_bad), where=where, nontrivial=True, fn=b.key, sample={"success paths": len(rd.success)})
    ctx.check(not same_bad, "K3.same-vector", "checked length is that of the returned operands (%s)" % cfg, "the length handed to the length check (%s) is not the length of the returned operand vector" % same_bad[:1], where=where, nontrivial=True, fn=b.key)
    # the check itself: Err exactly when the predicate is false (decision cases of the check)
    cb = facts.body(chk_key) if chk_key else None
    if cb is None:
        # … read on the dispatcher: every path on which the predicate answered false ends in Err (answered true →
        # the success exits above), and the predicate is asked about (a descriptor, the counted length) only
        neg_bad, neg_n = [], 0
        for p in w.paths:
            if p.truncated:
                continue
            for truth_, args_ in valid_on(p):
                if truth_:
                    continue
                neg_n += 1
                r = strip_refs(p.result) if p.result is not None else ("?",)
                is_err = (r[0] == "agg" and r[1].get("variant") == "Err") or (r[0] == "call" and r[1] and r[1]["path"].endswith("::from_residual") and "Result" in r[1]["path"])
                if not is_err:
                    neg_bad.append(show_expr(r)[:80])
        if neg_n:
            ctx.check(not neg_bad, "K3.check-Err", "predicate False → Err (%s)" % cfg, "when the length predicate is false the dispatcher returns %s instead of an error" % neg_bad[:1], where=where, nontrivial=True, fn=b.key)
        else:
            ctx.unread("K3.check-Err", "predicate False → Err (%s)" % cfg, "no path on which the length predicate answers false was read", where=where, fn=b.key)
        cw = None
    else:
        cw = x_ipaths.summarize(cb, x_ipaths.loop_free_local(facts, {vkey}), max_paths=200)
    if cw is None:
        pass
    elif cw.overflow or not cw.paths or any(q.truncated for q in cw.paths):
        ctx.unread("K3.check-Ok", "predicate → outcome (%s)" % cfg, "the length check has loops", where=cb.where(), fn=cb.key)
    else:
        for q in cw.paths:
            truth = None
            args_ok = True
            passed_ = []
            for key, val0 in q.order:
                rw = cw.raw.get((key, q.atoms.get(key, val0))) or cw.raw.get((key, val0))
                if rw and rw[0][0] == "call" and rw[0][1] and rw[0][1].get("key") == vkey:
                    truth = rw[1]
                    args_ok = [strip_refs(a) for a in rw[0][2]] == [("arg", 1), ("arg", 2)]
                    passed_ = [strip_refs(a) for a in rw[0][2]]
            r = strip_refs(q.result)
            var = r[1].get("variant") if r[0] == "agg" else None
            if truth is None:
                ctx.unread("K3.check-Ok", "predicate → outcome (%s)" % cfg, "a path of the length check does not ask the predicate", where=cb.where(), fn=cb.key)
                continue
            narrowed_ = [x[3] for x in passed_[1:2] if x[0] == "cast" and len(x) > 3 and strip_refs(x[2]) == ("arg", 2) and x[3] not in WIDE]
            ctx.check(args_ok, "K3.check-args", "length check forwards (descriptor, length) (%s)" % cfg, "the length check does not pass its own descriptor and length to the predicate" + ((": the operand count is converted to %s first, so counts are checked modulo 2^bits — surplus operands are accepted and valid long lists rejected" % narrowed_[0]) if narrowed_ else (" (it passes %s)" % [show_expr(x)[:60] for x in passed_])), where=cb.where(), fn=cb.key)
            want = "Ok" if truth else "Err"
            ctx.check(var == want, "K3.check-%s" % want, "predicate %s → %s (%s)" % (truth, want, cfg), "when the length predicate is %s the length check returns %s instead of %s" % (truth, show_expr(r)[:80], want), where=cb.where(), nontrivial=True, fn=cb.key)
    ctx.check(not opnd_bad, "K4.operand", "operand is the object's value under the dispatched key (%s)" % cfg, "the operand is not obtained as object[key] for the dispatched key: %s" % opnd_bad[:1], where=where, fn=b.key)
    ctx.check(not br_bad, "K4.bracketed", "bracketed form = the array's elements in order (%s)" % cfg, "the array's elements are used as operands on a path where the operand is not known to be an array", where=where, fn=b.key, nontrivial=True)
    ctx.check(not guard_bad, "K4.unary-guard", "unbracketed form only under unary acceptance (%s)" % cfg, "a non-array operand is wrapped on %d path(s) where the unary-acceptance test did not succeed" % len(guard_bad), where=where, fn=b.key, nontrivial=True)
    for n, what in enumerate(sorted(set(other))):
        ctx.fail("K4.other-form", "operand list #%d formed neither as [x] nor as the array's elements (%s)" % (n, cfg), "{op: x} must mean exactly {op: [x]}: the operand list is also built as %s" % what, where=where, fn=b.key)
    if not unread:
        ctx.check({"bracketed", "unbracketed"} <= forms, "K4.forms", "both operand forms present (%s)" % cfg, "operand forms found: %s" % sorted(forms), where=where, fn=b.key)
    # rejection: a path on which unary acceptance was asked and denied, and the operand is not an array, ends in Err
    rej_bad, rej_n = [], 0
    for p in w.paths:
        if p.truncated or unary_on(p) is not False:
            continue
        rej_n += 1
        r = strip_refs(p.result) if p.result is not None else ("?",)
        is_err = (r[0] == "agg" and r[1].get("variant") == "Err") or (r[0] == "call" and r[1] and r[1]["path"].endswith("::from_residual") and "Result" in r[1]["path"])
        if not is_err and r[0] == "call" and r[1] and r[1].get("local"):
            cb2 = facts.body(r[1]["key"])
            rr = cb2.trace(0) if cb2 else ("?",)
            is_err = rr[0] == "agg" and rr[1].get("variant") == "Err"
        if not is_err and p not in rd.success:
            rej_bad.append(show_expr(r)[:80])
        elif not is_err:
            # a success although unary acceptance was denied: only the bracketed form may do that (counted above)
            pass
    if rej_n:
        ctx.check(not rej_bad, "K4.reject", "non-array operand of a non-unary operator is an error (%s)" % cfg, "the rejection path returns %s" % rej_bad[:1], where=where, fn=b.key)
    else:
        ctx.unread("K4.reject", "non-array operand of a non-unary operator is an error (%s)" % cfg, "no path on which unary acceptance is denied was read", where=where, fn=b.key)


def k34_structural(ctx, facts, disp, roles, cfg):
    """K3/K4 read off the statement structure of the dispatcher (dominating edges, the two-way join of the operand
    vector).  Applicable when the dispatcher itself calls the unary predicate and the length check."""
    if roles["unary"][1] is None or roles["check"] is None or roles["check"][1] is None:
        raise Inconclusive("the unary predicate / length check are not called by the dispatcher itself")
    # ---- K3: dominance of the length check
    b = disp.body
    chk_key, chk_bi = roles["check"]
    chk_term = b.blocks[chk_bi]["term"]
    len_expr = strip_refs(b.trace(chk_term["args"][1]))
    ok_len = len_expr[0] == "call" and len_expr[1] and len_expr[1]["path"] == "std::vec::Vec::<T, A>::len"
    vec_of_len = strip_refs(len_expr[2][0]) if ok_len else None
    # success edge of the check
    succ_edges = []
    for bi in b.reachable():
        t = b.blocks[bi]["term"]
        if t["k"] != "SwitchInt":
            continue
        e = b.trace(t["discr"])
        if e[0] != "discr":
            continue
        x = strip_refs(e[1])
        var = None
        if x[0] == "call" and x[1] and x[1]["path"].endswith("as std::ops::Try>::branch"):
            inner = strip_refs(x[2][0])
            var = "Continue"
        else:
            inner = x
            var = "Ok"
        if inner[0] == "call" and inner[1] and inner[1].get("key") == chk_key:
            r = switch_edges_for_variant(b, bi, var)
            if r and r[1]:
                succ_edges.append((bi, r[0]))
    ctx.need(succ_edges, "success edge of the length check not found in the dispatcher")
    for (sbi, ssi, inner) in disp.success:
        dom = any(edge_dominates(b, u, v, sbi) for u, v in succ_edges)
        ctx.check(dom, "K3.dominated", "Ok(Some) exit in %s" % cfg,
                  "a parsed operation is returned on a path that does not pass the success edge of the length check",
                  where=b.where(sbi, ssi), nontrivial=True, fn=b.key,
                  sample={"exit_block": sbi, "check_edges": succ_edges})
        # the returned vector is the vector whose length was checked
        payload = inner[2][0] if inner[2] else None
        fields = payload[2] if payload and payload[0] == "agg" else []
        same = any(strip_refs(f) == vec_of_len for f in fields)
        ctx.check(ok_len and same, "K3.same-vector", "checked length is that of the returned operands (%s)" % cfg,
                  "the length handed to the length check (%s) is not the length of the returned operand vector" % show_expr(len_expr),
                  where=b.where(chk_bi), nontrivial=True, fn=b.key)
    # the check itself: Err exactly when the predicate is false
    cb = facts.body(chk_key)
    vkey, vbi = roles["valid"]
    if vbi is None:
        # the predicate is asked inside a closure of the check (`Some(len).filter(|l| self.is_valid_len(l)).ok_or_else(..)`):
        # read the check on its decision cases — Option/Result plumbing in case normal form — instead of on its blocks
        from . import optnorm
        cases = optnorm.decision_cases(facts, cb)
        if cases is None:
            for variant in ("Ok", "Err"):
                ctx.unread("K3.check-%s" % variant, "predicate → %s (%s)" % (variant, cfg), "the length check cannot be summarised", where=cb.where(), fn=cb.key)
        seen_truth = set()
        for conds, v, pth in (cases or []):
            truth, ex = None, None
            for k, val in conds.items():
                e_ = (cases.exprs or {}).get(k)
                if e_ is None:
                    e_ = optnorm.SRC_EXPRS.get(k)
                e_ = strip_refs(e_) if e_ is not None else None
                if e_ is not None and e_[0] == "call" and e_[1] and e_[1].get("key") == vkey and isinstance(val, bool):
                    truth, ex = val, e_
            if truth is None:
                ctx.unread("K3.check-Ok", "predicate True → Ok (%s)" % cfg, "a case of the length check does not depend on the predicate: %s" % show_expr(strip_refs(v))[:80], where=cb.where(), fn=cb.key)
                continue
            seen_truth.add(truth)
            vv = strip_refs(v)
            variant = vv[1].get("variant") if vv[0] == "agg" else ("Err" if (vv[0] == "call" and vv[1] and "from_residual" in vv[1]["path"]) else None)
            want = "Ok" if truth else "Err"
            ctx.check(variant == want, "K3.check-%s" % want, "predicate %s → %s (%s)" % (truth, want, cfg),
                      "when the length predicate is %s the length check returns %s instead of %s" % (truth, show_expr(vv)[:60], want), where=cb.where(), nontrivial=True, fn=cb.key)
            passed_ = [strip_refs(a) for a in ex[2]]
            def _is_param(x, n):
                while x[0] in ("payload",) and len(x) > 2:
                    x = strip_refs(x[2])
                return x == ("arg", n)
            ctx.check(len(passed_) == 2 and _is_param(passed_[0], 1) and _is_param(passed_[1], 2), "K3.check-args", "length check forwards (descriptor, length) (%s)" % cfg,
                      "the length check does not pass its own descriptor and length to the predicate (it passes %s)" % [show_expr(x)[:60] for x in passed_], where=cb.where(), fn=cb.key)
        if cases is not None and seen_truth != {True, False}:
            ctx.unread("K3.check-Err", "predicate False → Err (%s)" % cfg, "only the cases %s of the predicate were read" % sorted(seen_truth), where=cb.where(), fn=cb.key)
    def _check_blocks(ctx, cb, vkey, vbi, cfg):
        vt = cb.blocks[vbi]["term"]
        args_ok = [strip_refs(cb.trace(a)) for a in vt["args"]] == [("arg", 1), ("arg", 2)]
        passed_ = [strip_refs(cb.trace(a)) for a in vt["args"]]
        narrowed_ = [x[3] for x in passed_[1:2] if x[0] == "cast" and len(x) > 3 and strip_refs(x[2]) == ("arg", 2) and x[3] not in WIDE]
        ctx.check(args_ok, "K3.check-args", "length check forwards (descriptor, length) (%s)" % cfg,
                  "the length check does not pass its own descriptor and length to the predicate" + ((": the operand count is converted to %s first, so counts are checked modulo 2^bits — surplus operands are accepted and valid long lists rejected" % narrowed_[0]) if narrowed_ else (" (it passes %s)" % [show_expr(x)[:60] for x in passed_])), where=cb.where(vbi), fn=cb.key)
        sw = [bi for bi in cb.reachable() if cb.blocks[bi]["term"]["k"] == "SwitchInt" and strip_refs(cb.trace(cb.blocks[bi]["term"]["discr"]))[0] == "call" and strip_refs(cb.trace(cb.blocks[bi]["term"]["discr"]))[1].get("key") == vkey]
        ctx.need(len(sw) == 1, "length check does not branch exactly once on the predicate")
        for want, variant in ((True, "Ok"), (False, "Err")):
            tgt = bool_edge(cb, sw[0], want)
            blocks = cb.reachable(tgt)
            with cb.restricted(blocks):
                r = cb.trace(0)
            good = r[0] == "agg" and r[1].get("variant") == variant
            ctx.check(good, "K3.check-%s" % variant, "predicate %s → %s (%s)" % (want, variant, cfg),
                      "when the length predicate is %s the length check returns %s instead of %s" % (want, show_expr(r), variant),
                      where=cb.where(sw[0]), nontrivial=True, fn=cb.key)

    if vbi is not None:
        _check_blocks(ctx, cb, vkey, vbi, cfg)

    # ---- K4: unbracketed operand
    # the operand: the Value (≠ the dispatcher's own value parameter) whose kind is switched on
    op_sw = []
    for bi in b.reachable():
        t = b.blocks[bi]["term"]
        if t["k"] != "SwitchInt":
            continue
        e = b.trace(t["discr"])
        if e[0] == "discr" and e[2] == VALUE and strip_refs(e[1]) != ("arg", disp.value_arg):
            op_sw.append((bi, strip_refs(e[1])))
    ctx.need(len(op_sw) == 1, "the dispatcher does not switch exactly once on the kind of the operand")
    obi, operand = op_sw[0]
    src = strip_payload(operand)
    from_obj = src[0] == "call" and src[1] and src[1]["path"].startswith("serde_json::Map::<") and src[1]["path"].endswith("::get") and disp._is_object_payload(src[2][0])
    key_same = from_obj and strip_payload(src[2][1]) == strip_payload(disp.lookup_key_expr())
    ctx.check(from_obj and key_same, "K4.operand", "operand is the object's value under the dispatched key (%s)" % cfg,
              "the operand is not obtained as object[key] for the dispatched key: %s" % show_expr(src), where=b.where(obi), fn=b.key)
    arr = switch_edges_for_variant(b, obi, "Array")
    ctx.need(arr and arr[1], "no exact Array edge on the operand")
    # definitions of the operand vector
    defs = None
    if vec_of_len and vec_of_len[0] == "phi":
        defs = list(b.defs()[vec_of_len[1]])
    elif vec_of_len and vec_of_len[0] == "field" and strip_refs(vec_of_len[1])[0] == "phi":
        # the vector travels as one field of a tuple joined over the two forms: `let (args, flag) = match …`
        tl, idx = strip_refs(vec_of_len[1])[1], vec_of_len[2]
        defs = []
        for d in b.defs()[tl]:
            inner = None
            if d[0] == "stmt" and d[3]["k"] == "Aggregate" and len(d[3]["ops"]) > idx:
                o = d[3]["ops"][idx]
                if o["k"] in ("Copy", "Move") and not o["place"]["proj"]:
                    dd = b.defs().get(o["place"]["local"], [])
                    if len(dd) == 1:
                        inner = dd[0]
            if inner is None:
                defs = None
                break
            defs.append(inner)
    built_in_place = None
    if defs is None and vec_of_len and vec_of_len[0] == "call" and vec_of_len[1] and re.search(r"Vec::<T>::(new|with_capacity)$", vec_of_len[1]["path"]):
        # `let mut args = Vec::new(); if array { args.extend(items) } else if unary { args.push(x) } else { return Err }`:
        # the list is what the mutations put into it
        vl = b.blocks[vec_of_len[3]]["term"]["dest"]["local"]
        muts = []
        for mbi, mt in b.calls():
            mp = callee_path(mt) or ""
            if not mt["args"]:
                continue
            tgt0 = strip_refs(b.trace(mt["args"][0]))
            if not (tgt0[0] == "call" and len(tgt0) > 3 and tgt0[3] == vec_of_len[3]):
                continue
            if re.search(r"Vec::<T, A>::(len|is_empty|capacity|iter|as_slice|first|last|get)$|Deref>::deref$", mp):
                continue
            muts.append((mbi, mt, mp))
        built_in_place = muts
    if built_in_place is None:
        ctx.need(defs is not None, "operand vector is not a two-way join (bracketed / unbracketed forms)")
    ubi = roles["unary"][1]
    usw = [bi for bi in b.reachable() if b.blocks[bi]["term"]["k"] == "SwitchInt" and strip_refs(b.trace(b.blocks[bi]["term"]["discr"]))[0] == "call" and strip_refs(b.trace(b.blocks[bi]["term"]["discr"]))[1].get("key") == roles["unary"][0]]
    ctx.need(len(usw) == 1, "dispatcher does not branch exactly once on unary acceptance")
    t_edge = (usw[0], bool_edge(b, usw[0], True))
    f_tgt = bool_edge(b, usw[0], False)
    seen_forms = set()
    for n, (mbi, mt, mp) in enumerate(built_in_place or []):
        if re.search(r"Vec::<T, A>::push$", mp) and len(mt["args"]) == 2 and strip_refs(b.trace(mt["args"][1])) == operand:
            under = edge_dominates(b, t_edge[0], t_edge[1], mbi)
            ctx.check(under, "K4.unary-guard", "unbracketed form only under unary acceptance (%s)" % cfg, "a non-array operand is pushed as the single operand without the unary-acceptance test", where=b.where(mbi), fn=b.key, nontrivial=True)
            # pushed once: not inside a loop
            ctx.check(not any(mbi in blocks for (_h, blocks, _s) in PN.loops_of(b)), "K4.wrap", "unbracketed operand x becomes exactly [x] (%s)" % cfg, "the operand is pushed inside a loop", where=b.where(mbi), fn=b.key, nontrivial=True)
            seen_forms.add("unbracketed")
            continue
        if re.search(r"Vec::<T, A>::(extend|extend_from_slice)$|as std::iter::Extend<.*>>::extend$", mp) and len(mt["args"]) == 2:
            src_ = strip_refs(b.trace(mt["args"][1]))
            while src_[0] == "call" and src_[1] and re.search(r"(::iter|::into_iter|IntoIterator>::into_iter|Deref>::deref|::as_slice)$", src_[1]["path"]) and src_[2]:
                src_ = strip_refs(src_[2][0])
            if src_[0] == "field" and src_[1][0] == "downcast" and src_[1][2] == "Array" and strip_refs(src_[1][1]) == operand:
                under = edge_dominates(b, obi, arr[0], mbi)
                ctx.check(under, "K4.bracketed", "bracketed form = the array's elements in order (%s)" % cfg, "the array's elements are used as operands on a path where the operand is not known to be an array", where=b.where(mbi), fn=b.key, nontrivial=True)
                seen_forms.add("bracketed")
                continue
        ctx.fail("K4.other-form", "operand list mutation #%d (%s)" % (n, cfg), "{op: x} must mean exactly {op: [x]}: the operand list is also modified by %s" % mp, where=b.where(mbi), fn=b.key)
    if built_in_place is not None:
        npush = sum(1 for (_b, mt_, mp_) in built_in_place if re.search(r"Vec::<T, A>::push$", mp_))
        next_ = sum(1 for (_b, mt_, mp_) in built_in_place if re.search(r"(extend|extend_from_slice)$", mp_))
        ctx.check(npush <= 1 and next_ <= 1, "K4.wrap", "the operand list is filled at one site per form (%s)" % cfg, "the operand list is pushed to at %d sites and extended at %d: {op: x} would not be exactly {op: [x]}" % (npush, next_), where=b.where(obi), fn=b.key, nontrivial=True)
    for n, d in enumerate(defs or []):
        dbi = d[1]
        if dbi not in b.reachable():
            continue
        ex = b._trace_def(d, 0, frozenset())
        x = strip_refs(ex)
        # form 1: bracketed — collect(iter(array payload of the operand))
        is_collect = x[0] == "call" and x[1] and x[1]["path"].endswith("::collect")
        it = strip_refs(x[2][0]) if is_collect else None
        is_br = bool(is_collect and it[0] == "call" and it[1] and it[1]["path"] == "core::slice::<impl [T]>::iter")
        base = strip_refs(it[2][0]) if is_br else None
        is_br = bool(is_br and base[0] == "field" and base[1][0] == "downcast" and base[1][2] == "Array" and strip_refs(base[1][1]) == operand)
        elems = vec_macro_elems(b, d)
        if is_br:
            under = edge_dominates(b, obi, arr[0], dbi)
            ctx.check(under, "K4.bracketed", "bracketed form = the array's elements in order (%s)" % cfg,
                      "the array's elements are used as operands on a path where the operand is not known to be an array", where=b.where(dbi), fn=b.key, nontrivial=True)
            seen_forms.add("bracketed")
        elif elems is not None and len(elems) == 1 and strip_refs(elems[0]) == operand:
            under = edge_dominates(b, t_edge[0], t_edge[1], dbi)
            ctx.check(under, "K4.unary-guard", "unbracketed form only under unary acceptance (%s)" % cfg,
                      "a non-array operand is wrapped without the unary-acceptance test", where=b.where(dbi), fn=b.key, nontrivial=True)
            ctx.ok("K4.wrap", "unbracketed operand x becomes exactly [x] (%s)" % cfg, nontrivial=True, sample={"vector": [show_expr(e) for e in elems]})
            seen_forms.add("unbracketed")
        else:
            what = ("a vector of %d element(s): %s" % (len(elems), [show_expr(e) for e in elems])) if elems is not None else show_expr(ex)
            ctx.fail("K4.other-form", "operand list #%d formed neither as [x] nor as the array's elements (%s)" % (n, cfg),
                     "{op: x} must mean exactly {op: [x]}: the operand list is also built as %s" % what, where=b.where(dbi), fn=b.key)
    ctx.check({"bracketed", "unbracketed"} <= seen_forms, "K4.forms", "both operand forms present (%s)" % cfg, "operand forms found: %s" % sorted(seen_forms), where=b.where(obi), fn=b.key)
    # rejection edge returns Err
    blocks = b.reachable(f_tgt) - b.reachable(t_edge[1])
    with b.restricted(blocks):
        r = b.trace(0)
    is_err = r[0] == "agg" and r[1].get("variant") == "Err"
    if not is_err and r[0] == "call" and r[1] and r[1]["local"]:
        cb2 = facts.body(r[1]["key"])
        rr = cb2.trace(0) if cb2 else ("?",)
        is_err = rr[0] == "agg" and rr[1].get("variant") == "Err"
    ctx.check(is_err, "K4.reject", "non-array operand of a non-unary operator is an error (%s)" % cfg,
              "the rejection edge returns %s" % show_expr(r), where=b.where(usw[0]), fn=b.key)

def k5_error_discipline(ctx, facts, disp, cfg):
    """K5 — the arity error is not swallowed between the dispatcher and the entry point."""
    from . import errdisc
    from .roles import Roles
    roles = Roles(facts)
    scope = errdisc.callers_closure(facts, [disp.body.key])
    # plus everything the value parser can run before evaluation starts (helpers of the parse included)
    cg, _ = facts.callgraph()
    stop = set(roles.evaluators) | set(roles.op_fns)
    st = [roles.value_parser.key]
    pscope = set()
    while st:
        k = st.pop()
        if k in pscope or k in stop:
            continue
        pscope.add(k)
        st.extend(cg.get(k, ()))
    scope = scope | pscope
    ctx.count("functions on the parse chain (%s)" % cfg, len(scope))
    bad = errdisc.dropped_errors(facts, scope)
    for b, bi, full in bad:
        ctx.fail("K5.error-dropped", "%s@%s" % (b.key.split("::", 1)[1], full.rsplit("::", 1)[1]),
                 "the parse chain discards an error of the crate's error type with %s — a rejected operand count would surface as a value" % full, where=b.where(bi), fn=b.key)
    conv = errdisc.err_to_ok(facts, scope)
    for b, bi, si, what in conv:
        ctx.fail("K5.error-to-success", "%s" % b.key.split("::", 1)[1], "the parse chain turns an error of the crate's error type into a success: %s — a rejected operand shape or count would surface as a value" % what, where=b.where(bi, si), fn=b.key)
    if not bad and not conv:
        ctx.ok("K5.error-dropped", "no error-dropping call and no error-to-success conversion on the parse chain (%s)" % cfg, nontrivial=True, sample={"functions": sorted(scope)[:12]})


def k6_only_through_the_tables(ctx, facts, tables, cfg):
    """K6 — an operator function is reached only through its table entry (whose arity was checked),
    or from another table function that forwards its own, at least as strictly checked, operand list."""
    from . import panic as PN
    from .roles import Roles
    roles = Roles(facts)
    arity = PN.Arity(facts, roles)
    tfns = {}
    for t in tables:
        for e in t.entries:
            tfns.setdefault(e.fn_key, []).append(e)
    n = 0
    for b in facts.fns():
        root = b.key
        while "::{closure#" in root and root not in tfns:
            root = root.rsplit("::{closure#", 1)[0]
        for bi, t in b.calls():
            c = callee_of(t)
            if not c or not c["local"] or c["key"] not in tfns:
                continue
            n += 1
            callee_entries = tfns[c["key"]]
            lo_c = min((e.accepted() or (0, 0))[0] for e in callee_entries)
            hi_c = max((e.accepted() or (0, 0))[1] for e in callee_entries)
            ok = False
            why = "called from %s, which is not an operator function" % b.key.split("::", 1)[1]
            if root in tfns:
                # the caller's own operand vector is passed on unchanged and its arity set is within the callee's
                cb = facts.body(c["key"])
                vec_ok = False
                for a in t["args"]:
                    v = arity.vec_of(b, a)
                    if v is not None:
                        vec_ok = v[0] >= lo_c and v[1] <= hi_c
                        why = "forwards an operand list of %s..%s operands to an operator accepting %s..%s" % (v[0], v[1], lo_c, hi_c)
                ok = vec_ok
            ctx.check(ok, "K6.through-table", "%s ← %s (%s)" % (c["key"].split("::", 1)[1], b.key.split("::", 1)[1], cfg),
                      "the operator function %s is invoked directly (%s): its operand count has not been checked against its descriptor" % (c["path"], why), where=b.where(bi), fn=b.key, nontrivial=True,
                      sample={"callee": c["path"], "caller": b.key})
    ctx.count("direct calls of operator functions (%s)" % cfg, n)
    # … and the functions that *invoke* a table entry (the `execute` methods: bodies with a call through a table's
    # function pointer) are called by the operation evaluators only — the one place whose operand list went through
    # the length check.  Any other caller (a fast path that fetches an entry from a table and runs it) bypasses arity.
    execs = table_invokers(facts, roles)
    for ek in sorted(execs):
        for b in facts.fns():
            for bi, t in b.calls():
                c = callee_of(t)
                if not c or not c["local"] or c["key"] != ek:
                    continue
                root = b.key
                while "::{closure#" in root:
                    root = root.rsplit("::{closure#", 1)[0]
                ctx.check(root in roles.evaluators, "K6.through-table", "%s ← %s (%s)" % (ek.split("::", 1)[1], b.key.split("::", 1)[1], cfg),
                          "an operator is run from %s, not from the operation evaluator that holds the length-checked operand list: its operand count is unchecked" % b.key.split("::", 1)[1], where=b.where(bi), fn=b.key, nontrivial=True)


def table_invokers(facts, roles):
    """Keys of the local functions that call through a function pointer of an operator table's signature."""
    import re as _re

    def norm(sig):
        sig = _re.sub(r"for<[^>]*>\s*", "", sig or "")
        sig = _re.sub(r"'\w+\s*", "", sig)
        sig = _re.sub(r"\s*\{.*\}$", "", sig)
        return _re.sub(r"\s+", "", sig)
    sigs = {norm(facts.items.get(e.fn_key, {}).get("sig")) for t in roles.tables for e in t.entries if facts.items.get(e.fn_key, {}).get("sig")}
    out = set()
    for b in facts.fns():
        if b.kind != "fn":
            continue
        for _, t in b.calls():
            if callee_of(t) is None and norm(t.get("fty") or "") in sigs:
                out.add(b.key)
    return out


def vec_macro_elems(body, d):
    """Elements of a `vec![..]` expansion (nightly: Box::new_uninit + write +
    box_assume_init_into_vec_unsafe), or None."""
    if d[0] != "call":
        return None
    t = d[2]
    p = callee_path(t)
    if p != "std::boxed::box_assume_init_into_vec_unsafe":
        return None
    src = strip_refs(body.trace(t["args"][0]))
    if not (src[0] == "call" and src[1] and src[1]["path"] == "std::boxed::Box::<T>::new_uninit"):
        return None
    box_bi = src[3]
    found = None
    for bi, si, s in body.stmts():
        if s["k"] == "Assign" and s["place"]["proj"] and s["place"]["proj"][0]["k"] == "Deref" and s["rv"]["k"] == "Aggregate" and s["rv"].get("agg") == "Array":
            base = body.trace(s["place"]["local"])
            if expr_mentions(base, lambda x: x[0] == "call" and x[1] and x[1]["path"] == "std::boxed::Box::<T>::new_uninit" and x[3] == box_bi):
                if found is not None:
                    return None
                found = [body.trace(o) for o in s["rv"]["ops"]]
    return found
