#!/usr/bin/env python3
"""C04 — only rule text is executed: data and computed values are never re-interpreted.

  K1  (R-PROV S1) every position that is interpreted as rule text — the entry
      point's rule, the value parser, the list parser, the four parser impls,
      the dispatcher — receives, at every call site and on every path, values
      whose provenance is rule text only; never the data, never a value
      produced by evaluation.  A site that is dirty path-insensitively is
      re-examined by case analysis on the kind of the operand the function
      switches on.
  K2  eager and data operators cannot interpret: from the functions bound in
      the eager and data tables neither the parser, the evaluator, the entry
      point nor any table lookup is reachable in the call graph (structural
      form of 'replacing an operand of an eager operator by its precomputed
      value never changes the result');
  K3  single pass: the eager/data operation evaluators evaluate each stored
      argument exactly once (one call of the parsed-value evaluator, inside the
      map over the argument list), pass the collected values to the operator,
      and return its result wrapped as a new value with no local call in
      between; the lazy operation evaluator evaluates nothing itself;
  K4  at most once per use: if / ?: / and / or touch operands drawn from their
      operand list only inside the per-element code (nothing is parsed or
      evaluated again after the iteration, no pre-pass), which evaluates at most
      once per element and has a success path that evaluates nothing (the
      analysis shared with C05 K2/K3); for the collection operators the same
      discipline is C13 K2 and C14 K2/K4.
"""
from .core import callee_of, callee_path, strip_refs, strip_payload, show_expr, expr_mentions
from .engine import Inconclusive
from .roles import Roles
from . import prov as P
from . import panic as PN


def operator_receives_operand_list(ctx, facts, roles, t, cfg, K, result_clause=True):
    """The operation evaluator of table `t` runs its operator at exactly one site, on the operand list itself
    (shared by C04 K3, C03 K7 and C16 K3: {op: x} means {op: [x]} also at evaluation time)."""
    ev = facts.body(t.operation_impl[1])
    unit = roles.unit(ev.key)
    # result: the operator's own result wrapped as a new value — `execute(..).map(Evaluated::New)` or
    # `Ok(Evaluated::New(execute(..)?))` — and no error of the evaluator's own making
    def is_execute(x):
        x = strip_refs(x)
        if not (x[0] == "call" and x[1] and x[1]["local"]):
            return False
        xb = facts.body(x[1]["key"])
        return xb is not None and any(callee_of(tt) is None for _, tt in xb.calls())

    r = strip_refs(ev.trace(0))
    cands = [strip_refs(x) for x in r[2]] if r[0] == "phi" else [r]
    good = 0
    bad = []
    ctor_path = "%s::%s" % (roles.evaluated_adt, roles.owned_variant)
    for c in cands:
        if c[0] == "call" and c[1] and "from_residual" in c[1]["path"]:
            # `?`: an error of the operator or of an operand's evaluation, handed on.  A `?` on a private function that
            # neither is the operator nor reaches the interpreter (a guard, a counter, a cache) is an exit of the
            # evaluator's own making: the operation can fail although operator and operands do not.
            own = []

            def _own(y):
                if y[0] == "call" and y[1] and y[1].get("path", "").endswith("as std::ops::Try>::branch") and y[2]:
                    x_ = strip_refs(y[2][0])
                    if x_[0] == "call" and x_[1] and x_[1].get("local") and not is_execute(x_) and x_[1]["key"] not in roles.evaluators and x_[1]["key"] not in roles.sinks:
                        reach_ = facts.reach([x_[1]["key"]])
                        if not (reach_ & (set(roles.evaluators) | set(roles.sinks))):
                            own.append(x_[1]["path"])
                return False
            expr_mentions(c, _own)
            if own:
                bad.append("the error of %s (a `?` on a function that is neither the operator nor an evaluation)" % own[0])
            continue
        if c[0] == "call" and c[1] and c[1]["path"] == "std::result::Result::<T, E>::map":
            f = c[2][1]
            ctor = f[0] == "const" and "fn" in f[1] and f[1]["fn"]["path"].replace("::<'_>", "") == ctor_path
            if ctor and is_execute(c[2][0]):
                good += 1
                continue
        if c[0] == "agg" and c[1].get("variant") == "Ok" and c[2]:
            v = strip_refs(c[2][0])
            if v[0] == "agg" and v[1].get("variant") == roles.owned_variant and v[2] and is_execute(strip_payload(v[2][0])):
                good += 1
                continue
        bad.append(show_expr(c)[:100])
    if result_clause:
      ctx.check(good >= 1 and not bad, K + ".result", "%s operation returns the operator's result as a new value, and nothing else (%s)" % (t.role, cfg),
              "the operation evaluator can also return %s (expected only execute(..) wrapped as a new value, or its error)" % (bad or show_expr(r)[:120]), where=ev.where(), fn=ev.key, nontrivial=True)
    execs = []
    for b in unit:
        for bi, tm in b.calls():
            c = callee_of(tm)
            if c and c["local"] and c["key"] not in roles.evaluators and c["key"] not in roles.sinks:
                xb = facts.body(c["key"])
                if xb is not None and any(callee_of(tt) is None for _, tt in xb.calls()):
                    execs.append((b, bi, tm))
    ctx.check(len(execs) == 1, K + ".execute-once", "%s operation runs its operator at exactly one site (%s)" % (t.role, cfg),
              "the %s operation evaluator calls the operator at %d sites: some evaluations hand it another operand list than the one that was parsed and counted" % (t.role, len(execs)), where=ev.where(), fn=ev.key, nontrivial=True)
    for (b, bi, tm) in execs:
        vec_args = [a for a in tm["args"] if a["k"] in ("Copy", "Move") and "std::vec::Vec<" in b.local_ty(a["place"]["local"])]
        for a in vec_args:
            e = strip_refs(b.xtrace(a))
            looks_inside = expr_mentions(e, lambda y: y[0] == "downcast" and y[2] in ("Array", "Object", "String", "Number", "Bool", "Null"))
            ctx.check(not looks_inside, K + ".operands-as-evaluated", "the operator receives the operand list itself (%s, %s)" % (t.role, cfg),
                      "the operand list handed to the operator is taken from inside an operand's value (%s): {op: x} no longer means {op: [x]}" % show_expr(e)[:120], where=b.where(bi), fn=b.key, nontrivial=True)



def _clean_on_helper_view(ctx, roles, cfg):
    """(True, helpers) when the program with the private helper functions of the table functions inlined has no dirty
    S1 position at all."""
    from . import inline
    from .opfacts import Unit
    from .core import Facts
    try:
        path = ctx.fact_paths[(cfg, "jsonlogic_rs", "debug")]
        cands = set(inline.candidates(path))
        helpers = set()
        for fk in roles.op_fns:
            helpers |= (Unit(roles, fk, extended=True).keys & cands)
        helpers -= set(roles.op_fns) | set(roles.sinks) | set(roles.evaluators)
        if not helpers:
            return (False, [])
        P._CALLABLE_CACHE.clear()
        P._INDEX_CACHE.clear()
        view = inline.load_view(path, sorted(helpers))
        vroles = Roles(view)
        _, vres = P.analyse(vroles)
        ok = len(vres) >= 25 and all(v != "dirty" for _, v, _ in vres)
        return (ok, sorted(helpers))
    except Exception:
        return (False, [])
    finally:
        P._CALLABLE_CACHE.clear()
        P._INDEX_CACHE.clear()


def run(ctx):
    ctx.explanation = __doc__
    ctx.rule = "instances = S1 sink call sites (each with its tag set), table functions (reachability), operation evaluators (shape); non-trivial = a sink whose tag set needed interprocedural flow through closures/adaptors or a case split"
    ctx.trusted = ["rustc MIR construction and callee resolution", "std adaptor transfer models in rules/prov.py (fold/map/Option/Result combinators); unknown calls default to the union of all argument tags (sound)", "phf lookup"]
    cfgs = ["default"] if ctx.tier == "quick" else ["default", "cmdline", "python", "wasm"]
    for cfg in cfgs:
        facts = ctx.facts(cfg)
        roles = Roles(facts)
        p, results = P.analyse(roles)
        ctx.floor("S1 sink sites (%s)" % cfg, len(results), 25)
        view_clean = None
        for s, verdict, how in results:
            key = "%s bb%d (%s)" % (s.ident(), s.bi, cfg)
            if verdict == "dirty" and not ctx.inline_set:
                # A site in a helper function is examined context-insensitively (parameter tags = join over all call
                # sites, and the case split on the operand's kind stops at the operator's own body).  The same program
                # with the operator's private helpers inlined at their call sites has the helper's guards in the operator:
                # if *every* S1 position of that program is clean (or discharged by the case split), K1 holds of the
                # program — the site is discharged.  Otherwise it is reported on the program as written.
                if view_clean is None:
                    view_clean = _clean_on_helper_view(ctx, roles, cfg)
                if view_clean[0]:
                    verdict, how = "discharged", "on the view of the program with the private helpers %s inlined at their call sites every S1 position is clean" % ", ".join(h.split("::", 1)[1] for h in view_clean[1])
            if verdict == "dirty":
                bad = sorted(t for t in s.tags if not P.RULEISH(t))
                ctx.fail("K1.S1", s.ident(),
                         "a value with provenance %s reaches a position that is interpreted as rule text (callee %s, parameter %d)%s" % (bad, s.callee, s.pos, ("; " + how) if how else ""),
                         where=s.body.where(s.bi), fn=s.body.key)
            else:
                nontriv = verdict == "discharged" or "closure" in s.body.key
                ctx.ok("K1.S1", key, nontrivial=nontriv, sample={"site": s.ident(), "where": s.body.where(s.bi), "tags": sorted(s.tags), "verdict": verdict, "how": how})
        ctx.count("calls given the conservative default model (%s)" % cfg, sorted(p.defaulted))

        # ---- K2
        forbidden = set(roles.sinks) | set(roles.evaluators)
        n = 0
        for fk, info in sorted(roles.op_fns.items()):
            if info["role"] not in ("eager", "data"):
                continue
            n += 1
            reach = facts.reach([fk])
            hit = sorted(reach & forbidden)
            ctx.check(not hit, "K2.inert", "%s (%s)" % ("/".join(info["keys"]), cfg),
                      "the %s operator %s can reach the interpreter: %s" % (info["role"], "/".join(info["keys"]), hit), where=facts.body(fk).where(), fn=fk,
                      nontrivial=len(reach) > 3, sample={"operator": info["keys"], "reach": len(reach)})
        ctx.floor("eager+data table functions (%s)" % cfg, n, 12)

        # ---- K3
        for t in roles.tables:
            ev = facts.body(t.operation_impl[1])
            unit = roles.unit(ev.key)
            pe_calls = [(b, bi) for b in unit for bi, tm in b.calls() if callee_of(tm) and callee_of(tm).get("key") == roles.parsed_evaluate]
            other_eval = [(b, bi) for b in unit for bi, tm in b.calls() if callee_of(tm) and callee_of(tm).get("key") in (set(roles.evaluators) | set(roles.sinks)) - {roles.parsed_evaluate}]
            # beyond the unit: helpers called from the evaluator that reach the interpreter
            helpers = set()
            for b in unit:
                for bi, tm in b.calls():
                    c = callee_of(tm)
                    if c and c["local"] and not c["key"].startswith(ev.key) and c["key"] not in roles.evaluators and c["key"] not in roles.sinks:
                        if facts.reach([c["key"]]) & (set(roles.evaluators) | set(roles.sinks)):
                            helpers.add(c["key"])
            if t.role == "lazy":
                ctx.check(not pe_calls and not other_eval and not helpers, "K3.lazy-no-eval", "lazy operation evaluator evaluates nothing itself (%s)" % cfg,
                          "the lazy operation evaluator calls the interpreter itself (%d evaluator calls, helpers %s)" % (len(pe_calls) + len(other_eval), sorted(helpers)), where=ev.where(), fn=ev.key, nontrivial=True)
            else:
                ctx.check(len(pe_calls) == 1 and not other_eval and not helpers, "K3.once", "%s operation evaluator evaluates each argument once (%s)" % (t.role, cfg),
                          "the %s operation evaluator has %d calls of the parsed-value evaluator, %d other interpreter calls, interpreting helpers %s (expected exactly one, inside the map over the arguments)" % (t.role, len(pe_calls), len(other_eval), sorted(helpers)),
                          where=ev.where(), fn=ev.key, nontrivial=True)
                if len(pe_calls) == 1:
                    cb, cbi = pe_calls[0]
                    tm = cb.blocks[cbi]["term"]
                    recv = strip_refs(cb.trace(tm["args"][0]))
                    from .core import strip_payload as _sp
                    elem = _sp(recv)
                    loop_elem = cb.key == ev.key and elem[0] == "call" and elem[1] and elem[1]["path"].endswith("::next") and any(cbi in bl for (h_, bl, s_) in PN.loops_of(cb))
                    ctx.check((cb.kind == "closure" and recv == ("arg", 2)) or loop_elem, "K3.per-argument", "the evaluated thing is the iteration element (%s, %s)" % (t.role, cfg),
                              "the single evaluator call is not applied to the per-argument closure parameter", where=cb.where(cbi), fn=cb.key)
            operator_receives_operand_list(ctx, facts, roles, t, cfg, "K3")

        # ---- K4 at most once per use: the lazy operators over an operand list
        from . import table as T
        from .c05 import once_per_use
        for name in ("if", "and", "or"):
            e = T.entry(roles.tables, name)
            ctx.need(e is not None, "%s is not bound" % name)
            once_per_use(ctx, facts, roles, p, cfg, name, e, K2="K4", K3="K4")
        # … and every other function of the lazy table: no operand of the operand list is evaluated by two sites that one
        # run can both reach (the collection operators evaluate their expression once per element of the collection — one
        # site, many uses; what is excluded is a second site for the same operand)
        from .c05 import at_most_once
        from .opfacts import Unit
        lazy = [t for t in roles.tables if t.role == "lazy"]
        done = {T.entry(roles.tables, n_).fn_key for n_ in ("if", "and", "or")}
        for t in lazy:
            for e in t.entries:
                if e.fn_key in done:
                    continue
                done.add(e.fn_key)
                u = Unit(roles, e.fn_key, extended=True)
                if not [s_ for s_ in u.calls(lambda c: c.get("key") == roles.parsed_evaluate)]:
                    continue
                at_most_once(ctx, facts, roles, u, e.key, cfg, "K4")

