#!/usr/bin/env python3
"""C05 — if / ?: / and / or select and evaluate only the deciding operands.

Structural necessary conditions, each of which breaks the behaviour when violated:
  K1  table: `if` and `?:` are bound to the same function with the same arity;
      if, ?:, and, or sit in the lazy table (an eager table entry would have all
      operands evaluated by the operation evaluator before the operator runs);
  K2  no pre-pass: in the three functions every parse (S1) and every evaluation
      of an operand drawn from the operand list happens per element — inside the
      loop body / the closure handed to the iterator consumer — never through the
      list parser or a map-and-collect over the whole operand list; the only
      parses outside the per-element code are `if`'s explicit prologue on a
      constant operand index;
  K3  skippable and at most once: the per-element code has a path that performs
      no parse and no evaluation (the 'already decided' path, or an early exit
      out of the loop), and no path evaluates more than once per element;
  K4  the value itself: in and/or no JSON value is constructed (no Bool/Null/…
      aggregate, no named constant) — every Ok result derives from an evaluation
      result; in if/?: the only constructed value is the null constant;
  K5  the data is handed only to the evaluator (no private look-up whose notion of a
      value could disagree with evaluation); truthiness through the shared table (C06 K1).
Not decided: that conditions sit at even and branches at odd positions, and the
polarity of the accumulator tests (value-level).
"""
from .core import callee_of, callee_path, strip_refs, show_expr, op_const, expr_mentions
from .engine import Inconclusive
from .roles import Roles
from .opfacts import Unit, max_calls_on_a_path, path_avoiding
from . import prov as P
from . import table as T
from . import panic as PN


def once_per_use(ctx, facts, roles, p, cfg, name, e, K2="K2", K3="K3"):
    """Operands of if / and / or are drawn from the operand list only inside per-element code (no pre-pass,
    nothing touched again after the iteration), which has a success path without parse/evaluate and at most
    one evaluation per element.  Returns the unit."""
    u = Unit(roles, e.fn_key, extended=True)
    root = u.root
    sink_keys = set(roles.sinks)
    eval_key = roles.parsed_evaluate
    interp = [s for s in u.calls(lambda c: c.get("key") in sink_keys or c.get("key") in roles.evaluators)]
    ctx.need(interp, "%s never calls the interpreter" % name)
    # where the iteration over the operand list starts in the root function: calls that receive a per-element
    # closure, and headers of loops containing per-element code
    iter_blocks = set()
    expanded = []
    for s in interp:
        # an interpreter call that sits in a helper function stands for the helper's call sites in the unit
        todo, hops = [s], 0
        while todo and hops < 4:
            hops += 1
            nxt = []
            for s_ in todo:
                if u.per_element(s_) == "helper":
                    owner = s_.body
                    while owner.kind == "closure" and owner.creator():
                        owner = owner.creator()[0]
                    nxt.extend(s2 for s2 in u.calls(lambda c, _k=owner.key: c.get("key") == _k))
                else:
                    expanded.append(s_)
            todo = nxt
    for s in expanded:
        k = u.per_element(s)
        if k == "closure":
            cur = s.body
            while cur.kind == "closure" and cur.creator() and cur.creator()[0].key != root.key:
                cur = cur.creator()[0]
            for bi, t in root.calls():
                for a in t["args"]:
                    x = strip_refs(root.trace(a))
                    if x[0] == "agg" and x[1].get("closure") == cur.key:
                        iter_blocks.add(bi)
        elif k == "loop" and s.body.key == root.key:
            for (h, blocks, srcs) in PN.loops_of(root):
                if s.bi in blocks:
                    iter_blocks.add(h)
    # list parser / parse through adaptor = pre-pass
    for s in interp:
        c = callee_of(s.term)
        key = c["key"]
        is_list = key in {lb.key for lb in roles.list_parsers}
        ctxk = u.per_element(s)
        if key == eval_key:
            s2d = p.s2.get((s.body.key, s.bi))
            dtags = set(s2d.tags) if s2d else set()
            ctx.check(dtags == {"DATA"}, K2 + ".against-the-data", "%s: operand evaluated against the operator's own data (%s, %s)" % (name, s.where(), cfg),
                      "%s evaluates an operand against a value with provenance %s instead of the data it was given" % (name, sorted(dtags)), where=s.where(), fn=s.body.key, nontrivial=True)
        tags = set()
        if key in sink_keys:
            sk = p.s1.get((s.body.key, s.bi, key, roles.sinks[key][0]))
            tags = sk.tags if sk else set()
        elif key == eval_key:
            s2 = p.s2.get((s.body.key, s.bi))
            tags = s2.extra["receiver"] if s2 else set()
        generic_rule = "RULE" in tags  # drawn from the operand list as a whole (iteration), not args[c]
        if is_list:
            ctx.fail(K2 + ".no-prepass", "%s|list-parser" % name, "%s parses its whole operand list up front: a malformed operand after the deciding one makes the operation fail" % name, where=s.where(), fn=s.body.key)
            continue
        # (which operands a site touches, and that no operand is evaluated twice, is decided below on operand
        #  descriptors — rules/operands.py — not on whether the site is written inside a loop or a closure)
    # parser fn items handed to adaptors (`.map(Parsed::from_value)`)
    for b in u.bodies:
        for bi, t in b.calls():
            for a in t["args"]:
                c = op_const(a)
                if c and "fn" in c:
                    r = c["fn"].get("resolved") or c["fn"]
                    if r.get("key") in sink_keys:
                        ctx.fail(K2 + ".no-prepass", "%s|mapped-parser" % name, "%s maps the parser over its operands (a pre-pass over all operands)" % name, where=b.where(bi), fn=b.key)
    # ---- K3: per-element bodies
    pe_bodies = {}
    for s in interp:
        k = u.per_element(s)
        if k == "closure":
            # the outermost closure handed to the adaptor
            cur = s.body
            while cur.kind == "closure" and cur.creator() and cur.creator()[0].key != root.key:
                cur = cur.creator()[0]
            pe_bodies[cur.key] = cur
        elif k == "loop":
            pe_bodies[s.body.key] = s.body
    if not pe_bodies:
        ctx.unread(K3 + ".skippable", "%s (%s)" % (name, cfg), "%s walks its operands neither in a loop nor through an iterator adaptor: whether operands after the deciding one are skipped is not read" % name, where=root.where(), fn=root.key)
    is_interp = lambda t: callee_of(t) is not None and (callee_of(t).get("key") in sink_keys or callee_of(t).get("key") in roles.evaluators)
    is_eval = lambda t: callee_of(t) is not None and callee_of(t).get("key") in roles.evaluators
    for k, b in pe_bodies.items():
        if b.kind == "closure":
            # a *success* path: error propagation (`?` residuals) does not count as the 'already decided' path
            is_blocked = lambda t: is_interp(t) or "from_residual" in (callee_path(t) or "")
            skip = path_avoiding(b, is_blocked)
            ctx.check(skip, K3 + ".skippable", "%s: per-element closure has a path without parse/evaluate (%s)" % (name, cfg),
                      "every path through %s's per-element code parses or evaluates its operand: operands after the deciding one are still evaluated" % name, where=b.where(), fn=b.key, nontrivial=True)
        else:
            # loop form: an exit out of the loop other than the iterator's None edge (early return)
            early = False
            for (h, blocks, srcs) in PN.loops_of(b):
                evs = [bi for bi in blocks if b.blocks[bi]["term"]["k"] == "Call" and is_eval(b.blocks[bi]["term"])]
                if not evs:
                    continue
                for bi in blocks:
                    for sx in b.succs(bi):
                        if sx not in blocks and any(b.dominates(ev, bi) for ev in evs):
                            early = True
            ctx.check(early, K3 + ".skippable", "%s: the operand loop can be left after an evaluation (%s)" % (name, cfg),
                      "%s's loop over the operands has no early exit after evaluating an element" % name, where=b.where(), fn=b.key, nontrivial=True)
    at_most_once(ctx, facts, roles, u, name, cfg, K2)
    u.iter_blocks = iter_blocks
    return u


def OD_unknown(v):
    return v[0] == "unknown" or any(isinstance(x, tuple) and OD_unknown(x) for x in v[1:])


def at_most_once(ctx, facts, roles, u, name, cfg, K2="K2"):
    """No operand of the operand list is evaluated twice: evaluation sites whose operand descriptors are not
    disjoint must not both run for the same operand (rules/operands.py)."""
    from . import operands as OD
    from .core import strip_payload
    root = u.root
    eval_key = roles.parsed_evaluate
    sink_keys = set(roles.sinks)
    args_param = None
    for l in range(1, root.arg_count + 1):
        if "std::vec::Vec<&" in root.local_ty(l):
            args_param = l
    ctx.need(args_param is not None, "%s: operand-list parameter not identified" % name)
    sites = []
    interp_keys = set(roles.evaluators) | sink_keys | ({roles.conv.key} if getattr(roles, "conv", None) is not None else set())

    def anchor_of(b, bi):
        """Block of the root function at which code at (b, bi) runs (through closures and helper calls)."""
        cur, anchor = b, bi
        hops = 0
        while cur.key != root.key and hops < 8:
            hops += 1
            if cur.kind == "closure" and cur.creator():
                parent = cur.creator()[0]
                anchor = None
                for bj, t in parent.calls():
                    for a_ in t["args"]:
                        xa = strip_refs(parent.trace(a_))
                        if xa[0] == "agg" and xa[1].get("closure") == cur.key:
                            anchor = bj
                if anchor is None:
                    for bj, sj, st in parent.stmts():
                        if st["k"] == "Assign" and st["rv"]["k"] == "Aggregate" and st["rv"].get("closure") == cur.key:
                            anchor = bj
                cur = parent
                if anchor is None:
                    return None
            else:
                return None
        return anchor if cur.key == root.key else None

    def add_site(sx, b, x, at_body, at_bi, depth=0):
        """x: operand reference expression, x-traced in body b; (at_body, at_bi): where the evaluation happens as seen
        from the unit's root (the helper's call site when the evaluation sits in a helper)."""
        if x is not None and depth < 4:
            owner = b
            while owner.kind == "closure" and owner.creator():
                owner = owner.creator()[0]
            if owner.key != root.key and owner.kind == "fn" and expr_mentions(x, lambda y: y[0] == "arg"):
                # the operand is stated in terms of a helper's parameters: one site per call of the helper, with the
                # parameters replaced by what the caller passes
                callers = [s2 for s2 in u.calls(lambda c, _k=owner.key: c.get("key") == _k)]
                if callers:
                    for s2 in callers:
                        def sub(e_):
                            if not isinstance(e_, tuple):
                                return e_
                            if e_[0] == "arg" and isinstance(e_[1], int) and e_[1] - 1 < len(s2.term["args"]):
                                return s2.body.xtrace(s2.term["args"][e_[1] - 1])
                            return tuple([sub(y) for y in z] if isinstance(z, list) else sub(z) for z in e_)
                        add_site(sx, s2.body, sub(x), s2.body, s2.bi, depth + 1)
                    return
        d = OD.describe(b, x, args_param) if x is not None else OD.Descriptor("unknown", None, text="evaluated value is not the result of a parse at this site")
        if x is not None and (d.kind == "unknown" or (d.view is not None and d.view[0] == "unknown")):
            # not an operand of the list itself but something inside the *value* of one (the members of an evaluated
            # collection): which members are rule text is C14's clause, not a second evaluation of the operand
            if expr_mentions(x, lambda y: y[0] == "call" and y[1] is not None and y[1].get("key") in interp_keys) or (
                    d.src is not None and expr_mentions(d.src, lambda y: y[0] == "call" and y[1] is not None and y[1].get("key") in interp_keys)):
                return
        sites.append((Site_(at_body, at_bi), d, anchor_of(at_body, at_bi), at_body))

    class Site_:
        def __init__(self, body, bi):
            self.body, self.bi = body, bi

        def where(self):
            return self.body.where(self.bi)
    for sx in u.calls(lambda c: c.get("key") == eval_key):
        b = sx.body
        recv = strip_payload(strip_refs(b.xtrace(sx.term["args"][0])))
        x = None
        if recv[0] == "call" and recv[1] and recv[1].get("key") in sink_keys and recv[2]:
            pos = roles.sinks[recv[1]["key"]][0]
            x = recv[2][pos - 1] if len(recv[2]) >= pos else recv[2][-1]
        add_site(sx, b, x, b, sx.bi)
    ctx.count("%s: evaluation sites with operand descriptors (%s)" % (name, cfg), [repr(d) for _, d, _, _ in sites])

    def same_iteration_reach(body, frm, to):
        """to reachable from frm without taking a back edge (i.e. inside one iteration / one call)."""
        back = set(body.back_edges())
        seen, st = set(), [frm]
        while st:
            x = st.pop()
            for y in body.succs(x):
                if (x, y) in back or y in seen:
                    continue
                seen.add(y)
                st.append(y)
        return to in seen
    for i in range(len(sites)):
        for j in range(i + 1, len(sites)):
            (s1, d1, a1, b1), (s2, d2, a2, b2) = sites[i], sites[j]
            if OD.disjoint(d1, d2):
                ctx.ok(K2 + ".at-most-once", "%s: %s and %s denote different operands (%s)" % (name, d1, d2, cfg), nontrivial=True)
                continue
            # can one run execute both for the same operand?
            same_iter = d1.kind == "elem" and d2.kind == "elem" and d1.iteration == d2.iteration
            if b1.key == b2.key:
                co = same_iteration_reach(b1, s1.bi, s2.bi) or same_iteration_reach(b1, s2.bi, s1.bi) if same_iter or b1.kind == "closure" else (s2.bi in b1.reachable(s1.bi) or s1.bi in b1.reachable(s2.bi))
            elif a1 is None or a2 is None:
                co = True
            elif a1 == a2:
                co = True
            else:
                co = a2 in root.reachable(a1) or a1 in root.reachable(a2)
            if not co:
                ctx.ok(K2 + ".at-most-once", "%s: %s / %s never run for the same operand (%s)" % (name, s1.where(), s2.where(), cfg), nontrivial=True)
                continue
            view_unknown = lambda d_: d_.kind == "unknown" or (d_.view is not None and OD_unknown(d_.view))
            if (view_unknown(d1) or view_unknown(d2)) and not same_iter:
                ctx.unread(K2 + ".at-most-once", "%s: %s ~ %s (%s)" % (name, s1.where(), s2.where(), cfg), "cannot tell which operands the evaluations at %s (%s) and %s (%s) denote" % (s1.where(), d1, s2.where(), d2), where=s2.where(), fn=b2.key)
                continue
            ctx.fail(K2 + ".per-element", "%s: evaluate at %s and at %s (%s)" % (name, s1.where().rsplit(":", 1)[0], s2.where().rsplit(":", 1)[0], cfg),
                     "%s can evaluate one operand twice: the evaluation at %s denotes %s, the one at %s denotes %s, and one run can reach both" % (name, s1.where(), d1, s2.where(), d2), where=s2.where(), fn=b2.key)
    if len(sites) == 1:
        ctx.ok(K2 + ".at-most-once", "%s: one evaluation site %s (%s)" % (name, sites[0][1], cfg), nontrivial=True)


def run(ctx):
    ctx.explanation = __doc__
    ctx.rule = "instances = table facts, parse/evaluate call sites of the three functions with their per-element context, path facts of the per-element bodies, constructed values; non-trivial = needs CFG path reasoning or provenance"
    ctx.trusted = ["rustc MIR", "C06 for the truthiness table itself"]
    from . import manifest as _MF
    _MF.same_library_clause(ctx, "K4.number-model")
    cfgs = ["default"] if ctx.tier == "quick" else ["default", "python", "wasm"]
    for cfg in cfgs:
        facts = ctx.facts(cfg)
        roles = Roles(facts)
        e_if, e_alt, e_and, e_or = (T.entry(roles.tables, k) for k in ("if", "?:", "and", "or"))
        ctx.need(all((e_if, e_alt, e_and, e_or)), "one of if/?:/and/or is not bound")
        ctx.check(e_if.fn_key == e_alt.fn_key and e_if.num == e_alt.num and e_if.table is e_alt.table, "K1.alias", "?: ≡ if (%s)" % cfg,
                  "`?:` is bound to %s/%s and `if` to %s/%s" % (e_alt.fn_path, e_alt.num, e_if.fn_path, e_if.num), where=facts.body(e_if.table.const_key).where(), nontrivial=True)
        for e in (e_if, e_alt, e_and, e_or):
            ctx.check(e.table.role == "lazy", "K1.lazy", "%s is a lazy-table entry (%s)" % (e.key, cfg), "%r is in the %s table: all its operands are evaluated before it runs" % (e.key, e.table.role), where=facts.body(e.table.const_key).where())
        ctx.check(len({e_if.fn_key, e_and.fn_key, e_or.fn_key}) == 3, "K1.distinct", "if, and, or have their own implementations (%s)" % cfg, "two of if/and/or share one function", where=facts.body(e_if.table.const_key).where())
        p = P.Prov(roles).run()
        # the lazy operation evaluator hands (data, stored operands) to the operator once and returns its result as it is:
        # nothing between the table and the operator can fail, count or remember on its own
        from .c04 import operator_receives_operand_list
        operator_receives_operand_list(ctx, facts, roles, e_if.table, cfg, "K1")
        for name, e in (("if", e_if), ("and", e_and), ("or", e_or)):
            u = once_per_use(ctx, facts, roles, p, cfg, name, e)
            root = u.root
            sink_keys = set(roles.sinks)
            # ---- K5: the data is only ever handed to the evaluator (no private look-ups that could disagree with it)
            for bb in u.bodies:
                for bi, t in bb.calls():
                    c = callee_of(t)
                    if c is None:
                        continue
                    for a in t["args"]:
                        if a["k"] in ("Copy", "Move") and bb.local_ty(a["place"]["local"]).endswith("serde_json::Value") and "DATA" in p.op_tags(bb, a) and "EVAL" not in p.op_tags(bb, a):
                            own = {x.key for x in roles.unit(e.fn_key)}
                            evaluating_helper = c.get("key") in u.keys and bool(facts.reach([c["key"]]) & set(roles.evaluators))
                            okc = c.get("key") in roles.evaluators or c.get("key") in own or evaluating_helper
                            ctx.check(okc, "K5.data-only-to-evaluator", "%s|%s" % (name, c["path"].split("::<")[0]),
                                      "%s hands the data to %s instead of only evaluating its operands against it" % (name, c["path"]), where=bb.where(bi), fn=bb.key, nontrivial=True)
            # ---- K4: constructed values
            aggs = u.value_aggregates()
            consts = u.const_items()
            if name in ("and", "or"):
                for (b, bi, si, variant) in aggs:
                    ctx.fail("K4.value-itself", "%s|Value::%s" % (name, variant), "%s constructs a JSON %s instead of returning an operand's value" % (name, variant), where=b.where(bi, si), fn=b.key)
                for (b, bi, si, item) in consts:
                    if facts.items.get(item, {}).get("ty") == "serde_json::Value":
                        ctx.fail("K4.value-itself", "%s|const %s" % (name, item.split("::", 1)[1]), "%s returns the constant %s instead of an operand's value" % (name, item), where=b.where(bi, si), fn=b.key)
                if not aggs:
                    ctx.ok("K4.value-itself", "%s constructs no JSON value (%s)" % (name, cfg), nontrivial=True)
                # every successful result is (a plumbing of) an evaluation result: it mentions an evaluate call or the
                # iteration that contains the per-element evaluation — never an operand taken as it stands in the rule
                r0 = strip_refs(root.trace(0))
                cands0 = [strip_refs(x) for x in r0[2]] if r0[0] == "phi" else [r0]
                for c0 in cands0:
                    if (c0[0] == "agg" and c0[1].get("variant") == "Err") or (c0[0] == "call" and c0[1] and "from_residual" in c0[1]["path"]):
                        continue
                    from_eval = expr_mentions(c0, lambda y: y[0] == "call" and y[1] and (y[1].get("key") in roles.evaluators or y[3] in u.iter_blocks))
                    ctx.check(from_eval, "K4.result-is-evaluated", "%s: a successful result comes out of an evaluation (%s)" % (name, cfg),
                              "%s can return %s — an operand as written in the rule (or something else that was never evaluated)" % (name, show_expr(c0)[:120]), where=root.where(), fn=root.key, nontrivial=True)
                rt = p.tags.get((root.key, 0), set())
                ctx.check("EVAL" in rt, "K4.returns-evaluated", "%s returns an evaluation result (%s)" % (name, cfg), "%s's result has provenance %s" % (name, sorted(rt)), where=root.where(), fn=root.key, nontrivial=True)
            else:
                bad = [(b, bi, si, v) for (b, bi, si, v) in aggs if v != "Null"]
                for (b, bi, si, variant) in bad:
                    ctx.fail("K4.value-itself", "%s|Value::%s" % (name, variant), "if constructs a JSON %s: it must return the selected operand's value (or null)" % variant, where=b.where(bi, si), fn=b.key)
                if not bad:
                    ctx.ok("K4.value-itself", "if constructs no JSON value other than null (%s)" % cfg, nontrivial=True)
