#!/usr/bin/env python3
"""C05 — if / ?: / and / or select and evaluate only the deciding operands.

Structural necessary conditions, each of which breaks the behaviour when violated:
  K1  table: `if` and `?:` are bound to the same function with the same arity;
      if, ?:, and, or sit in the lazy table (an eager table entry would have all
      operands evaluated by the operation evaluator before the operator runs);
  K2  no pre-pass: in the three functions every parse (S1) and every evaluation
      of an operand drawn from the operand list happens per element — inside the
      loop body / the closure handed to the iterator consumer — never through the
      list parser or a map-and-collect over the whole operand list; the only
      parses outside the per-element code are `if`'s explicit prologue on a
      constant operand index;
  K3  skippable and at most once: the per-element code has a path that performs
      no parse and no evaluation (the 'already decided' path, or an early exit
      out of the loop), and no path evaluates more than once per element;
  K4  the value itself: in and/or no JSON value is constructed (no Bool/Null/…
      aggregate, no named constant) — every Ok result derives from an evaluation
      result; in if/?: the only constructed value is the null constant;
  K5  the data is handed only to the evaluator (no private look-up whose notion of a
      value could disagree with evaluation); truthiness through the shared table (C06 K1).
Not decided: that conditions sit at even and branches at odd positions, and the
polarity of the accumulator tests (value-level).
"""
import re
from .core import callee_of, callee_path, strip_refs, show_expr, op_const, expr_mentions
from .engine import Inconclusive
from .roles import Roles
from .opfacts import Unit, Site, max_calls_on_a_path, path_avoiding
from . import prov as P
from . import table as T
from . import panic as PN


def once_per_use(ctx, facts, roles, p, cfg, name, e, K2="K2", K3="K3"):
    """Operands of if / and / or are drawn from the operand list only inside per-element code (no pre-pass,
    nothing touched again after the iteration), which has a success path without parse/evaluate and at most
    one evaluation per element.  Returns the unit."""
    u = Unit(roles, e.fn_key, extended=True)
    root = u.root
    sink_keys = set(roles.sinks)
    eval_key = roles.parsed_evaluate
    interp = [s for s in u.calls(lambda c: c.get("key") in sink_keys or c.get("key") in roles.evaluators)]
    ctx.need(interp, "%s never calls the interpreter" % name)
    # where the iteration over the operand list starts in the root function: calls that receive a per-element
    # closure, and headers of loops containing per-element code
    iter_blocks = set()
    expanded = []
    for s in interp:
        # an interpreter call that sits in a helper function stands for the helper's call sites in the unit
        todo, hops = [s], 0
        while todo and hops < 4:
            hops += 1
            nxt = []
            for s_ in todo:
                if u.per_element(s_) == "helper":
                    owner = s_.body
                    while owner.kind == "closure" and owner.creator():
                        owner = owner.creator()[0]
                    nxt.extend(s2 for s2 in u.calls(lambda c, _k=owner.key: c.get("key") == _k))
                else:
                    expanded.append(s_)
            todo = nxt
    for s in expanded:
        k = u.per_element(s)
        if k == "closure":
            cur = s.body
            while cur.kind == "closure" and cur.creator() and cur.creator()[0].key != root.key:
                cur = cur.creator()[0]
            for bi, t in root.calls():
                for a in t["args"]:
                    x = strip_refs(root.trace(a))
                    if x[0] == "agg" and x[1].get("closure") == cur.key:
                        iter_blocks.add(bi)
        elif k == "loop" and s.body.key == root.key:
            for (h, blocks, srcs) in PN.loops_of(root):
                if s.bi in blocks:
                    iter_blocks.add(h)
    # list parser / parse through adaptor = pre-pass
    for s in interp:
        c = callee_of(s.term)
        key = c["key"]
        is_list = key in {lb.key for lb in roles.list_parsers}
        ctxk = u.per_element(s)
        if key == eval_key:
            s2d = p.s2.get((s.body.key, s.bi))
            dtags = set(s2d.tags) if s2d else set()
            ctx.check(dtags == {"DATA"}, K2 + ".against-the-data", "%s: operand evaluated against the operator's own data (%s, %s)" % (name, s.where(), cfg),
                      "%s evaluates an operand against a value with provenance %s instead of the data it was given" % (name, sorted(dtags)), where=s.where(), fn=s.body.key, nontrivial=True)
        tags = set()
        if key in sink_keys:
            sk = p.s1.get((s.body.key, s.bi, key, roles.sinks[key][0]))
            tags = sk.tags if sk else set()
        elif key == eval_key:
            s2 = p.s2.get((s.body.key, s.bi))
            tags = s2.extra["receiver"] if s2 else set()
        generic_rule = "RULE" in tags  # drawn from the operand list as a whole (iteration), not args[c]
        if is_list:
            ctx.fail(K2 + ".no-prepass", "%s|list-parser" % name, "%s parses its whole operand list up front: a malformed operand after the deciding one makes the operation fail" % name, where=s.where(), fn=s.body.key)
            continue
        # (which operands a site touches, and that no operand is evaluated twice, is decided below on operand
        #  descriptors — rules/operands.py — not on whether the site is written inside a loop or a closure)
    # parser fn items handed to adaptors (`.map(Parsed::from_value)`)
    for b in u.bodies:
        for bi, t in b.calls():
            for a in t["args"]:
                c = op_const(a)
                if c and "fn" in c:
                    r = c["fn"].get("resolved") or c["fn"]
                    if r.get("key") in sink_keys:
                        ctx.fail(K2 + ".no-prepass", "%s|mapped-parser" % name, "%s maps the parser over its operands (a pre-pass over all operands)" % name, where=b.where(bi), fn=b.key)
    # ---- K3: operands after the deciding one are skipped
    skippable(ctx, facts, roles, u, name, cfg, K3, expanded)
    at_most_once(ctx, facts, roles, u, name, cfg, K2)
    u.iter_blocks = iter_blocks
    return u


# iterator consumers that stop as soon as the per-element code answers with a certain result (API knowledge):
#   method -> (results that stop the iteration, results that let it go on); an Err result is an error, not a decision
SHORT_CIRCUIT = {
    "find_map": ({"Some"}, {"None"}), "map_while": ({"None"}, {"Some"}), "take_while": ({False}, {True}),
    "any": ({True}, {False}), "find": ({True}, {False}), "position": ({True}, {False}), "rposition": ({True}, {False}),
    "all": ({False}, {True}),
    # the try_* consumers stop at the first residual of the closure's Try type — Break, None, and for a Result the Err the
    # closure builds itself (`Err(Halt::Decided(v))`: a decision carried in the Err channel; an Err that a `?` hands on
    # is someone else's error and no decision — it is never under a verdict anyway)
    "try_fold": ({"Break", "None", "Err"}, {"Continue", "Some", "Ok"}), "try_for_each": ({"Break", "None", "Err"}, {"Continue", "Some", "Ok"}),
    "try_rfold": ({"Break", "None", "Err"}, {"Continue", "Some", "Ok"}),
}
EXHAUSTIVE = {"fold", "rfold", "for_each", "map", "filter", "filter_map", "flat_map", "inspect", "scan", "skip_while", "partition", "max_by_key", "min_by_key"}


def skippable(ctx, facts, roles, u, name, cfg, K3, expanded):
    """Operands after the deciding one are neither parsed nor evaluated.  Stated on the paths of the code that runs
    once per operand (whether that is a closure handed to an iterator consumer, a loop body, or a helper called from
    either):  (a) there is a success path through it on which nothing is parsed or evaluated — the 'already decided'
    path of an accumulation that visits every operand —, or  (b) a truthiness verdict on the evaluated operand
    decides whether the iteration goes on: two success paths that differ in the verdict of the shared truthiness
    function, one of which continues the iteration while the other one ends it (a `return`/`break` out of a loop, the
    stopping answer of a short-circuiting consumer).  An exit that only an error takes is not a decision."""
    from . import pathsum
    from .c06 import truthy_role, forwarders
    root = u.root
    sink_keys = set(roles.sinks)
    interp_keys = sink_keys | set(roles.evaluators)
    try:
        tb = truthy_role(roles)
        truthy_keys = {tb.key} | forwarders(roles, tb)
    except Inconclusive:
        truthy_keys = set()
    key = "%s (%s)" % (name, cfg)
    memo = {}

    def must_interpret(t):
        """The call `t` parses or evaluates on every one of its success paths."""
        c = callee_of(t)
        if c is None:
            return False
        if c.get("key") in interp_keys:
            return True
        if c.get("local") and c.get("key") in u.keys:
            hb = facts.body(c["key"])
            if hb is not None and hb.kind == "fn":
                return not can_skip(hb)
        return False

    def can_skip(b):
        if b.key in memo:
            return memo[b.key]
        memo[b.key] = True      # recursion: assume skippable (the recursive call adds no evaluation of its own)
        memo[b.key] = path_avoiding(b, lambda t: must_interpret(t) or "from_residual" in (callee_path(t) or ""))
        return memo[b.key]

    vmemo = {}

    def yields_verdict(k):
        """The local function `k` answers with a truthiness verdict: a bool function that consults the shared
        truthiness function, or a function whose success payload is a bool (`Result<bool, _>`, `Option<bool>`) and
        every successful result of which is computed from a verdict of the shared function (`Ok(truthy(&evaluated))`
        behind the parse and the evaluation of a condition)."""
        if k in truthy_keys:
            return True
        if k in vmemo:
            return vmemo[k]
        vmemo[k] = False
        out = facts.items.get(k, {}).get("output") or ""
        if out == "bool":
            vmemo[k] = bool(facts.reach([k]) & truthy_keys)
        elif re.match(r"^(std|core)::(result::Result<bool, .*>|option::Option<bool>)$", out):
            hb = facts.body(k)
            if hb is not None and hb.kind == "fn":
                r = strip_refs(hb.trace(0))
                alts = [strip_refs(x) for x in r[2]] if r[0] == "phi" else [r]
                good, other = 0, 0
                for a in alts:
                    if a[0] == "agg" and a[1].get("variant") in ("Ok", "Some") and a[2]:
                        if expr_mentions(a[2][0], lambda y: y[0] == "call" and y[1] is not None and y[1].get("local") and yields_verdict(y[1].get("key"))):
                            good += 1
                        else:
                            other += 1
                    elif (a[0] == "agg" and a[1].get("variant") in ("Err", "None")) or (a[0] == "call" and a[1] and "from_residual" in a[1]["path"]):
                        continue
                    else:
                        other += 1
                vmemo[k] = good >= 1 and other == 0
        return vmemo[k]

    def is_verdict(b, bi):
        t = b.blocks[bi]["term"]
        c = callee_of(t) if t["k"] == "Call" else None
        if not c or not c.get("local"):
            return False
        return yields_verdict(c["key"])

    def result_kind(b, e):
        """Outer constructor / boolean constant of a result expression; "verdict" for an expression that is computed
        from a truthiness verdict; "error"; None = not read."""
        e = strip_refs(e) if e is not None else None
        if e is None:
            return None
        if e[0] == "agg" and e[1].get("variant"):
            return e[1]["variant"]          # "Err": an error value built here (a `?` handing on someone else's error is "error")
        if e[0] == "const":
            from .core import const_value
            v = const_value(e[1])
            return v if isinstance(v, bool) else None
        if e[0] == "call" and e[1] and "from_residual" in e[1]["path"]:
            return "error"
        if expr_mentions(e, lambda y: y[0] == "call" and y[1] is not None and y[1].get("key") in truthy_keys):
            return "verdict"
        return None

    def split(b, stops, conts):
        """A truthiness verdict on which a stopping and a continuing path disagree."""
        for ps in stops:
            for pc in conts:
                for k_, v_ in ps.atoms.items():
                    if isinstance(v_, bool) and pc.atoms.get(k_) == (not v_) and verdict_atom(b, k_):
                        return True
        return False

    def verdict_atom(b, k_):
        """The branch condition is a truthiness verdict, or is computed from one (`truthy(v) == stop_on`, `!truthy(v)`)."""
        if k_[0] == "site":
            if is_verdict(b, k_[1]):
                return True
            # a private bool function *of the verdict* (`self.is_settled_by(truthy(..))`, `stops(kind, verdict)`): it is
            # handed a truthiness verdict and no JSON value, so what it answers is computed from the verdict
            t_ = b.blocks[k_[1]]["term"]
            c_ = callee_of(t_) if t_["k"] == "Call" else None
            if c_ and c_.get("local") and facts.items.get(c_["key"], {}).get("output") == "bool" \
                    and not any("serde_json::Value" in x_ or "Evaluated" in x_ for x_ in (facts.items.get(c_["key"], {}).get("inputs") or [])):
                return any(expr_mentions(b.trace(a_), lambda y: y[0] == "call" and y[1] is not None and (y[1].get("key") in truthy_keys or (y[1].get("local") and yields_verdict(y[1]["key"])))) for a_ in t_["args"])
            return False
        vk = set(truthy_keys) | {hk for hk in u.keys if hk not in truthy_keys and facts.body(hk) is not None and facts.body(hk).kind == "fn" and facts.items.get(hk, {}).get("output") != "bool" and yields_verdict(hk)}
        return any(isinstance(x, str) and any((tk + "@") in x for tk in vk) for x in k_[1:])

    # the code that runs once per operand
    pe = {}       # key -> (kind, body, extra)
    for s in expanded:
        k = u.per_element(s)
        if k == "closure":
            cur, found = s.body, None
            while cur.kind == "closure":
                if _handed_to_adaptor(cur):
                    found = cur       # the outermost closure handed to an iterator method
                cr = cur.creator()
                if not cr:
                    break
                cur = cr[0]
            if found is not None:
                pe[found.key] = ("closure", found, _handed_to_adaptor(found))
        elif k == "loop":
            for (h, blocks, srcs) in PN.loops_of(s.body):
                if s.bi in blocks:
                    pe[(s.body.key, h)] = ("loop", s.body, (h, blocks))
                    break
    if not pe:
        ctx.unread(K3 + ".skippable", key, "%s walks its operands neither in a loop nor through an iterator adaptor: whether operands after the deciding one are skipped is not read" % name, where=root.where(), fn=root.key)
        return
    for pk, (kind, b, extra) in sorted(pe.items(), key=lambda kv: str(kv[0])):
        if kind == "closure":
            meth = (extra or "").rsplit("::", 1)[-1]
            if can_skip(b):
                ctx.ok(K3 + ".skippable", "%s: per-element code has a success path without parse/evaluate (%s)" % (name, cfg), nontrivial=True)
                continue
            if meth in SHORT_CIRCUIT:
                w = pathsum.summarize(b, max_paths=800)
                if w.overflow or not w.paths:
                    ctx.unread(K3 + ".skippable", key, "the code handed to %s has too many paths to read" % meth, where=b.where(), fn=b.key)
                    continue
                stop_v, cont_v = SHORT_CIRCUIT[meth]
                stops, conts, verdicts, unread_r = [], [], [], []
                for p_ in w.paths:
                    if p_.truncated:
                        continue
                    rk = result_kind(b, p_.result)
                    if rk == "error" or (rk == "Err" and "Err" not in stop_v):
                        continue
                    if rk == "verdict":
                        verdicts.append(p_)
                    elif rk in stop_v:
                        stops.append(p_)
                    elif rk in cont_v:
                        conts.append(p_)
                    else:
                        unread_r.append(show_expr(strip_refs(p_.result))[:60] if p_.result is not None else "?")
                if verdicts or split(b, stops, conts):
                    ctx.ok(K3 + ".skippable", "%s: a truthiness verdict ends the iteration (%s through %s)" % (name, cfg, meth), nontrivial=True)
                elif unread_r:
                    ctx.unread(K3 + ".skippable", key, "results of the code handed to %s not read: %s" % (meth, unread_r[:2]), where=b.where(), fn=b.key)
                else:
                    ctx.fail(K3 + ".skippable", "%s: per-element closure has a path without parse/evaluate (%s)" % (name, cfg),
                             "every path through %s's per-element code parses or evaluates its operand, and no truthiness verdict makes %s stop (stopping results on %d paths, continuing on %d): operands after the deciding one are still evaluated" % (name, meth, len(stops), len(conts)), where=b.where(), fn=b.key)
            elif meth in EXHAUSTIVE:
                ctx.fail(K3 + ".skippable", "%s: per-element closure has a path without parse/evaluate (%s)" % (name, cfg),
                         "every path through %s's per-element code parses or evaluates its operand (%s visits every operand): operands after the deciding one are still evaluated" % (name, meth), where=b.where(), fn=b.key)
            else:
                ctx.unread(K3 + ".skippable", key, "per-element code handed to %s: not known whether it stops early" % (extra or "?"), where=b.where(), fn=b.key)
        else:
            h, blocks = extra
            is_eval = lambda t: callee_of(t) is not None and callee_of(t).get("key") in roles.evaluators
            # (a) an iteration that touches nothing: header → back edge without a blocked call
            back_srcs = {x for x in blocks if h in b.succs(x)}
            seen, st, free_iter = set(), [h], False
            while st:
                x = st.pop()
                if x in seen or x not in blocks:
                    continue
                seen.add(x)
                t = b.blocks[x]["term"]
                if t["k"] == "Call" and (must_interpret(t) or "from_residual" in (callee_path(t) or "")):
                    continue
                if x in back_srcs:
                    free_iter = True
                    break
                st.extend(y for y in b.succs(x) if y != h)
            # does the loop body interpret at all between header and back edge? (a loop whose iterations all are free is no evidence)
            if free_iter:
                ctx.ok(K3 + ".skippable", "%s: an iteration of the operand loop can pass without parse/evaluate (%s)" % (name, cfg), nontrivial=True)
                continue
            # (b) a truthiness verdict decides between the back edge and leaving the loop
            w = pathsum.summarize(b, start=h, max_paths=1500)
            if w.overflow or not w.paths:
                ctx.unread(K3 + ".skippable", key, "the operand loop of %s has too many paths to read" % name, where=b.where(h), fn=b.key)
                continue
            stops, conts = [], []
            for p_ in w.paths:
                if p_.truncated:
                    if p_.blocks and p_.blocks[-1] == h:
                        conts.append(p_)
                    continue
                if any(k_[0] == "variant" and v_ == "None" and "::next" in k_[1] for k_, v_ in p_.atoms.items()) and not any(bx in blocks and bx != h and b.blocks[bx]["term"]["k"] == "Call" and is_eval(b.blocks[bx]["term"]) for bx in p_.blocks):
                    continue      # the iterator is exhausted
                if result_kind(b, p_.result) in ("error", "Err"):
                    continue
                stops.append(p_)
            if split(b, stops, conts):
                ctx.ok(K3 + ".skippable", "%s: a truthiness verdict ends the operand loop (%s)" % (name, cfg), nontrivial=True)
            else:
                ctx.fail(K3 + ".skippable", "%s: the operand loop can be left after an evaluation (%s)" % (name, cfg),
                         "%s's loop over the operands is never left on a truthiness verdict (leaving paths %d, continuing %d, none of them split by the shared truthiness function) and no iteration passes without parse/evaluate: operands after the deciding one are still evaluated" % (name, len(stops), len(conts)), where=b.where(h), fn=b.key)


def _handed_to_adaptor(cb):
    """Path of the iterator method the closure `cb` is handed to in its creator, or None."""
    from .opfacts import ITER_ADAPTOR
    cr = cb.creator()
    if cr is None:
        return None
    parent = cr[0]
    for bi, t in parent.calls():
        p = callee_path(t) or ""
        if ("Iterator" in p or "iter::" in p) and any(strip_refs(parent.trace(a))[0] == "agg" and strip_refs(parent.trace(a))[1].get("closure") == cb.key for a in t["args"]):
            return p
    return None


def OD_unknown(v):
    return v[0] == "unknown" or any(isinstance(x, tuple) and OD_unknown(x) for x in v[1:])


def at_most_once(ctx, facts, roles, u, name, cfg, K2="K2"):
    """No operand of the operand list is evaluated twice: evaluation sites whose operand descriptors are not
    disjoint must not both run for the same operand (rules/operands.py)."""
    from . import operands as OD
    from .core import strip_payload
    root = u.root
    eval_key = roles.parsed_evaluate
    sink_keys = set(roles.sinks)
    args_param = None
    for l in range(1, root.arg_count + 1):
        if "std::vec::Vec<&" in root.local_ty(l):
            args_param = l
    ctx.need(args_param is not None, "%s: operand-list parameter not identified" % name)
    sites = []
    interp_keys = set(roles.evaluators) | sink_keys | ({roles.conv.key} if getattr(roles, "conv", None) is not None else set())

    def anchor_of(b, bi):
        """Block of the root function at which code at (b, bi) runs (through closures and helper calls)."""
        cur, anchor = b, bi
        hops = 0
        while cur.key != root.key and hops < 8:
            hops += 1
            if cur.kind == "closure" and cur.creator():
                parent = cur.creator()[0]
                anchor = None
                for bj, t in parent.calls():
                    for a_ in t["args"]:
                        xa = strip_refs(parent.trace(a_))
                        if xa[0] == "agg" and xa[1].get("closure") == cur.key:
                            anchor = bj
                if anchor is None:
                    for bj, sj, st in parent.stmts():
                        if st["k"] == "Assign" and st["rv"]["k"] == "Aggregate" and st["rv"].get("closure") == cur.key:
                            anchor = bj
                cur = parent
                if anchor is None:
                    return None
            else:
                return None
        return anchor if cur.key == root.key else None

    def add_site(sx, b, x, at_body, at_bi, depth=0):
        """x: operand reference expression, x-traced in body b; (at_body, at_bi): where the evaluation happens as seen
        from the unit's root (the helper's call site when the evaluation sits in a helper)."""
        if x is not None and depth < 4:
            owner = b
            while owner.kind == "closure" and owner.creator():
                owner = owner.creator()[0]
            if owner.key != root.key and owner.kind == "fn" and expr_mentions(x, lambda y: y[0] == "arg"):
                # the operand is stated in terms of a helper's parameters: one site per call of the helper, with the
                # parameters replaced by what the caller passes
                callers = [s2 for s2 in u.calls(lambda c, _k=owner.key: c.get("key") == _k)]
                if callers:
                    for s2 in callers:
                        def sub(e_):
                            if not isinstance(e_, tuple):
                                return e_
                            if e_[0] == "arg" and isinstance(e_[1], int) and e_[1] - 1 < len(s2.term["args"]):
                                return s2.body.xtrace(s2.term["args"][e_[1] - 1])
                            return tuple([sub(y) for y in z] if isinstance(z, list) else sub(z) for z in e_)
                        add_site(sx, s2.body, sub(x), s2.body, s2.bi, depth + 1)
                    return
        d = OD.describe(b, x, args_param) if x is not None else OD.Descriptor("unknown", None, text="evaluated value is not the result of a parse at this site")
        if x is not None and (d.kind == "unknown" or (d.view is not None and d.view[0] == "unknown")):
            # not an operand of the list itself but something inside the *value* of one (the members of an evaluated
            # collection): which members are rule text is C14's clause, not a second evaluation of the operand
            if expr_mentions(x, lambda y: y[0] == "call" and y[1] is not None and y[1].get("key") in interp_keys) or (
                    d.src is not None and expr_mentions(d.src, lambda y: y[0] == "call" and y[1] is not None and y[1].get("key") in interp_keys)):
                return
        st_ = Site_(at_body, at_bi)
        st_.origin = sx          # the evaluation itself (inside a helper when at_body is the helper's caller)
        sites.append((st_, d, anchor_of(at_body, at_bi), at_body))

    class Site_:
        def __init__(self, body, bi):
            self.body, self.bi = body, bi

        def where(self):
            return self.body.where(self.bi)
    for sx in u.calls(lambda c: c.get("key") == eval_key):
        b = sx.body
        recv = strip_payload(strip_refs(b.xtrace(sx.term["args"][0])))
        x = None
        if recv[0] == "call" and recv[1] and recv[1].get("key") in sink_keys and recv[2]:
            pos = roles.sinks[recv[1]["key"]][0]
            x = recv[2][pos - 1] if len(recv[2]) >= pos else recv[2][-1]
        add_site(sx, b, x, b, sx.bi)
    ctx.count("%s: evaluation sites with operand descriptors (%s)" % (name, cfg), [repr(d) for _, d, _, _ in sites])

    def same_iteration_reach(body, frm, to):
        """to reachable from frm without taking a back edge (i.e. inside one iteration / one call)."""
        back = set(body.back_edges())
        seen, st = set(), [frm]
        while st:
            x = st.pop()
            for y in body.succs(x):
                if (x, y) in back or y in seen:
                    continue
                seen.add(y)
                st.append(y)
        return to in seen
    for i in range(len(sites)):
        for j in range(i + 1, len(sites)):
            (s1, d1, a1, b1), (s2, d2, a2, b2) = sites[i], sites[j]
            if OD.disjoint(d1, d2):
                ctx.ok(K2 + ".at-most-once", "%s: %s and %s denote different operands (%s)" % (name, d1, d2, cfg), nontrivial=True)
                continue
            # can one run execute both for the same operand?
            same_iter = d1.kind == "elem" and d2.kind == "elem" and d1.iteration == d2.iteration
            o1, o2 = getattr(s1, "origin", None), getattr(s2, "origin", None)
            if b1.key == b2.key and s1.bi == s2.bi and o1 is not None and o2 is not None and (o1.body.key != b1.key or o1.bi != s1.bi):
                # both evaluations sit inside one invocation of a helper (described at the helper's one call site):
                # whether one run reaches both is decided inside the helper
                if o1.body.key == o2.body.key and not same_iter and o1.body.kind != "closure":
                    # an element of the walk and an operand named after it (`args.last()` once the loop is over): the second
                    # site is reached from the first by leaving the loop — any path counts, not only those inside one iteration
                    co = o2.bi in o1.body.reachable(o1.bi) or o1.bi in o1.body.reachable(o2.bi)
                elif o1.body.key == o2.body.key:
                    co = same_iteration_reach(o1.body, o1.bi, o2.bi) or same_iteration_reach(o1.body, o2.bi, o1.bi) or o1.bi == o2.bi
                else:
                    co = True
            elif b1.key == b2.key:
                co = same_iteration_reach(b1, s1.bi, s2.bi) or same_iteration_reach(b1, s2.bi, s1.bi) if same_iter or b1.kind == "closure" else (s2.bi in b1.reachable(s1.bi) or s1.bi in b1.reachable(s2.bi))
            elif a1 is None or a2 is None:
                co = True
            elif a1 == a2:
                co = True
            else:
                co = a2 in root.reachable(a1) or a1 in root.reachable(a2)
            if not co:
                ctx.ok(K2 + ".at-most-once", "%s: %s / %s never run for the same operand (%s)" % (name, s1.where(), s2.where(), cfg), nontrivial=True)
                continue
            view_unknown = lambda d_: d_.kind == "unknown" or (d_.view is not None and OD_unknown(d_.view))
            if (view_unknown(d1) or view_unknown(d2)) and (not same_iter or d1.sub != d2.sub):
                ctx.unread(K2 + ".at-most-once", "%s: %s ~ %s (%s)" % (name, s1.where(), s2.where(), cfg), "cannot tell which operands the evaluations at %s (%s) and %s (%s) denote" % (s1.where(), d1, s2.where(), d2), where=s2.where(), fn=b2.key)
                continue
            ctx.fail(K2 + ".per-element", "%s: evaluate at %s and at %s (%s)" % (name, s1.where().rsplit(":", 1)[0], s2.where().rsplit(":", 1)[0], cfg),
                     "%s can evaluate one operand twice: the evaluation at %s denotes %s, the one at %s denotes %s, and one run can reach both" % (name, s1.where(), d1, s2.where(), d2), where=s2.where(), fn=b2.key)
    if len(sites) == 1:
        ctx.ok(K2 + ".at-most-once", "%s: one evaluation site %s (%s)" % (name, sites[0][1], cfg), nontrivial=True)


def run(ctx):
    ctx.explanation = __doc__
    ctx.rule = "instances = table facts, parse/evaluate call sites of the three functions with their per-element context, path facts of the per-element bodies, constructed values; non-trivial = needs CFG path reasoning or provenance"
    ctx.trusted = ["rustc MIR", "C06 for the truthiness table itself"]
    from . import manifest as _MF
    _MF.same_library_clause(ctx, "K4.number-model")
    # "the first truthy condition", "the first falsy operand": the selection rests on the truthiness table (same file,
    # src/op/logic.rs) — its per-kind clauses are C06's K3
    from . import c06 as _c06
    ctx.include("C06", _c06.run, "K1.truthiness", keep=lambda c: c.startswith("K3.") and c != "K3.number-model", what="the truthiness table the selection rests on")
    cfgs = ["default"] if ctx.tier == "quick" else ["default", "python", "wasm"]
    for cfg in cfgs:
        facts = ctx.facts(cfg)
        roles = Roles(facts)
        e_if, e_alt, e_and, e_or = (T.entry(roles.tables, k) for k in ("if", "?:", "and", "or"))
        ctx.need(all((e_if, e_alt, e_and, e_or)), "one of if/?:/and/or is not bound")
        ctx.check(e_if.fn_key == e_alt.fn_key and e_if.num == e_alt.num and e_if.table is e_alt.table, "K1.alias", "?: ≡ if (%s)" % cfg,
                  "`?:` is bound to %s/%s and `if` to %s/%s" % (e_alt.fn_path, e_alt.num, e_if.fn_path, e_if.num), where=facts.body(e_if.table.const_key).where(), nontrivial=True)
        for e in (e_if, e_alt, e_and, e_or):
            ctx.check(e.table.role == "lazy", "K1.lazy", "%s is a lazy-table entry (%s)" % (e.key, cfg), "%r is in the %s table: all its operands are evaluated before it runs" % (e.key, e.table.role), where=facts.body(e.table.const_key).where())
        ctx.check(len({e_if.fn_key, e_and.fn_key, e_or.fn_key}) == 3, "K1.distinct", "if, and, or have their own implementations (%s)" % cfg, "two of if/and/or share one function", where=facts.body(e_if.table.const_key).where())
        # an operand is evaluated only where control has decided that it is needed: never as the *eager argument* of a
        # default-taking combinator — `decided.unwrap_or(evaluate(last)?)`, `x.or(evaluate(..).ok())`, `cond.then_some(evaluate(..))`
        # evaluate their argument before looking at the receiver, so the operand is evaluated (errors, logs) even when an
        # earlier operand decided (seeded C05-Q).  The lazy spellings (`unwrap_or_else`, `or_else`, `then`, `match`) take a closure.
        interp = set(roles.sinks) | set(roles.evaluators)
        reaches_interp = {}

        def _interprets(k_):
            if k_ not in reaches_interp:
                reaches_interp[k_] = k_ in interp or bool(facts.reach([k_]) & interp)
            return reaches_interp[k_]
        EAGER = re.compile(r"^std::(option::Option|result::Result)::<.*>::(unwrap_or|or|and|map_or|ok_or|xor|zip|insert|get_or_insert)$|^std::bool::<impl bool>::then_some$|^core::bool::<impl bool>::then_some$")
        for e in (e_if, e_and, e_or):
            u_ = Unit(roles, e.fn_key, extended=True)
            n_eager = 0
            for s_ in u_.calls(lambda c: EAGER.search(c["path"]) is not None):
                for a_ in s_.term["args"][1:2]:
                    x_ = s_.body.xtrace(a_)
                    hit = []
                    expr_mentions(x_, lambda y: y[0] == "call" and y[1] is not None and y[1].get("local") and _interprets(y[1]["key"]) and not hit.append(y[1]["path"]))
                    if hit:
                        n_eager += 1
                        ctx.fail("K3.eager-default", "%s|%s(%s)" % (e.key, callee_path(s_.term).rsplit("::", 1)[1], hit[0].rsplit("::", 1)[-1]),
                                 "%s evaluates an operand as the eager argument of %s: the argument (%s) is evaluated before the receiver is looked at, so the operand is evaluated — with its errors and log lines — even when an earlier operand has decided" % (e.key, callee_path(s_.term).rsplit("::", 1)[1], hit[0]),
                                 where=s_.where(), fn=s_.body.key)
            if not n_eager:
                ctx.ok("K3.eager-default", "%s: no operand is evaluated as the eager argument of a default-taking combinator (%s)" % (e.key, cfg), nontrivial=True)
        # nothing is parsed when the lazy operation itself is parsed: its parser (the `from_value` that consults the lazy
        # table) stores the operands as written — a parse of every operand up front would report an error that sits in a
        # branch that is never selected.  The unit is the parser with its closures and private helpers (not the
        # dispatcher, which is handed the operation's own value).
        lz = e_if.table
        if lz.operation_impl and lz.operation_impl[0] and facts.body(lz.operation_impl[0]) is not None:
            cg_, _ = facts.callgraph()
            halt_ = (set(roles.sinks) | set(roles.evaluators) | set(roles.op_fns) | {t_.const_key for t_ in roles.tables}) - {lz.operation_impl[0]}
            seen_, st_ = set(), [lz.operation_impl[0]]
            while st_:
                k_ = st_.pop()
                if k_ in seen_ or k_ in halt_:
                    continue
                seen_.add(k_)
                st_.extend(cg_.get(k_, ()))
            n_pre = 0
            for k_ in sorted(seen_):
                b_ = facts.body(k_)
                if b_ is None:
                    continue
                for bi_, t_ in b_.calls():
                    c_ = callee_of(t_)
                    if c_ and c_.get("key") in roles.sinks and c_["key"] != roles.disp.body.key:
                        n_pre += 1
                        ctx.fail("K2.no-prepass-at-parse", "lazy parser|%s" % c_["path"], "the parser of lazy operations parses operands (%s) when the operation is parsed: an error in an operand that is never selected is reported although the operand is never evaluated" % c_["path"], where=b_.where(bi_), fn=b_.key)
            if not n_pre:
                ctx.ok("K2.no-prepass-at-parse", "the parser of lazy operations stores the operands as written (%d functions read, %s)" % (len(seen_), cfg), nontrivial=True)
        else:
            ctx.unread("K2.no-prepass-at-parse", "lazy parser (%s)" % cfg, "the parser of the lazy table was not identified", where=facts.body(lz.const_key).where())
        p = P.Prov(roles).run()
        # the lazy operation evaluator hands (data, stored operands) to the operator once and returns its result as it is:
        # nothing between the table and the operator can fail, count or remember on its own
        from .c04 import operator_receives_operand_list
        operator_receives_operand_list(ctx, facts, roles, e_if.table, cfg, "K1")
        for name, e in (("if", e_if), ("and", e_and), ("or", e_or)):
            u = once_per_use(ctx, facts, roles, p, cfg, name, e)
            root = u.root
            sink_keys = set(roles.sinks)
            # ---- K5: the data is only ever handed to the evaluator (no private look-ups that could disagree with it)
            for bb in u.bodies:
                for bi, t in bb.calls():
                    c = callee_of(t)
                    if c is None:
                        continue
                    for a in t["args"]:
                        if a["k"] in ("Copy", "Move") and bb.local_ty(a["place"]["local"]).endswith("serde_json::Value") and "DATA" in p.op_tags(bb, a) and "EVAL" not in p.op_tags(bb, a):
                            own = {x.key for x in roles.unit(e.fn_key)}
                            evaluating_helper = c.get("key") in u.keys and bool(facts.reach([c["key"]]) & set(roles.evaluators))
                            okc = c.get("key") in roles.evaluators or c.get("key") in own or evaluating_helper
                            ctx.check(okc, "K5.data-only-to-evaluator", "%s|%s" % (name, c["path"].split("::<")[0]),
                                      "%s hands the data to %s instead of only evaluating its operands against it" % (name, c["path"]), where=bb.where(bi), fn=bb.key, nontrivial=True)
            # ---- K4: constructed values
            aggs = u.value_aggregates()
            consts = u.const_items()
            if name in ("and", "or"):
                for (b, bi, si, variant) in aggs:
                    ctx.fail("K4.value-itself", "%s|Value::%s" % (name, variant), "%s constructs a JSON %s instead of returning an operand's value" % (name, variant), where=b.where(bi, si), fn=b.key)
                for (b, bi, si, item) in consts:
                    if facts.items.get(item, {}).get("ty") == "serde_json::Value":
                        ctx.fail("K4.value-itself", "%s|const %s" % (name, item.split("::", 1)[1]), "%s returns the constant %s instead of an operand's value" % (name, item), where=b.where(bi, si), fn=b.key)
                if not aggs:
                    ctx.ok("K4.value-itself", "%s constructs no JSON value (%s)" % (name, cfg), nontrivial=True)
                # every successful result is (a plumbing of) an evaluation result — never an operand as it stands in the rule,
                # never the data: stated on the provenance of the returned value (R-PROV: every value that can flow into the
                # result, through closures, captured variables, helper functions and Option/Result plumbing; the Err side
                # carries an opaque error), not on the expression that spells the return
                rt0 = set(p.tags.get((root.key, 0), set()))
                foreign = sorted(rt0 - {"EVAL"})
                if foreign and p.error_unpacked:
                    ctx.unread("K4.result-is-evaluated", "%s (%s)" % (name, cfg), "errors are taken apart at %s: the provenance of a successful result cannot be told from that of an error" % p.error_unpacked[:2], where=root.where(), fn=root.key)
                else:
                    ctx.check(not foreign, "K4.result-is-evaluated", "%s: a successful result comes out of an evaluation (%s)" % (name, cfg),
                              "%s can return a value with provenance %s — an operand as written in the rule (or something else that was never evaluated)" % (name, foreign), where=root.where(), fn=root.key, nontrivial=True)
                rt = p.tags.get((root.key, 0), set())
                ctx.check("EVAL" in rt, "K4.returns-evaluated", "%s returns an evaluation result (%s)" % (name, cfg), "%s's result has provenance %s" % (name, sorted(rt)), where=root.where(), fn=root.key, nontrivial=True)
            else:
                bad = [(b, bi, si, v) for (b, bi, si, v) in aggs if v != "Null"]
                for (b, bi, si, variant) in bad:
                    ctx.fail("K4.value-itself", "%s|Value::%s" % (name, variant), "if constructs a JSON %s: it must return the selected operand's value (or null)" % variant, where=b.where(bi, si), fn=b.key)
                if not bad:
                    ctx.ok("K4.value-itself", "if constructs no JSON value other than null (%s)" % cfg, nontrivial=True)
