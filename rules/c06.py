#!/usr/bin/env python3
"""C06 — one JsonLogic truthiness table governs every boolean decision.

  K1  sharing: each deciding position — the `!` and `!!` closures, the functions
      bound to if/?:, and, or, filter, all, some (none is defined through some) —
      calls the one truthiness function (role: the bool function the `!!` closure
      applies to its operand) or a pure forwarder of it, uses its result (branch
      condition / returned / stored, never discarded), and calls no other
      function of the crate that maps a JSON value to a bool (a second notion of
      truthiness);
  K2  `!` is the exact negation of `!!`: both closures apply the same function
      to operand 0; `!!` returns Bool(t), `!` returns Bool(Not t);
  K3  the table itself, per kind of the argument (variant specialisation of the
      truthiness function): Null → constant false; Object → constant true;
      Bool → the payload; Number → as_f64(payload) compared with the constant
      0.0, equal ⇒ false (so -0 is falsy), no integer accessor; String → payload
      emptiness, empty ⇒ false; Array → payload length/emptiness, empty ⇒ false,
      elements never inspected; no recursion.
"""
import re
from .core import (callee_of, callee_path, strip_refs, strip_payload, show_expr, const_value, bool_edge, expr_mentions, op_const)
from .engine import Inconclusive
from .roles import Roles
from .opfacts import Unit, const_under_edge
from . import table as T

VALUE = "serde_json::Value"
POSITIONS = ["!", "!!", "if", "and", "or", "filter", "all", "some"]


def _is_value_to_bool(facts, key):
    it = facts.items.get(key, {})
    return it.get("output") == "bool" and it.get("inputs") == ["&serde_json::Value"]


def _forwards_to(facts, b):
    """Key of the one local function `b` purely forwards to — `b` is a bool function of one parameter that calls
    nothing but that function and every result of which is that function's verdict — or None."""
    if b is None or b.kind != "fn":
        return None
    it = facts.items.get(b.key, {})
    if it.get("output") != "bool" or len(it.get("inputs", [])) != 1:
        return None
    calls = [callee_of(t) for _, t in b.calls()]
    keys = {c.get("key") if c is not None else None for c in calls}
    if len(keys) != 1 or None in keys or not calls[0].get("local"):
        return None
    g = calls[0]["key"]
    if g == b.key:
        return None
    r = b.trace(0)
    cands = r[2] if r[0] == "phi" else [r]
    if all(strip_refs(x)[0] == "call" and strip_refs(x)[1] and strip_refs(x)[1].get("key") == g for x in cands):
        return g
    return None


def _applied_by_double_not(roles):
    """The value→bool function(s) of the crate that the function bound to `!!` applies — looked for in the operator's
    own code and in the private helpers it calls (not inside a value→bool function: what such a function consults
    is its own business)."""
    facts = roles.facts
    bb, e = roles.fn_of("!!")
    halt = set(roles.sinks) | set(roles.evaluators)
    cands, seen, todo = set(), set(), [bb.key]
    while todo:
        k = todo.pop()
        if k in seen or k in halt:
            continue
        seen.add(k)
        for b in roles.unit(k):
            for bi, t in b.calls():
                c = callee_of(t)
                if c and c["local"]:
                    if _is_value_to_bool(facts, c["key"]):
                        cands.add(c["key"])
                    elif facts.body(c["key"]) is not None and facts.body(c["key"]).kind == "fn":
                        todo.append(c["key"])
    if not cands:
        # the role is "what `!!` applies to its operand", wherever the call sits: in an adapter the closure hands its
        # operand list to (`|items| truthiness(items, false)`), or through a function item bound at the forwarding call
        from . import x_applied
        for c, _args, _p in x_applied.read(facts, bb).calls():
            if c.get("local") and _is_value_to_bool(facts, c["key"]):
                cands.add(c["key"])
    return cands


def _transformed_before(e):
    """The receiver of an emptiness test is not the payload as it is but the result of a text / sequence transformation."""
    x = strip_refs(e)
    for _ in range(8):
        if x[0] == "call" and x[1] and re.search(r"Deref>::deref$|::as_str$|::as_ref$|::as_slice$|::borrow$|AsRef<.*>>::as_ref$", x[1]["path"]) and x[2]:
            x = strip_refs(x[2][0])
        else:
            break
    return x[0] == "call" and x[1] is not None and re.search(r"::(trim\w*|strip_\w+|to_\w*case|replace\w*|split\w*|filter|collect|trim_matches|trim_start_matches|trim_end_matches)$", x[1]["path"]) is not None


def truthy_family(roles):
    """(table function body, keys of the pure forwarders of the family).  The family is what the function `!!` applies
    to its operand, what that purely forwards to (a public wrapper of the function that holds the table), and every
    pure forwarder of a member; the table function is the member that decides itself."""
    facts = roles.facts
    cands = _applied_by_double_not(roles)
    if len(cands) != 1:
        raise Inconclusive("truthiness function not identified from the `!!` operator (%d candidates)" % len(cands))
    t0 = next(iter(cands))
    fam, cur = {t0}, t0
    for _ in range(6):
        g = _forwards_to(facts, facts.body(cur))
        if g is None or g in fam or not _is_value_to_bool(facts, g):
            break
        fam.add(g)
        cur = g
    table_key = cur
    grew = True
    while grew:
        grew = False
        for b in facts.fns():
            if b.kind == "fn" and b.key not in fam and _forwards_to(facts, b) in fam:
                fam.add(b.key)
                grew = True
    return facts.body(table_key), fam - {table_key}


def truthy_role(roles):
    """The function that holds the truthiness table: the bool function the operator `!!` applies to its operand, or —
    when that is a mere wrapper — the function it forwards to."""
    return truthy_family(roles)[0]


def forwarders(roles, truthy):
    """Local bool functions all of whose results are the verdict of the truthiness function (or of another forwarder)
    on (the payload of) their parameter and that call nothing else."""
    tb, fw = truthy_family(roles)
    if tb.key != truthy.key:
        return set()
    return set(fw)


def run(ctx):
    ctx.explanation = __doc__
    ctx.rule = "instances = deciding positions (8) × (must-call, no-other-notion, result-used) + the two negation closures + the six kinds of the table; non-trivial = needs call-graph / def-use / variant specialisation"
    ctx.trusted = ["serde_json::Number::as_f64 returns the numeric value as a double", "IEEE: -0.0 == 0.0"]
    from . import manifest as _MF
    _MF.same_library_clause(ctx, "K3.number-model")
    cfgs = ["default"] if ctx.tier == "quick" else ["default", "python", "wasm"]
    for cfg in cfgs:
        facts = ctx.facts(cfg)
        roles = Roles(facts)
        truthy = truthy_role(roles)
        fw = forwarders(roles, truthy)
        ok_keys = {truthy.key} | fw
        ctx.count("truthiness function / forwarders (%s)" % cfg, [truthy.key.split("::", 1)[1]] + sorted(k.split("::", 1)[1] for k in fw))
        from . import prov as P
        pv = P.Prov(roles).run()
        # ---------------- K1
        npos = 0
        for op in POSITIONS:
            b, e = roles.fn_of(op)
            # the operator with its closures *and the crate's helper functions it calls* (a helper that parses, evaluates
            # and tests an operand is part of the deciding position)
            u = Unit(roles, b.key, extended=True, stop=[truthy.key] + sorted(fw))
            npos += 1
            sites = [s for s in u.calls(lambda c: c.get("key") in ok_keys)]
            ctx.check(len(sites) >= 1, "K1.shared", "%s (%s)" % (op, cfg),
                      "the operator %r does not use the shared truthiness function %s" % (op, truthy.key.split("::", 1)[1]), where=b.where(), fn=b.key, nontrivial=True,
                      sample={"operator": op, "truthy_calls": len(sites)})
            # no second notion: other local &Value → bool functions, or serde_json bool/number accessors used for deciding
            for s in u.calls(lambda c: c["local"]):
                c = callee_of(s.term)
                it = facts.items.get(c["key"], {})
                if c["key"] in ok_keys:
                    continue
                if it.get("output") == "bool" and any(x.endswith("serde_json::Value") for x in it.get("inputs", [])):
                    ctx.fail("K1.second-notion", "%s|%s" % (op, c["path"]), "the operator %r decides with %s, a different value→bool function than the shared truthiness table" % (op, c["path"]), where=s.where(), fn=s.body.key)
            for s in u.calls(lambda c: re.match(r"^serde_json::Value::(as_bool|is_boolean|is_null|is_number|is_string|is_array|is_object|as_f64|as_i64|as_u64)$", c["path"]) is not None):
                if re.search(r"::is_(null|boolean|number|string|array|object)$", callee_path(s.term)) and s.term["args"]:
                    # a kind test of an operand *as written* (rule text, nothing evaluated or looked up) is the question
                    # `match operand { Value::Object(_) => … }` asks: plumbing that selects what to evaluate, no verdict
                    tg0 = pv.op_tags(s.body, s.term["args"][0])
                    if tg0 and all(P.RULEISH(t_) for t_ in tg0):
                        continue
                ctx.fail("K1.second-notion", "%s|%s" % (op, callee_path(s.term)), "the operator %r inspects a value with %s instead of the shared truthiness table" % (op, callee_path(s.term)), where=s.where(), fn=s.body.key)
            # a number is judged by the shared table only: no deciding position (with its helpers) reads the numeric value of
            # a JSON number itself — whatever the provenance of the value; a literal 0.0 judged by `as_i64() != Some(0)` in a
            # "fast path for literals" is a second table that disagrees with the shared one on that operand (seeded C06-N)
            for s in u.calls(lambda c: re.match(r"^serde_json::Number::(as_i64|as_u64|as_f64|is_i64|is_u64|is_f64|as_i128|as_u128)$", c["path"]) is not None):
                ctx.fail("K1.second-notion", "%s|%s" % (op, callee_path(s.term)), "the operator %r (or a helper of its own) reads the value of a JSON number with %s: numbers are judged by the shared truthiness table only" % (op, callee_path(s.term)), where=s.where(), fn=s.body.key)
            # what the position has interpreted are its operands as written: it does not build a JSON value at run time and
            # hand that to the parser as if it were rule text (e.g. negating a predicate by wrapping it in {"!": …} instead of
            # negating the verdict: the wrapped rule is read by the operator sugar, `[0]` becomes an argument list, and the
            # position disagrees with the table on that value).  Read on the parsed expression, with a helper's parameters
            # replaced by what each of its call sites in the unit passes.
            for s in u.calls(lambda c: c.get("key") in roles.sinks):
                c = callee_of(s.term)
                pos = roles.sinks[c["key"]][0]
                if pos - 1 >= len(s.term["args"]):
                    continue
                for x, at in _in_context(u, s.body, s.body.xtrace(s.term["args"][pos - 1]), s):
                    x = strip_refs(x)
                    while x[0] == "call" and x[1] and re.search(r"Clone>::clone$|Deref>::deref$|::as_ref$|::borrow$", x[1]["path"]) and x[2]:
                        x = strip_refs(x[2][0])
                    if x[0] == "agg" and x[1].get("adt") == VALUE:
                        ctx.fail("K1.operand-as-written", "%s|Value::%s" % (op, x[1].get("variant")),
                                 "the operator %r builds a JSON %s at run time and has it interpreted as rule text: what it decides on is not its operand as written (the built rule goes through the operator sugar again, so the position can disagree with the truthiness table on the same value)" % (op, x[1].get("variant")),
                                 where=at.where(), fn=at.body.key)
            # what is tested is an evaluated value (an operand or an evaluation result), not something
            # looked up in the data or taken from the rule text by other means
            for s in sites:
                tg = pv.op_tags(s.body, s.term["args"][0])
                ctx.check(tg <= {"EVAL"} and tg, "K1.tests-evaluated-value", "%s: truthiness of an evaluated value (%s, %s)" % (op, s.where(), cfg),
                          "the operator %r takes the truthiness of a value with provenance %s — not of the value the interpreter computes for that operand, so positions can disagree on the same expression" % (op, sorted(tg)),
                          where=s.where(), fn=s.body.key, nontrivial=True)
            # a verdict is taken for the value at hand: it is not put into a map or list from which it could be handed
            # out again for another value (a memo keyed by a lossy rendering of the value merges "1" and 1)
            for s in sites:
                d0 = s.term["dest"]["local"]
                for bi2, t2 in s.body.calls():
                    p2 = callee_path(t2) or ""
                    if re.search(r"(HashMap|BTreeMap|HashSet|BTreeSet|Vec|VecDeque|IndexMap)(::)?<.*>::(insert|push|push_back|push_front|extend|entry)$|::(or_insert|or_insert_with)$", p2):
                        for a2 in t2["args"][1:]:
                            ex2 = s.body.trace(a2)
                            if expr_mentions(ex2, lambda y: y[0] == "call" and len(y) > 3 and y[3] == s.bi and y[1] is not None and y[1].get("key") in ok_keys):
                                ctx.fail("K1.verdict-stored", "%s|%s" % (op, p2.rsplit("::", 1)[1]), "the operator %r stores the truthiness verdict in a collection (%s): it can be handed out again for a different value" % (op, p2), where=s.body.where(bi2), fn=s.body.key)
            # result used
            for s in sites:
                dest = s.term["dest"]["local"]
                used = False
                bb = s.body
                for bi in bb.reachable():
                    blk = bb.blocks[bi]
                    tt = blk["term"]
                    if tt["k"] == "SwitchInt" and mentions_local(tt["discr"], dest):
                        used = True
                    for st in blk["stmts"]:
                        if st["k"] == "Assign" and rv_mentions_local(st["rv"], dest):
                            used = True
                    if tt["k"] == "Call":
                        for a in tt["args"]:
                            if mentions_local(a, dest):
                                used = True
                if dest == 0:
                    used = True
                ctx.check(used, "K1.used", "%s: truthiness result used (%s, %s)" % (op, s.where(), cfg), "the truthiness of the value is computed and discarded", where=s.where(), fn=s.body.key)
        ctx.floor("deciding positions (%s)" % cfg, npos, 8)
        # the same, over every way the shared function is reached (also as a callable handed to an adaptor)
        for k in sorted(ok_keys):
            tg = set(pv.tags.get((k, 1), set()))
            fb = facts.body(k)
            ctx.check(tg <= {"EVAL"}, "K1.tests-evaluated-value", "everything reaching %s is an evaluated value (%s)" % (k.split("::", 1)[1], cfg),
                      "the truthiness function is applied to values with provenance %s: somewhere a decision is taken on something other than the value the interpreter computes (e.g. a private look-up in the data)" % sorted(tg),
                      where=fb.where(), fn=k, nontrivial=True, sample={"function": k, "argument_tags": sorted(tg)})
        # none through some
        nb, ne = roles.fn_of("none")
        sb, se = roles.fn_of("some")
        # `none` takes no truthiness decision of its own: whatever it decides, it decides at the very call sites of the shared
        # function at which `some` decides (it calls `some`, or both are thin wrappers of one helper) — stated on the
        # truthiness sites the two operators reach, not on which function calls which
        stop_ = [truthy.key] + sorted(fw)
        t_sites = lambda u_: {(s_.body.key, s_.bi) for s_ in u_.calls(lambda c: c.get("key") in ok_keys)}
        n_sites, s_sites = t_sites(Unit(roles, nb.key, extended=True, stop=stop_)), t_sites(Unit(roles, sb.key, extended=True, stop=stop_))
        if not s_sites:
            ctx.unread("K1.none-via-some", "none is decided through some (%s)" % cfg, "`some` reaches no call of the shared truthiness function (K1.shared reports that); nothing to compare `none` with", where=nb.where(), fn=nb.key)
        else:
            ctx.check(n_sites == s_sites, "K1.none-via-some", "none is decided through some (%s)" % cfg,
                      "the function bound to `none` takes truthiness decisions at %s, `some` at %s: `none` is not the negation of the very decision `some` takes" % (sorted(n_sites) or "no site", sorted(s_sites)),
                      where=nb.where(), fn=nb.key, nontrivial=True)
        ab, ae = roles.fn_of("?:")
        ib, ie = roles.fn_of("if")
        ctx.check(ab.key == ib.key, "K1.alias", "?: is bound to the same function as if (%s)" % cfg, "?: and if are bound to different functions", where=ib.where(), fn=ib.key)

        # ---------------- K2
        negation(ctx, facts, roles, ok_keys, cfg)

        # ---------------- K3
        table(ctx, facts, roles, truthy, cfg)


from .opfacts import in_context as _in_context    # (moved: shared with C16)


def mentions_local(o, l):
    return o["k"] in ("Copy", "Move") and o["place"]["local"] == l


def rv_mentions_local(rv, l):
    for k in ("op", "a", "b"):
        if isinstance(rv.get(k), dict) and mentions_local(rv[k], l):
            return True
    if rv["k"] == "Aggregate":
        return any(mentions_local(o, l) for o in rv["ops"])
    if rv["k"] in ("Ref", "CopyForDeref") and rv["place"]["local"] == l:
        return True
    return False


def negation(ctx, facts, roles, ok_keys, cfg):
    """K2 — `!!` yields Bool(t) and `!` yields Bool(not t), t = the shared truthiness function applied to operand 0.
    Read off the decision cases of the two bound functions *through* their private helpers (rules/x_ipath.py: a helper
    parameterised by a polarity constant is followed under the constant each operator passes), the truthiness family
    itself staying opaque: every case must return Ok(Bool(Not^n(truthy(operand 0)))) with n even for `!!`, odd for `!`."""
    from . import x_ipath
    from . import operands as OD
    halt = set(roles.sinks) | set(roles.evaluators) | set(ok_keys)
    got = {}
    undecided = violated = False
    for op, want_odd in (("!!", False), ("!", True)):
        b, e = roles.fn_of(op)
        key = "`%s` (%s)" % (op, cfg)
        args_param = None
        for l in range(1, b.arg_count + 1):
            if "std::vec::Vec<&" in b.local_ty(l):
                args_param = l
        try:
            cases = x_ipath.decision_cases(facts, b, lambda c: c.get("key") not in halt)
        except Exception as ex_:
            cases = None
        if not cases:
            ctx.unread("K2.negation", key, "the function bound to `%s` has loops or too many paths to read its result" % op, where=b.where(), fn=b.key)
            undecided = True
            continue
        bad, unread, shown = [], [], []
        for conds, val, pth in cases:
            v = strip_refs(val)
            txt = show_expr(v)[:120]
            if not (v[0] == "agg" and v[1].get("variant") in ("Ok", "Err")):
                unread.append(txt)
                continue
            if v[1]["variant"] == "Err" or not v[2]:
                bad.append("can fail (%s)" % txt)
                continue
            x = strip_refs(v[2][0])
            if not (x[0] == "agg" and x[1].get("adt") == VALUE):
                (unread if x[0] != "const" else bad).append(txt)
                continue
            if x[1].get("variant") != "Bool" or not x[2]:
                bad.append("returns a JSON %s (%s)" % (x[1].get("variant"), txt))
                continue
            t, odd = strip_refs(x[2][0]), False
            while t[0] == "unop" and t[1] == "Not":
                t, odd = strip_refs(t[2]), not odd
            fam = lambda y: y[0] == "call" and y[1] is not None and y[1].get("key") in ok_keys
            if not expr_mentions(t, fam):
                bad.append("returns %s, which is not a verdict of the shared truthiness function" % txt)
                continue
            if not (fam(t) and t[2]):
                unread.append(txt)
                continue
            idx = None
            if args_param is not None:
                idx = OD.absolute_index(OD.describe(b, t[2][0], args_param))
            if idx is None:
                no = norm_operand(t[2][0])
                idx = no[1] if no is not None else None
            if idx is None:
                unread.append("operand of " + txt)
                continue
            if idx != 0:
                bad.append("tests operand %s, not operand 0 (%s)" % (idx, txt))
                continue
            if odd != want_odd:
                bad.append("returns %s: %s of the operand's truthiness" % (txt, "the negation" if odd else "not the negation"))
                continue
            if txt not in shown:
                shown.append(txt)
        got[op] = shown
        if bad:
            violated = True
            ctx.fail("K2.negation", "`!` = Not(`!!`) on operand 0 (%s)" % cfg, "`%s` %s — `!!` is truthy(operand 0) and `!` its negation" % (op, "; ".join(sorted(set(bad))[:3])), where=b.where(), fn=b.key)
        elif unread:
            undecided = True
            ctx.unread("K2.negation", key, "result of the function bound to `%s` not read as Ok(Bool(± truthy(operand 0))): %s" % (op, unread[:2]), where=b.where(), fn=b.key)
    if not violated and not undecided and all(got.get(op) for op in ("!!", "!")):
        ctx.ok("K2.negation", "`!` = Not(`!!`) on operand 0 (%s)" % cfg, nontrivial=True, sample={"!!": got["!!"], "!": got["!"]})


def norm_operand(e):
    e = strip_refs(e)
    if e[0] == "call" and e[1] and e[1]["path"] == "<std::vec::Vec<T, A> as std::ops::Index<I>>::index":
        i = strip_refs(e[2][1])
        return ("operand", const_value(i[1]) if i[0] == "const" else None)
    return None


def table(ctx, facts, roles, truthy, cfg):
    """K3 — the table itself, read off the decision cases of the truthiness function per kind of its argument
    (rules/pathsum.py, rules/optnorm.py): match arms, if/else, `!v.is_empty()`, `map_or(false, |n| n != 0.0)` are all
    the same rows here."""
    from . import optnorm, pathsum, x_ipath
    unit = Unit(roles, truthy.key)
    rec = [s for s in unit.calls(lambda c: c.get("key") == truthy.key)]
    ctx.check(not rec, "K3.no-recursion", "truthiness does not recurse into elements (%s)" % cfg, "the truthiness function calls itself", where=truthy.where(), fn=truthy.key)
    where = truthy.where()

    def atom_pred(key):
        """(predicate, holds-when-atom-true) for atoms that test the payload: zero-ness of the number, emptiness."""
        txt = " ".join(str(x) for x in key[1:])
        if key[0] == "cmp" and key[1] == "Eq":
            a_, b_ = key[2], key[3]
            for x, y in ((a_, b_), (b_, a_)):
                if y in ("c:0.0", "c:-0.0") and "as_f64" in x and "'Number'" in x:
                    return ("zero", True)
                if y == "c:0" and "::len(" in x and ("'String'" in x or "'Array'" in x):
                    return ("empty", True)
                if y == "c:''" and "'String'" in x:
                    return ("empty", True)
        if key[0] == "cmp" and key[1] == "Lt" and key[2] == "c:0" and "::len(" in key[3]:
            return ("empty", False)                      # 0 < len
        if key[0] == "pure" and "is_empty(" in key[1] and re.search(r"::(trim\w*|strip_\w+|to_\w*case|replace|split\w*|filter|chars|trim_matches)\(", key[1]):
            return None
        if key[0] == "pure" and "is_empty(" in key[1] and ("'String'" in key[1] or "'Array'" in key[1]):
            return ("empty", True)
        if key[0] == "pure" and re.search(r"::(eq)\(", key[1]) and "c:''" in key[1] and "'String'" in key[1]:
            return ("empty", True)
        if key[0] == "pure" and re.search(r"::(ne)\(", key[1]) and "c:''" in key[1] and "'String'" in key[1]:
            return ("empty", False)
        return None

    def value_pred(v):
        """("const", b) | ("pred", predicate, value-when-predicate-holds) | ("payload",) | None"""
        v = strip_refs(v)
        neg = False
        while v[0] == "unop" and v[1] == "Not":
            neg, v = not neg, strip_refs(v[2])
        if v[0] == "const" and isinstance(const_value(v[1]), bool):
            return ("const", const_value(v[1]) != neg)
        if v[0] == "field" and v[1][0] == "downcast" and v[1][2] == "Bool" and strip_refs(v[1][1]) == ("arg", 1) and not neg:
            return ("payload",)
        if v[0] == "binop" and v[1] in ("Eq", "Ne", "Gt", "Lt"):
            ca, cb = pathsum.canon(strip_refs(v[2])), pathsum.canon(strip_refs(v[3]))
            for x, y, op in ((ca, cb, v[1]), (cb, ca, {"Gt": "Lt", "Lt": "Gt"}.get(v[1], v[1]))):
                if y in ("c:0.0", "c:-0.0") and ("as_f64" in x or "payload" in x) and op in ("Eq", "Ne"):
                    return ("pred", "zero", (op == "Eq") != neg)
                if y == "c:0" and "::len(" in x and op in ("Eq", "Ne", "Gt"):
                    return ("pred", "empty", (op == "Eq") != neg)
        if v[0] == "binop" and v[1] in ("Eq", "Ne", "Gt", "Lt", "Ge", "Le"):
            # a comparison, but not `value as a double == 0.0` / `len == 0`: the table is decided by another test
            return ("other-test", show_expr(v)[:80])
        if v[0] == "call" and v[1]:
            pth = v[1]["path"]
            if re.search(r"^(core|std)::f64::<impl f64>::\w+$", pth):
                # a classification of the double (is_normal, is_finite, is_sign_positive, abs …) in place of `== 0.0`:
                # read, and another test than the table's (subnormals are not zero; -0.0 is)
                return ("other-test", show_expr(v)[:80])
            if pth.endswith("::is_empty") and v[2]:
                # emptiness of the payload *itself*: a string that was trimmed / filtered / re-encoded first is another
                # string (a white-space-only string is not empty), and its emptiness is another test
                if _transformed_before(v[2][0]):
                    return ("other-test", show_expr(v)[:80])
                return ("pred", "empty", not neg)
            if re.search(r"PartialEq.*::(eq|ne)$", pth) and any(strip_refs(x)[0] == "const" and const_value(strip_refs(x)[1]) == "" for x in v[2]):
                return ("pred", "empty", (pth.endswith("::eq")) != neg)
        return None
    for v in facts.variants(VALUE):
        key = "%s (%s)" % (v, cfg)
        # read through the private helpers the table function hands a payload to (`impl Truthiness for str`, `is_zero(n)`):
        # their guards become atoms on the table function's own expressions (rules/x_ipath.py)
        known_ = lambda e, adt, _v=v: _v if (adt == VALUE and strip_refs(e) == ("arg", 1)) else None
        try:
            cases = x_ipath.decision_cases(facts, truthy, lambda c: c.get("key") != truthy.key, known=known_)
        except Exception:
            cases = None
        if cases is None:
            cases = optnorm.decision_cases(facts, truthy, known=known_)
        if cases is None:
            ctx.unread("K3.table", key, "the truthiness function has loops or too many paths to summarise", where=where, fn=truthy.key)
            continue
        rows = {}        # (predicate, holds) -> set of results ; ("always",) -> results
        unread = []
        accessors = set()
        def helper_accessors(k0):
            """Number accessors used by the private helpers a path calls (`is_zero(n)`): they decide for the table too."""
            out_, seen_, todo_ = set(), set(), [k0]
            while todo_:
                k_ = todo_.pop()
                if k_ in seen_ or k_ == truthy.key:
                    continue
                seen_.add(k_)
                hb = facts.body(k_)
                if hb is None:
                    continue
                for _, t_ in hb.calls():
                    c_ = callee_of(t_)
                    if c_ is None:
                        continue
                    if re.search(r"Number::(as_i64|as_u64|is_i64|is_u64|is_f64|as_f64|as_i128|as_u128)$", c_["path"]):
                        out_.add(c_["path"].rsplit("::", 1)[1])
                    if re.search(r"f64::to_bits$|::to_bits$|::total_cmp$|::is_sign_negative$|::is_sign_positive$|::signum$", c_["path"]):
                        out_.add(c_["path"].rsplit("::", 1)[1])     # tells -0.0 from 0.0
                    if c_.get("local"):
                        todo_.append(c_["key"])
                todo_.extend(x.key for x in facts.bodies.values() if x.kind == "closure" and x.key.startswith(k_ + "::{closure#"))
            return out_
        for conds, val, pth in cases:
            for ev in pth.events:
                if ev[1] and re.search(r"Number::(as_i64|as_u64|is_i64|is_u64|is_f64|as_f64)$", ev[1]["path"]):
                    accessors.add(ev[1]["path"].rsplit("::", 1)[1])
                if ev[1] and re.search(r"::to_bits$|::total_cmp$|::is_sign_negative$|::is_sign_positive$|::signum$", ev[1]["path"]):
                    accessors.add(ev[1]["path"].rsplit("::", 1)[1])
                if ev[1] and ev[1].get("local") and v == "Number":
                    accessors |= helper_accessors(ev[1]["key"])
                if ev[1] and ("Iterator" in ev[1]["path"] or ev[1]["path"].endswith("::iter") or ev[1]["path"].endswith("::chars")):
                    accessors.add("iterates")
            state = None
            dead = False
            for k, tv in conds.items():
                ap = atom_pred(k)
                if ap and isinstance(tv, bool):
                    state = (ap[0], tv == ap[1])
                elif k[0] == "variant" and "as_f64" in k[1] and tv == "None":
                    dead = True          # a Number without an f64 value does not exist in the standard number model (K3.number-model)
            if dead:
                continue
            vp = value_pred(val)
            if vp is None:
                unread.append(show_expr(strip_refs(val))[:70])
                continue
            if vp[0] == "const":
                rows.setdefault(state or ("always",), set()).add(vp[1])
            elif vp[0] == "payload":
                rows.setdefault(("payload",), set()).add(True)
            elif vp[0] == "pred":
                rows.setdefault((vp[1], True), set()).add(vp[2])
                rows.setdefault((vp[1], False), set()).add(not vp[2])
            elif vp[0] == "other-test":
                rows.setdefault(("decided by", vp[1]), set()).add(True)
        if v == "Number" and unread:
            # whatever the unreadable test is: one that consults the integer spelling of the number (as_i64 is None for
            # 0.0 and -0.0, Some(0) for 0) is read, and is not the number's value as a double
            bad_acc = sorted(accessors - {"as_f64"})
            if bad_acc:
                ctx.fail("K3.number-as-double", key, "a number's truthiness is not taken from its value as a double (accessors: %s): 0.0 and 0 can be told apart" % sorted(accessors), where=where, fn=truthy.key)
        if unread:
            ctx.unread("K3.table", key, "result not readable as a constant, the payload or a zero/emptiness test: %s" % unread[:2], where=where, fn=truthy.key)
            continue
        want = {"Null": {("always",): {False}}, "Object": {("always",): {True}}, "Bool": {("payload",): {True}},
                "Number": {("zero", True): {False}, ("zero", False): {True}}, "String": {("empty", True): {False}, ("empty", False): {True}},
                "Array": {("empty", True): {False}, ("empty", False): {True}}}[v]
        ctx.check(rows == want, "K3.table", key, "%s is decided as %s; the table says %s" % (v, {k: sorted(x) for k, x in rows.items()}, {k: sorted(x) for k, x in want.items()}), where=where, fn=truthy.key, nontrivial=True,
                  sample={"kind": v, "rows": {str(k): sorted(x) for k, x in rows.items()}})
        if v == "Number":
            bad_acc = sorted(accessors - {"as_f64"})
            ctx.check("as_f64" in accessors and not bad_acc, "K3.number-as-double", key, "a number's truthiness is not taken from its value as a double (accessors: %s)" % sorted(accessors), where=where, fn=truthy.key, nontrivial=True)
        if v in ("String", "Array"):
            ctx.check("iterates" not in accessors, "K3.emptiness", key, "%s truthiness looks at the elements, not only at emptiness" % v.lower(), where=where, fn=truthy.key, nontrivial=True)


def polarity(b, bi, stmt):
    """{True: result when the comparison holds, False: otherwise} for a comparison statement."""
    dest = stmt["place"]["local"]
    t = b.blocks[bi]["term"]
    if t["k"] == "SwitchInt" and mentions_local(t["discr"], dest):
        return {True: const_under_edge(b, bi, True), False: const_under_edge(b, bi, False)}
    # result returned directly
    r = strip_refs(b.trace(0))
    if r[0] == "binop":
        return {True: True, False: False}
    if r[0] == "unop" and r[1] == "Not":
        return {True: False, False: True}
    return None


def polarity_call(b, bi, r=None):
    """`r`: the function's result restricted to the kind under examination (the unrestricted result is a join over all kinds)."""
    t = b.blocks[bi]["term"]
    nxt = t["target"]
    tt = b.blocks[nxt]["term"] if nxt is not None else None
    if tt and tt["k"] == "SwitchInt" and mentions_local(tt["discr"], t["dest"]["local"]):
        return {True: const_under_edge(b, nxt, True), False: const_under_edge(b, nxt, False)}
    r = strip_refs(b.trace(0)) if r is None else strip_refs(r)
    if r[0] == "call" and r[3] == bi:
        return {True: True, False: False}
    if r[0] == "unop" and r[1] == "Not":
        inner = strip_refs(r[2])
        if inner[0] == "call" and inner[3] == bi:
            return {True: False, False: True}
    return None
