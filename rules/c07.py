#!/usr/bin/env python3
"""C07 — == and != implement ECMAScript abstract equality on JSON values.

Necessary structural conditions (the conversions' values on every string are not decided):
  K1  `!=` is the exact negation of `==` (one call with the same operands in
      order, result Not-ed once); the table binds both with exactly two operands
      and passes operand 0 and operand 1 in that order;
  K2  kind-pair coverage: the outcome of the equality function for each of the 36
      pairs of JSON kinds — read off its decision cases with the kinds of both
      parameters fixed (rules/pairs.py decision_matrix: private helpers inlined,
      kind tests/accessors answered from the kinds, each case read as a constant,
      a comparison of the payloads or the recursion with a converted operand;
      a case that cannot be read is UNDECIDED, never a pass) —
      equals ECMA-262 IsLooselyEqual transcribed in spec/arms/abstract_eq.json —
      same-kind primitives compared directly (numbers as doubles with float Eq,
      strings/booleans by equality), Number×String through the shared
      string→number conversion, Bool×x by recursion with the boolean replaced by
      a number (true→1, false→0), primitive×container by recursion with the
      container replaced by its string form, null×non-null and
      container×container constant false; the matrix is symmetric in kind and
      the variant-transition graph of the recursion is acyclic (C01);
  K3  numbers are never compared by JSON spelling (no Number/Value PartialEq, no
      integer accessor) — A1;
  K4  the shared string→number conversion follows ECMAScript StringToNumber in
      structure: ES white-space set trimmed (interval reading of the predicate),
      "" → 0, only the exact Infinity spellings, 0x/0o/0b prefixes → 16/8/2, and
      Rust's float parser gated by the decimal alphabet (A3).
"""
import json, os, re
from .core import (callee_of, callee_path, strip_refs, strip_payload, show_expr, const_value, expr_mentions, op_const, edge_dominates, bool_edge)
from .engine import Inconclusive, VERIF
from .roles import Roles
from . import pairs, strnum
from . import prov as P

VALUE = "serde_json::Value"
INDEX_PATH = "<std::vec::Vec<T, A> as std::ops::Index<I>>::index"


def bound_predicate(roles, op, issues=None):
    """(table closure body, the js predicate it applies, [operand indices], negated?)
    Two shapes are read: `Ok(Bool([!]P(items[i], items[j])))` in the bound closure, and a shared helper
    `H(P, negate_flag, items)` whose every boolean result is `P(items[i], items[j])` combined with the flag.
    Problems with exact negation found on the way are appended to `issues`."""
    facts = roles.facts
    b, e = roles.fn_of(op)
    r = strip_refs(b.trace(0))
    vecp = 2 if b.kind == "closure" else 1

    def operand_idx(body, x, vp):
        x = strip_refs(x)
        if x[0] == "call" and x[1] and x[1]["path"] == INDEX_PATH and strip_refs(x[2][0]) == ("arg", vp):
            i = strip_refs(x[2][1])
            return const_value(i[1]) if i[0] == "const" else None
        return None

    if r[0] == "agg" and r[1].get("variant") == "Ok":
        v = strip_refs(r[2][0])
        if not (v[0] == "agg" and v[1].get("adt") == VALUE and v[1].get("variant") == "Bool"):
            raise Inconclusive("operator %s does not build a Bool" % op)
        x = strip_refs(v[2][0])
        neg = False
        while x[0] == "unop" and x[1] == "Not":
            neg = not neg
            x = strip_refs(x[2])
        if not (x[0] == "call" and x[1] and x[1]["local"]):
            raise Inconclusive("operator %s does not apply a predicate of the crate" % op)
        idx = [operand_idx(b, a, vecp) for a in x[2]]
        return b, e, facts.body(x[1]["key"]), idx, neg
    # shared helper with a negation flag
    if r[0] == "call" and r[1] and r[1]["local"]:
        try:
            return _bound_through_helper(roles, op, issues, b, e, r, vecp, operand_idx)
        except Inconclusive as why:
            # an adapter of another shape (`binary_predicate(js_op::strict_eq, items)`: the predicate is a function item
            # called through the adapter's `fn(..)` parameter): what the entry returns on its paths, adapter expanded,
            # parameters bound, constant function pointers resolved — Ok(Bool([!]P(items[i], items[j]))) on every path
            from . import x_applied
            ap = x_applied.read(facts, b, vecp)
            got = set()
            for _p, x in ap.paths:
                x = strip_refs(x) if x is not None else ("?",)
                v = strip_refs(x[2][0]) if (x[0] == "agg" and x[1].get("variant") == "Ok" and x[2]) else ("?",)
                y = strip_refs(v[2][0]) if (v[0] == "agg" and v[1].get("adt") == VALUE and v[1].get("variant") == "Bool" and v[2]) else ("?",)
                neg = False
                while y[0] == "unop" and y[1] == "Not":
                    neg = not neg
                    y = strip_refs(y[2])
                if not (y[0] == "call" and y[1] and y[1].get("local") and len(y[2]) == 2):
                    raise why
                got.add((y[1]["key"], tuple(operand_idx(b, a, vecp) for a in y[2]), neg))
            if not ap.readable or len(got) != 1:
                raise why
            pk, idx, neg = list(got)[0]
            return b, e, facts.body(pk), list(idx), neg
    raise Inconclusive("operator %s does not return Ok(Bool(..)) directly" % op)


def _bound_through_helper(roles, op, issues, b, e, r, vecp, operand_idx):
    facts = roles.facts
    if True:
        h = facts.body(r[1]["key"])
        pred = flag = None
        flag_pos = vec_pos = None
        for i, a in enumerate(r[2]):
            a0 = strip_refs(a)
            if a0[0] == "const" and "fn" in a0[1]:
                pred = facts.body((a0[1]["fn"].get("resolved") or a0[1]["fn"])["key"])
            elif a0[0] == "const" and isinstance(const_value(a0[1]), bool):
                flag, flag_pos = const_value(a0[1]), i + 1
            elif a0 == ("arg", vecp):
                vec_pos = i + 1
        if pred is None or vec_pos is None:
            raise Inconclusive("operator %s forwards to %s in a shape that cannot be read" % (op, h.key))
        idx = None
        unit = roles.unit(h.key)
        for hb in unit:
            for bi, si, st in hb.stmts():
                if st["k"] == "Assign" and st["rv"]["k"] == "Aggregate" and st["rv"].get("adt") == VALUE and st["rv"].get("variant") == "Bool":
                    x = strip_refs(hb.xtrace(st["rv"]["ops"][0]))
                    mentions_flag = flag_pos is not None and expr_mentions(x, lambda y: y == ("arg", flag_pos))
                    calls_pred = []
                    expr_mentions(x, lambda y: calls_pred.append(y) if (y[0] == "call" and y[1] and y[1]["path"].startswith("std::ops::Fn") and y[1]["path"].endswith("::call")) else False)
                    if flag_pos is not None and not mentions_flag and issues is not None:
                        issues.append((hb, bi, si, "the shared helper %s returns %s regardless of its negation flag: the negated operator is not the exact negation on that path" % (h.key.split("::", 1)[1], show_expr(x)[:60])))
                    for cp in calls_pred:
                        tup = strip_refs(cp[2][1]) if len(cp[2]) > 1 else None
                        if tup is not None and tup[0] == "agg" and len(tup[2]) == 2:
                            idx = [operand_idx(hb, tup[2][0], vec_pos), operand_idx(hb, tup[2][1], vec_pos)]
        if idx is None:
            raise Inconclusive("the helper %s never applies the predicate to two operands" % h.key)
        return b, e, pred, idx, bool(flag)


def negation_of(facts, fneg, fpos):
    """fneg(a,b) == !fpos(a,b): one call, own parameters in order, Not applied an odd number of times."""
    calls = [(bi, t) for bi, t in fneg.calls() if callee_of(t) and callee_of(t)["local"]]
    if len(calls) != 1 or callee_of(calls[0][1]).get("key") != fpos.key:
        return False, "calls %s" % [callee_path(t) for _, t in calls]
    args = [strip_refs(fneg.trace(a)) for a in calls[0][1]["args"]]
    if args != [("arg", 1), ("arg", 2)]:
        return False, "arguments %s" % [show_expr(a) for a in args]
    r = strip_refs(fneg.trace(0))
    n = 0
    while r[0] == "unop" and r[1] == "Not":
        n += 1
        r = strip_refs(r[2])
    if not (r[0] == "call" and r[3] == calls[0][0] and n % 2 == 1):
        return False, "result %s" % show_expr(strip_refs(fneg.trace(0)))
    return True, ""


def run(ctx):
    ctx.explanation = __doc__
    ctx.rule = "instances = 36 kind pairs × (outcome vs ECMA-262, symmetry) + negation/binding facts + conversion facts; non-trivial = every pair decided on its decision cases"
    ctx.trusted = ["spec/arms/abstract_eq.json transcribes ECMA-262 7.2.14 for JSON kinds", "serde_json::Number::as_f64", "the string form (to_string) is C16's business", "Rust's f64 parser on decimal literals"]
    spec = json.load(open(os.path.join(VERIF, "spec", "arms", "abstract_eq.json")))["matrix"]
    from . import manifest as _MF
    _MF.same_library_clause(ctx, "K2.number-model")
    cfgs = ["default"] if ctx.tier == "quick" else ["default", "python", "wasm"]
    for cfg in cfgs:
        facts = ctx.facts(cfg)
        roles = Roles(facts)
        # ---------------- K1
        issues = []
        b_eq, e_eq, f_eq, idx_eq, neg_eq = bound_predicate(roles, "==", issues)
        b_ne, e_ne, f_ne, idx_ne, neg_ne = bound_predicate(roles, "!=", issues)
        for (hb, bi, si, what) in issues:
            ctx.fail("K1.negation", "flag-independent result in %s" % hb.key.split("::", 1)[1], what, where=hb.where(bi, si), fn=hb.key)
        for op, e, idx, neg in (("==", e_eq, idx_eq, neg_eq), ("!=", e_ne, idx_ne, neg_ne)):
            ctx.check(e.num == ("Exactly", 2) and idx == [0, 1], "K1.binding", "%s takes exactly two operands, (operand 0, operand 1) in order (%s)" % (op, cfg),
                      "%s: arity %s, operand indices %s" % (op, e.num, idx), where=roles.facts.body(e.table.const_key).where(), nontrivial=True)
        if f_ne.key == f_eq.key:
            ctx.check(neg_ne and not neg_eq, "K1.negation", "!= is Not(==) (%s)" % cfg, "`!=` and `==` apply the same predicate with the same polarity", where=b_ne.where(), fn=b_ne.key, nontrivial=True)
        else:
            ok, why = negation_of(facts, f_ne, f_eq)
            ctx.check(ok and not neg_ne and not neg_eq, "K1.negation", "!= is the exact negation of == (%s)" % cfg, "the predicate bound to `!=` is not !eq(a, b): %s" % why, where=f_ne.where(), fn=f_ne.key, nontrivial=True,
                      sample={"eq": f_eq.key, "ne": f_ne.key})
        # ---------------- K4 (also gives the conversion's key)
        s2n = strnum.check(ctx, facts, cfg, clause="K4")
        if f_eq is not None:
            strnum.container_elements_converted(ctx, facts, [f_eq.key] + ([f_ne.key] if f_ne is not None else []), cfg, "K2.container-through-string-form")
        # the string form through which containers are compared (structure as in C16 K4)
        from .c16 import to_string_role, string_form_clauses
        string_form_clauses(ctx, facts, roles, to_string_role(facts), cfg, "K5")
        # ---------------- K2 / K3: the matrix read off the decision cases (rules/pairs.py: kinds of both parameters fixed,
        # private helpers inlined, serde_json's kind tests answered from the kinds, every case read as constant /
        # comparison of payloads / recursion with a converted operand)
        strf = to_string_role(facts)
        m = pairs.decision_matrix(roles, f_eq, str_to_number_key=s2n.key, to_string_key=strf.key if strf is not None else None)
        ctx.floor("kind pairs (%s)" % cfg, len(m), 36)
        nread = sum(1 for o in m.values() if not o.kind.startswith("UNREAD"))
        looped = bool(f_eq.back_edges())
        if nread == 0 and looped:
            # the equality function iterates (the coercion steps re-enter a loop with carried operands instead of
            # recursing): its decision cases are not a finite table of this reader — not read, neither pass nor fail
            ctx.unread("K2.pair", "all 36 kind pairs (%s)" % cfg, "the equality function %s is a loop with carried state: its per-pair decision cases were not read (%s)" % (f_eq.key.split("::", 1)[1], next(iter(m.values())).kind[7:-1][:120]), where=f_eq.where(), fn=f_eq.key)
        else:
            ctx.floor("kind pairs read (%s)" % cfg, nread, 1)
        nconv = 0
        for (a, b), o in sorted(m.items()):
            want = spec["%s,%s" % (a, b)]
            if o.kind.startswith("UNREAD") and nread == 0 and looped:
                continue
            if o.kind.startswith("UNREAD"):
                ctx.unread("K2.pair", "%s == %s (%s)" % (a, b, cfg), "the case for %s == %s is written in a form that is not read: %s" % (a, b, o.kind[7:-1]), where=f_eq.where(), fn=f_eq.key)
                continue
            ctx.check(o.kind == want, "K2.pair", "%s == %s (%s)" % (a, b, cfg), "%s == %s is decided as %s; ECMAScript: %s [%s]" % (a, b, o.kind, want, "; ".join(o.detail.get("rows", []))[:300]), where=f_eq.where(), fn=f_eq.key, nontrivial=True,
                      sample={"pair": "%s,%s" % (a, b), "outcome": o.kind, "cases": o.detail.get("rows")} if (a, b) in (("Number", "String"), ("Bool", "Array"), ("Null", "Null"), ("Array", "Array")) else None)
            if o.kind.startswith("SPELLING") or o.kind.startswith("INT") or o.kind.startswith("MIXED"):
                ctx.fail("K3.numeric", "%s,%s" % (a, b), "numbers are compared by %s rather than as doubles (%s)" % (o.kind, ", ".join(sorted(set(o.detail.get("int_accessors", []) + o.detail.get("value_eq", []))))), where=f_eq.where(), fn=f_eq.key)
            # conversions used by the recursion
            kinds = {1: a, 2: b}
            for r in o.detail.get("rec", []):
                for p, op in enumerate(r["operands"], 1):
                    key = "%s,%s: operand %d" % (a, b, p)
                    if op[0] == "str-of":
                        how = op[2]
                        ok = isinstance(how, str) and facts.items.get(how, {}).get("output") == "std::string::String" and facts.items.get(how, {}).get("inputs") == ["&serde_json::Value"]
                        ctx.check(bool(ok), "K2.container-to-string", "%s,%s: container replaced by its string form (%s)" % (a, b, cfg), "container operand converted by %s" % how, where=f_eq.where(), fn=f_eq.key)
                        ctx.check(op[1] == p, "K2.converts-own-operand", "%s,%s: operand %d is replaced by the string form of operand %d itself (%s)" % (a, b, p, p, cfg),
                                  "in the recursion for %s,%s operand %d is replaced by the string form of %s" % (a, b, p, ("operand %d" % op[1]) if op[1] else show_expr(op[3])[:80]), where=f_eq.where(), fn=f_eq.key, nontrivial=True)
                    elif op[0] == "num":
                        # true → 1, false → 0: the number handed on is from_f64(c) with c fixed by the boolean on this case
                        src = op[1]
                        truth = [t[2] for t in r["atoms"] if t[0] == "bool" and t[1] == p]
                        if kinds[p] != "Bool":
                            continue        # not a boolean: the pair's outcome above says what is wrong
                        nconv += 1
                        if src and src[0] == "from_f64" and isinstance(src[1], tuple) and src[1][0] == "bool":
                            ctx.check(src[1][1] == p, "K2.true-is-one", "%s: the boolean cast to a number (%s)" % (key, cfg), "operand %d is replaced by the number of the boolean operand %d" % (p, src[1][1]), where=f_eq.where(), fn=f_eq.key, nontrivial=True)
                        elif src and src[0] == "from_f64" and isinstance(src[1], float):
                            t = truth[0] if len(truth) == 1 else None
                            ctx.check(t is not None and src[1] == (1.0 if t else 0.0), "K2.true-is-one", "%s: %s → %s (%s)" % (key, t, src[1], cfg),
                                      "a boolean %s is converted to the number %s (ECMAScript: true → 1, false → 0)" % ("of either value" if t is None else t, src[1]), where=f_eq.where(), fn=f_eq.key, nontrivial=True)
                        else:
                            ctx.unread("K2.true-is-one", "%s (%s)" % (key, cfg), "the number a boolean is replaced by is not from_f64 of a constant or of the boolean: %s" % show_expr(op[2])[:100], where=f_eq.where(), fn=f_eq.key)
        for a in pairs.KINDS:
            for b in pairs.KINDS:
                ka, kb = m[(a, b)].kind, m[(b, a)].kind
                if ka.startswith("UNREAD") or kb.startswith("UNREAD"):
                    continue
                mirror = re.sub(r"\((\w+|\?),(\w+|\?)\)", lambda mm: "(%s,%s)" % (mm.group(2), mm.group(1)), ka)
                mirror = "REC:" + "|".join(sorted(mirror[4:].split("|"))) if mirror.startswith("REC:") else mirror
                ctx.check(kb == mirror, "K2.symmetric", "%s,%s mirrors %s,%s (%s)" % (a, b, b, a, cfg), "%s==%s is %s but %s==%s is %s" % (a, b, ka, b, a, kb), where=f_eq.where(), fn=f_eq.key)
        if not any(o.kind.startswith("UNREAD") for o in m.values()):
            ctx.floor("boolean→number conversion sites (%s)" % cfg, nconv, 1)


def bool_number(ctx, facts, roles, f, cfg):
    """(Superseded by the reading of the recursion's operands in run(): K2.true-is-one is now decided on the decision
    cases of each Bool×x pair.  Kept as the worked example of a path-summary rule that README_READERS.md refers to.)
    Every Number::from_f64(c) that turns a boolean operand into a number gets c = 1 on the paths where the boolean is
    true and c = 0 where it is false — read off the path summaries (rules/pathsum.py), so it does not matter whether the
    choice is two match arms, an `if` feeding one conversion site, or a cast of the boolean."""
    from . import pathsum
    n = 0
    for b in roles.unit(f.key):
        if not any(callee_path(t) == "serde_json::Number::from_f64" for _, t in b.calls()):
            continue
        w = pathsum.summarize(b, max_paths=20000)
        if w.overflow:
            ctx.unread("K2.true-is-one", "%s (%s)" % (b.key.split("::", 1)[1], cfg), "too many paths to summarise", where=b.where(), fn=b.key)
            continue
        seen = {}
        for p in w.paths:
            for ev in p.events:
                c = ev[1]
                if not c or c["path"] != "serde_json::Number::from_f64":
                    continue
                a = strip_refs(ev[2][0])
                while a[0] == "cast" and a[1] in ("IntToFloat", "IntToInt", "FloatToFloat"):
                    a = strip_refs(a[2])
                val = None
                if a[0] == "const":
                    v_ = const_value(a[1])
                    val = float(v_) if isinstance(v_, (int, float)) and not isinstance(v_, bool) else (float(v_) if isinstance(v_, bool) else None)
                    if isinstance(v_, bool):
                        continue      # `true as u8 as f64`: by definition
                elif a[0] == "field" and a[1][0] == "downcast" and a[1][2] == "Bool":
                    seen[(ev[3], "cast")] = True      # `b as u8 as f64`: true → 1, false → 0 by the language
                    continue
                # the boolean payload this path has decided
                truth = None
                for (key, tv) in p.order:
                    if key[0] == "expr" and "'Bool'" in key[1] and isinstance(tv, bool):
                        truth = tv
                    elif key[0] == "cmp" and key[1] == "Eq" and "'Bool'" in (key[2] + key[3]) and isinstance(tv, bool):
                        lit = key[3] if key[2].startswith("(") else key[2]
                        truth = tv if lit == "c:True" else (not tv) if lit == "c:False" else None
                seen.setdefault((ev[3], truth, val), p)
        for k in seen:
            if k[1] == "cast":
                n += 1
                ctx.ok("K2.true-is-one", "from_f64 site bb%d: the boolean cast to a number (%s)" % (k[0], cfg), nontrivial=True)
                continue
            bi, truth, val = k
            n += 1
            ctx.check(truth is not None and val == (1.0 if truth else 0.0), "K2.true-is-one", "from_f64 site bb%d: %s → %s (%s)" % (bi, truth, val, cfg),
                      "a boolean %s is converted to the number %s (ECMAScript: true → 1, false → 0)" % (truth, val), where=b.where(bi), fn=b.key, nontrivial=True)
    ctx.floor("boolean→number conversion sites (%s)" % cfg, n, 1)
