#!/usr/bin/env python3
"""C08 — === and !== compare primitives by type and value; containers are never equal.

  K1  `!==` is the exact negation of `===`; both bound with exactly two operands,
      (operand 0, operand 1) in order;
  K2  kind-pair matrix of the strict predicate (36 pairs, read off its decision
      cases with both kinds fixed — rules/pairs.py decision_matrix — the
      pointer-identity shortcut excluded, see K3) equals ECMA-262 IsStrictlyEqual on JSON kinds
      (spec/arms/strict_eq.json): only the four diagonal primitive pairs can be
      true — Null constant true, Bool/String by equality of both payloads, Number
      by float Eq of as_f64 of both payloads (so 1 ≡ 1.0, 0 ≡ -0; no integer
      accessor, no Number/Value equality) — every pair involving an array or an
      object and every mixed pair is the constant false;
  K3  the identity shortcut cannot fire through the rule interface: the `===`/
      `!==` closures pass two different operand indices; the eager operation
      evaluator hands the operator references into a vector of *owned* values it
      has just collected from the per-argument evaluations (element type Value,
      built by collect(map(evaluate → Value::from))) — two operands are
      therefore distinct objects; the only raw-pointer use in the predicate is
      the read-only ptr::eq;
  K4  `===` implies `==` at arm level: for each pair where strict equality can be
      true the abstract-equality arm is the same direct comparison kind.
"""
import json, os, re
from .core import (callee_of, callee_path, strip_refs, strip_payload, show_expr, const_value, expr_mentions, op_const)
from .engine import Inconclusive, VERIF
from .roles import Roles
from . import pairs, strnum
from .c07 import bound_predicate, negation_of

VALUE = "serde_json::Value"


def run(ctx):
    ctx.explanation = __doc__
    ctx.rule = "instances = 36 kind pairs + negation/binding + freshness facts of the operand vector + arm agreement with ==; non-trivial = decision cases / def-use"
    ctx.trusted = ["spec/arms/strict_eq.json transcribes ECMA-262 7.2.15", "IEEE equality on doubles (1 == 1.0, 0 == -0)", "Vec<Value> elements are distinct objects"]
    spec = json.load(open(os.path.join(VERIF, "spec", "arms", "strict_eq.json")))["matrix"]
    from . import manifest as _MF
    _MF.same_library_clause(ctx, "K2.number-model")
    cfgs = ["default"] if ctx.tier == "quick" else ["default", "python", "wasm"]
    for cfg in cfgs:
        facts = ctx.facts(cfg)
        roles = Roles(facts)
        issues = []
        b_eq, e_eq, f_eq, idx_eq, neg_eq = bound_predicate(roles, "===", issues)
        b_ne, e_ne, f_ne, idx_ne, neg_ne = bound_predicate(roles, "!==", issues)
        for (hb, bi, si, what) in issues:
            ctx.fail("K1.negation", "flag-independent result in %s" % hb.key.split("::", 1)[1], what, where=hb.where(bi, si), fn=hb.key)
        for op, e, idx in (("===", e_eq, idx_eq), ("!==", e_ne, idx_ne)):
            ctx.check(e.num == ("Exactly", 2) and idx == [0, 1], "K1.binding", "%s takes exactly two operands, (operand 0, operand 1) in order (%s)" % (op, cfg),
                      "%s: arity %s, operand indices %s — passing the same operand twice would make the identity shortcut fire" % (op, e.num, idx), where=facts.body(e.table.const_key).where(), nontrivial=True)
        if f_ne.key == f_eq.key:
            ctx.check(neg_ne and not neg_eq, "K1.negation", "!== is Not(===) (%s)" % cfg, "same predicate, same polarity", where=b_ne.where(), fn=b_ne.key, nontrivial=True)
        else:
            ok, why = negation_of(facts, f_ne, f_eq)
            ctx.check(ok and not neg_ne and not neg_eq, "K1.negation", "!== is the exact negation of === (%s)" % cfg, "the predicate bound to `!==` is not !strict_eq(a, b): %s" % why, where=f_ne.where(), fn=f_ne.key, nontrivial=True)
        s2n = strnum.find_str_to_number(facts)
        m = pairs.decision_matrix(roles, f_eq, str_to_number_key=s2n.key)
        ctx.floor("kind pairs (%s)" % cfg, len(m), 36)
        ctx.floor("kind pairs read (%s)" % cfg, sum(1 for o in m.values() if not o.kind.startswith("UNREAD")), 1)
        for (a, b), o in sorted(m.items()):
            want = spec["%s,%s" % (a, b)]
            if o.kind.startswith("UNREAD"):
                ctx.unread("K2.pair", "%s === %s (%s)" % (a, b, cfg), "the case for %s === %s is written in a form that is not read: %s" % (a, b, o.kind[7:-1]), where=f_eq.where(), fn=f_eq.key)
                continue
            ctx.check(o.kind == want, "K2.pair", "%s === %s (%s)" % (a, b, cfg), "%s === %s is decided as %s; ECMAScript: %s [%s]" % (a, b, o.kind, want, "; ".join(o.detail.get("rows", []))[:300]), where=f_eq.where(), fn=f_eq.key, nontrivial=True,
                      sample={"pair": "%s,%s" % (a, b), "outcome": o.kind, "cases": o.detail.get("rows")} if a == b else None)
        # numbers are compared as the doubles they are: nothing in the predicate's own reach reads a JSON number as an
        # integer (as_i64 / as_u64) or converts a double to an integer (`as i64` saturates: every whole number ≥ 2^63
        # becomes i64::MAX, so 1e19 === 1e20) — whatever form the comparison itself then takes (seeded C08-Q, C08-P)
        n_int = 0
        for bk in sorted(facts.reach([f_eq.key]) - facts.reach([s2n.key])):
            bb = facts.body(bk)
            if bb is None or bb.kind not in ("fn", "closure"):
                continue
            for bi_, t_ in bb.calls():
                p_ = callee_path(t_) or ""
                if re.search(r"^serde_json::Number::(as_i64|as_u64|as_i128|as_u128|is_i64|is_u64)$", p_):
                    n_int += 1
                    ctx.fail("K2.numeric-domain", "===|%s|%s" % (bk.split("::", 1)[1], p_.rsplit("::", 1)[1]), "strict equality reads a JSON number as an integer (%s in %s): numbers are compared as the doubles they are (1 === 1.0, and the result must agree with ==)" % (p_, bk.split("::", 1)[1]), where=bb.where(bi_), fn=bb.key)
            for bi_, si_, st_ in bb.stmts():
                if st_["k"] == "Assign" and st_["rv"]["k"] == "Cast" and "FloatToInt" in str(st_["rv"].get("kind") or st_["rv"].get("cast") or ""):
                    n_int += 1
                    ctx.fail("K2.numeric-domain", "===|%s|float-to-int cast" % bk.split("::", 1)[1], "strict equality converts a double to an integer (%s → %s in %s): the cast saturates, distinct large numbers become equal" % (st_["rv"].get("from"), st_["rv"].get("to"), bk.split("::", 1)[1]), where=bb.where(bi_, si_), fn=bb.key)
        if not n_int:
            ctx.ok("K2.numeric-domain", "no integer reading of a number and no float→int cast in the reach of === (%s)" % cfg, nontrivial=True)
        # ---------------- K3
        raw = [callee_path(t) for bb in roles.unit(f_eq.key) for _, t in bb.calls() if re.search(r"^std::ptr::|^core::ptr::", callee_path(t) or "")]
        ctx.check(set(raw) <= {"std::ptr::eq"}, "K3.read-only-pointer", "the predicate's only pointer operation is ptr::eq (%s)" % cfg, "pointer operations: %s" % raw, where=f_eq.where(), fn=f_eq.key)
        eager = roles.by_role["eager"]
        ev = facts.body(eager.operation_impl[1])
        execs = [(bi, t) for bi, t in ev.calls() if callee_of(t) and callee_of(t)["local"] and any(callee_of(tt) is None for _, tt in facts.body(callee_of(t)["key"]).calls())]
        ctx.check(len(execs) == 1, "K3.execute-site", "the eager evaluator invokes the operator once (%s)" % cfg, "%d invocation sites" % len(execs), where=ev.where(), fn=ev.key)
        for bi, t in execs:
            vec = strip_refs(ev.trace(t["args"][-1]))
            # collect(iter(&owned)) where owned: Vec<Value> = payload of collect(map(iter(arguments), closure))
            ok = vec[0] == "call" and vec[1] and vec[1]["path"].endswith("::collect")
            it = strip_refs(vec[2][0]) if ok else None
            ok = ok and it[0] == "call" and it[1]["path"] == "core::slice::<impl [T]>::iter"
            owned = strip_refs(it[2][0]) if ok else None
            if not ok and vec[0] == "call" and vec[1] and re.search(r"Vec::<T>::(new|with_capacity)$", vec[1]["path"]) and len(vec) > 3:
                # the reference vector built in place: `let mut refs = Vec::with_capacity(n); refs.extend(&owned)` (or pushes of
                # `&owned[i]` / of the items of an iteration over `owned`): every mutation of that vector takes its elements
                # from one and the same vector of owned values
                srcs, other = [], []
                for mbi, mt in ev.calls():
                    mp_ = callee_path(mt) or ""
                    if not mt["args"]:
                        continue
                    recv = strip_refs(ev.trace(mt["args"][0]))
                    if not (recv[0] == "call" and len(recv) > 3 and recv[3] == vec[3] and recv[1] and recv[1]["path"] == vec[1]["path"]):
                        continue
                    if re.search(r"Extend<.*>>::extend$|::extend$|::extend_from_slice$", mp_) and len(mt["args"]) == 2:
                        x_ = strip_refs(ev.trace(mt["args"][1]))
                        while x_[0] == "call" and x_[1] and re.search(r"Deref>::deref$|::iter$|::as_slice$|IntoIterator>::into_iter$", x_[1]["path"]) and x_[2]:
                            x_ = strip_refs(x_[2][0])
                        srcs.append(x_)
                    elif re.search(r"::(len|capacity|reserve|is_empty|as_slice|iter)$|Deref>::deref$", mp_):
                        continue
                    else:
                        other.append(mp_)
                if len(srcs) == 1 and not other:
                    ok, owned = True, srcs[0]
            while ok and owned[0] == "call" and owned[1]["path"].endswith("Deref>::deref"):
                owned = strip_refs(owned[2][0])
            src = strip_payload(owned) if ok else None

            def _ok_alternative(e_, depth=0):
                """The success value of a Result-valued merge: phi(Err{..} | Ok{X}) seen through `?` is X."""
                e_ = strip_refs(e_)
                if depth > 6:
                    return e_
                if e_[0] == "call" and e_[1] and e_[1]["path"].endswith("as std::ops::Try>::branch") and e_[2]:
                    return _ok_alternative(e_[2][0], depth + 1)
                if e_[0] == "field" and e_[2] == 0 and isinstance(e_[1], tuple) and e_[1][0] == "downcast" and e_[1][2] in ("Continue", "Ok"):
                    return _ok_alternative(e_[1][1], depth + 1)
                if e_[0] == "agg" and e_[1].get("variant") == "Ok" and e_[2]:
                    return _ok_alternative(e_[2][0], depth + 1)
                if e_[0] == "phi":
                    alts = []
                    for a_ in e_[2]:
                        a_ = strip_refs(a_)
                        if a_[0] == "agg" and a_[1].get("variant") == "Err":
                            continue
                        if a_[0] == "call" and a_[1] and "from_residual" in a_[1]["path"]:
                            continue
                        alts.append(_ok_alternative(a_, depth + 1))
                    if alts and all(x_ == alts[0] for x_ in alts):
                        return alts[0]
                return e_
            if ok and src[0] in ("phi", "field"):
                src = _ok_alternative(owned)
            loop_built = bool(ok and src[0] == "call" and src[1] and re.search(r"Vec::<T>::(new|with_capacity)$", src[1]["path"]) and "serde_json::Value" in (src[1].get("full") or src[1]["path"] + str(src[1])))
            if ok and src[0] == "call" and src[1] and re.search(r"Vec::<T>::(new|with_capacity)$", src[1]["path"]):
                # built by pushes in a loop: every push appends the owned conversion of an evaluation result
                pushes = [(pbi, pt) for pbi, pt in ev.calls() if callee_path(pt) == "std::vec::Vec::<T, A>::push" and "serde_json::Value" in ev.local_ty(pt["args"][1]["place"]["local"] if pt["args"][1]["k"] in ("Copy", "Move") else 0)]
                goodp = bool(pushes)
                for pbi, pt in pushes:
                    v_ = strip_refs(ev.trace(pt["args"][1]))
                    isconv = v_[0] == "call" and v_[1] and (v_[1].get("key") == roles.conv.key or roles.conv.key in {y.get("key") for y in v_[1].get("fwd") or []})
                    inner = strip_payload(v_[2][0]) if isconv and v_[2] else None
                    goodp = goodp and isconv and inner is not None and inner[0] == "call" and inner[1] and inner[1].get("key") == roles.parsed_evaluate
                ctx.check(goodp, "K3.owned-by-conversion", "each operand is the evaluation result converted to an owned Value (%s)" % cfg, "the operand vector is filled by pushes that are not Value::from(evaluate(..)?)", where=ev.where(bi), fn=ev.key, nontrivial=True)
                ctx.check(True, "K3.fresh-operands", "operands are references into a freshly built Vec<Value> (%s)" % cfg, "", where=ev.where(bi), fn=ev.key, nontrivial=True)
                continue
            ok = ok and src[0] == "call" and src[1]["path"].endswith("::collect") and "std::vec::Vec<serde_json::Value>" in (src[1].get("full") or "")
            ctx.check(bool(ok), "K3.fresh-operands", "operands are references into a freshly collected Vec<Value> (%s)" % cfg,
                      "the operand vector handed to eager operators is %s — not references into a vector of owned, freshly evaluated values; two operands may alias the same object and make === true for containers" % show_expr(vec)[:160],
                      where=ev.where(bi), fn=ev.key, nontrivial=True)
            if ok:
                mp = strip_refs(src[2][0])
                clos = strip_refs(mp[2][1]) if mp[0] == "call" and len(mp[2]) > 1 else None
                good = False
                if clos is not None and clos[0] == "agg" and clos[1].get("agg") == "Closure":
                    cb = facts.body(clos[1]["closure"])
                    r = strip_refs(cb.trace(0))
                    good = r[0] == "call" and r[1]["path"] == "std::result::Result::<T, E>::map" and strip_refs(r[2][0])[0] == "call" and strip_refs(r[2][0])[1].get("key") == roles.parsed_evaluate
                    f = r[2][1] if good else None
                    good = good and f[0] == "const" and (f[1].get("fn", {}).get("resolved") or {}).get("key") == roles.conv.key
                ctx.check(good, "K3.owned-by-conversion", "each operand is the evaluation result converted to an owned Value (%s)" % cfg, "per-argument closure does not return evaluate(..).map(Value::from)", where=ev.where(bi), fn=ev.key, nontrivial=True)
        # ---------------- K4
        b2, e2, f_abs, _, _ = bound_predicate(roles, "==")
        ma = pairs.decision_matrix(roles, f_abs, str_to_number_key=s2n.key)
        for (a, b), o in sorted(m.items()):
            if o.kind not in ("CONST:false",) and not o.kind.startswith("UNREAD"):
                if ma[(a, b)].kind.startswith("UNREAD"):
                    ctx.unread("K4.implies-abstract", "%s,%s (%s)" % (a, b, cfg), "the case of == for %s,%s is not read: %s" % (a, b, ma[(a, b)].kind[7:-1]), where=f_abs.where(), fn=f_abs.key)
                    continue
                ctx.check(ma[(a, b)].kind == o.kind, "K4.implies-abstract", "%s,%s: == uses the same direct comparison as === (%s)" % (a, b, cfg),
                          "=== decides %s,%s by %s but == by %s: strict equality would not imply abstract equality" % (a, b, o.kind, ma[(a, b)].kind), where=f_abs.where(), fn=f_abs.key, nontrivial=True)
