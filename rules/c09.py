#!/usr/bin/env python3
"""C09 — <, <=, >, >= follow ECMAScript relational comparison, incl. between.

Necessary structural conditions (conversion values and code-point ordering are not decided):
  K1  between: each of the four operators accepts 2 or 3 operands; with two the
      result is cmp(op0, op1); with three it is cmp(op0, op1) AND cmp(op1, op2) —
      the second comparison sits under the true edge of the first, the false
      edge yields the constant false; the operands reach the comparator
      untouched (both arguments of every comparator application are elements of
      the operand list: index plumbing only, no conversion in between) — the
      comparator and the function applying it are found through path summaries
      under the constant arguments of the forwarding calls (fn item, closure,
      enum constant dispatched by a method);
  K2  sibling agreement of the four comparators: each converts both operands with
      the shared to-primitive (number hint) and then, per pair of primitive kinds
      (variant specialisation, 4 cases): String×String → string ordering of the
      two payloads; Number×Number → float comparison of the two payloads;
      String×Number / Number×String → the shared string→number conversion of
      the string side, None ⇒ constant false, Some ⇒ float comparison — with one
      and the same relational operator in all four cases, and that operator is
      the one the table name says (< Lt, <= Le, > Gt, >= Ge), operands in order;
      no comparator calls abstract equality or negates a sibling (NaN cases);
      no ordering decision on the 64-bit integer readings of a JSON number;
  K3  to-primitive with number hint: Null → 0, Bool → 1/0 by payload, Number →
      as_f64, String/Array/Object → no number (string form is used);
  K4  the shared string→number conversion (A3 and ES structure, as in C07 K4).
"""
import re
from .core import (callee_of, callee_path, strip_refs, strip_payload, show_expr, const_value, expr_mentions, op_const, edge_dominates, bool_edge, switch_edges_for_variant)
from .engine import Inconclusive
from .roles import Roles
from . import prov as P
from . import strnum, table as T

VALUE = "serde_json::Value"
INDEX_PATH = "<std::vec::Vec<T, A> as std::ops::Index<I>>::index"
WANT = {"<": "Lt", "<=": "Le", ">": "Gt", ">=": "Ge"}
ORD = ("Less", "Equal", "Greater")
ORD_SETS = {"Lt": {"Less"}, "Le": {"Less", "Equal"}, "Gt": {"Greater"}, "Ge": {"Greater", "Equal"}, "Eq": {"Equal"}}
FLIP = {"Lt": "Gt", "Le": "Ge", "Gt": "Lt", "Ge": "Le"}


def operand_index(b, e, vecp):
    """n when e is the n-th operand: v[n], or the payload of v.get(n) / v.first()."""
    if isinstance(e, dict):
        e = b.trace(e)
    e = strip_payload(strip_refs(e))
    if e[0] == "index" and strip_refs(e[1]) == ("arg", vecp):
        i = strip_refs(e[2])        # `slice[i]` on a slice parameter is a place projection, not a call
        return const_value(i[1]) if i[0] == "const" else None
    if e[0] != "call" or not e[1]:
        return None
    base = strip_refs(e[2][0]) if e[2] else None
    while base is not None and base[0] == "call" and base[1] and base[1]["path"].endswith("Deref>::deref"):
        base = strip_refs(base[2][0])
    if base != ("arg", vecp):
        return None
    p = e[1]["path"]
    if p == INDEX_PATH or re.search(r"^core::slice::<impl \[T\]>::get$|^std::vec::Vec::<T, A>::get$", p):
        i = strip_refs(e[2][1])
        return const_value(i[1]) if i[0] == "const" else None
    if p == "core::slice::<impl [T]>::first":
        return 0
    return None


CMP_SIG = ["&serde_json::Value", "&serde_json::Value"]
PLUMBING = re.compile(r"^<std::vec::Vec<T, A> as std::ops::(Index<I>|Deref)>::(index|deref)$|^std::vec::Vec::<T, A>::(len|get|first|as_slice|is_empty)$|^core::slice::<impl \[T\]>::(get|len|first|is_empty|split_first|split_at|iter)$"
                      r"|^core::option::Option::<.*>::(copied|cloned)$|^std::option::Option::<.*>::(copied|cloned)$|^<.* as std::ops::Try>::branch$")


def _is_cmp_sig(facts, key):
    it = facts.items.get(key, {})
    return it.get("output") == "bool" and it.get("inputs") == CMP_SIG


def _callable_key(e):
    """Key of the function an expression denotes: a fn item, or a closure that captures nothing."""
    e = strip_refs(e)
    if e[0] == "const" and isinstance(e[1], dict) and "fn" in e[1]:
        return (e[1]["fn"].get("resolved") or e[1]["fn"]).get("key")
    if e[0] == "agg" and e[1].get("agg") == "Closure" and not e[2]:
        return e[1].get("closure")
    return None


def _const_like(e):
    """An argument a callee can be read under: fn item, closure without captures, payload-free enum constant, literal."""
    x = strip_refs(e)
    if x[0] == "const":
        return True
    if x[0] == "agg" and not x[2] and (x[1].get("variant") is not None or x[1].get("agg") == "Closure"):
        return True
    return False


def _is_vec(e, vecp):
    e = strip_refs(e)
    while e[0] == "call" and e[1] and re.search(r"Deref>::deref$|::as_slice$|AsRef<.*>>::as_ref$", e[1]["path"]) and e[2]:
        e = strip_refs(e[2][0])
    return e == ("arg", vecp)


def applied_comparator(facts, ev, depth=0):
    """(comparator key | 'param', first, second) when the call event `ev` (rules/pathsum.py) applies one
    (&Value, &Value) → bool function to two of its arguments, in that order — directly, through a callable
    (Fn::call / fn pointer) that is a constant on the path, or through private wrappers read under their constant
    arguments (every path of the wrapper returns that one application on two of its parameters).  None otherwise."""
    from . import pathsum
    c, args = ev[1], ev[2]
    if c is None:
        if len(args) != 2:
            return None
        k = _callable_key(ev[4]) if len(ev) > 4 and ev[4] is not None else None
        if k is None:
            return ("param", args[0], args[1])
        return _through(facts, k, [args[0], args[1]], depth)
    if c["path"].startswith("std::ops::Fn") and c["path"].endswith("::call") and len(args) == 2:
        tup = strip_refs(args[1])
        if not (tup[0] == "agg" and tup[1].get("agg") == "Tuple" and len(tup[2]) == 2):
            return None
        k = _callable_key(args[0])
        if k is None:
            return ("param", tup[2][0], tup[2][1])
        fb = facts.body(k)
        if fb is not None and fb.kind == "closure":
            r = _through(facts, k, [args[0], tup[2][0], tup[2][1]], depth)
        else:
            r = _through(facts, k, [tup[2][0], tup[2][1]], depth)
        return r
    if c.get("local"):
        return _through(facts, c["key"], list(args), depth)
    return None


def _through(facts, key, args, depth):
    from . import pathsum
    if _is_cmp_sig(facts, key) and len(args) == 2:
        return (key, args[0], args[1])
    body = facts.body(key)
    if body is None or depth > 3:
        return None
    if body.kind != "closure" and facts.items.get(key, {}).get("output") != "bool":
        return None
    env = {i + 1: a for i, a in enumerate(args) if _const_like(a)}
    w = pathsum.summarize(body, env=env, max_paths=300)
    if w.overflow or not w.paths or any(p.truncated for p in w.paths):
        return None
    got = set()
    for p in w.paths:
        r = strip_refs(p.result) if p.result is not None else ("none",)
        if r[0] != "call":
            return None
        ev2 = next((e for e in p.events if e[3] == r[3] and e[1] is r[1]), ("call", r[1], r[2], r[3]))
        a = applied_comparator(facts, ev2, depth + 1)
        if a is None:
            return None
        x, y = strip_refs(a[1]), strip_refs(a[2])
        if x[0] != "arg" or y[0] != "arg" or not (1 <= x[1] <= len(args)) or not (1 <= y[1] <= len(args)):
            return None
        got.add((a[0], x[1], y[1]))
    if len(got) != 1:
        return None
    k, i, j = got.pop()
    if k == "param":
        return None
    return (k, args[i - 1], args[j - 1])


def single_operand_conversions(facts, host):
    """Crate functions to which `host` (or one of its closures) hands one JSON value — in a function that receives
    nothing but the operand list these are conversions of single operands."""
    out = []
    bodies = [host] + [b_ for b_ in facts.fns() if b_.kind == "closure" and b_.key.startswith(host.key + "::{closure")]
    for b_ in bodies:
        for bi, t in b_.calls():
            c = callee_of(t)
            if not c or not c.get("local"):
                continue
            ins = facts.items.get(c["key"], {}).get("inputs") or []
            if len([i for i in ins if i.endswith("serde_json::Value")]) == 1 and not _is_cmp_sig(facts, c["key"]):
                out.append((b_, bi, c["path"]))
    return out


def find_host(facts, b, vecp):
    """(host body, operand-list parameter, parameter bindings, comparator keys, reason): the function in which the
    operator applies its comparator to operands, reached from the table function through calls that hand the
    operand list on."""
    from . import pathsum
    host, env = b, {}
    for _ in range(4):
        w = pathsum.summarize(host, env=env, max_paths=3000)
        keys = set()
        fw = {}
        for p in w.paths:
            for ev in p.events:
                a = applied_comparator(facts, ev)
                if a is not None:
                    keys.add(a[0])
                    continue
                c = ev[1]
                if c and c.get("local") and facts.body(c["key"]) is not None:
                    idx = [i for i, x in enumerate(ev[2]) if _is_vec(x, vecp)]
                    if idx:
                        fw[(c["key"], ev[3])] = (ev, idx[0])
        if keys:
            return host, vecp, env, keys, ""
        if len(fw) != 1:
            conv = single_operand_conversions(facts, host)
            return None, None, None, set(), ("conv", host, conv) if conv else "neither compares operands nor hands its operand list to one helper (%d candidates)" % len(fw)
        (key, _), (ev, i) = next(iter(fw.items()))
        env = {j + 1: x for j, x in enumerate(ev[2]) if _const_like(x)}
        host, vecp = facts.body(key), i + 1
    return None, None, None, set(), "the comparator is applied more than four calls away from the table function"


def run(ctx):
    ctx.explanation = __doc__
    ctx.rule = "instances = 4 operators × (arity, between shape, 4 primitive-kind cases with operator reading) + to-primitive matrix + conversion facts; non-trivial = specialisation, dominance"
    ctx.trusted = ["Rust's String ordering is code-point (UTF-8 byte) order", "IEEE comparisons with NaN are false", "C16 for the string form"]
    from . import manifest as _MF
    _MF.same_library_clause(ctx, "K2.number-model")
    cfgs = ["default"] if ctx.tier == "quick" else ["default", "python", "wasm"]
    for cfg in cfgs:
        facts = ctx.facts(cfg)
        roles = Roles(facts)
        s2n = strnum.check(ctx, facts, cfg, clause="K4")
        # the string form through which containers are compared (structure as in C16 K4)
        from .c16 import to_string_role, string_form_clauses
        string_form_clauses(ctx, facts, roles, to_string_role(facts), cfg, "K5")
        comparators = {}
        for op in ("<", "<=", ">", ">="):
            b, e = roles.fn_of(op)
            acc = e.accepted()
            ctx.check(acc == (2, 3) and e.table.role == "eager", "K1.arity", "%s takes two or three evaluated operands (%s)" % (op, cfg), "%s accepts %s operands in the %s table" % (op, acc, e.table.role), where=b.where(), fn=b.key)
            # the body that applies the comparator (the *between host*): the bound function itself or the private function
            # it hands its operand list to, read with the constant arguments of the forwarding call bound to the
            # callee's parameters (a comparator fn item, a closure, a payload-free enum constant that a `match` in a
            # method turns into the comparator) — see find_host / applied_comparator
            host, vecp, henv, keys, why = find_host(facts, b, (2 if b.kind == "closure" else 1))
            if host is None and isinstance(why, tuple):
                # no two-operand comparator is applied where the operand list arrives; the operands are handed one by
                # one to conversions there: they do not reach a comparator untouched
                _, hb, conv = why
                ctx.fail("K1.untouched", "%s: operands reach the comparator untouched (%s)" % (op, cfg), "%s applies no (value, value) comparator to its operands; %s hands single operands to %s — the operands are converted outside the adjacent comparisons" % (op, hb.key.split("::", 1)[1], sorted({c_ for _, _, c_ in conv})), where=conv[0][0].where(conv[0][1]), fn=hb.key)
                continue
            ctx.need(host is not None, "%s: %s" % (op, why))
            ctx.need(len(keys) == 1, "%s uses several comparators: %s" % (op, sorted(keys, key=str)))
            cmp_key = next(iter(keys))
            ctx.need(cmp_key and cmp_key != "param", "%s: comparator function not identified" % op)
            comparators[op] = facts.body(cmp_key)
            # between shape, read off the path summaries of the host (rules/pathsum.py): for either operand count and
            # every outcome of the adjacent comparisons, each feasible path returns cmp(op0,op1) [&& cmp(op1,op2)]
            between_by_paths(ctx, facts, host, vecp, cmp_key, op, cfg, env=henv)
        # ---------------- K2
        mats = {}
        cviews = {}
        for op, f in comparators.items():
            # the comparator as one function: the private helpers it hands its operands to (a shared method
            # parameterised by the operator, a truth table over an Ordering) inlined — to-primitive and the
            # string→number conversion stay calls, the clauses are stated on their results
            vfacts, vf = comparator_view(facts, f, s2n)
            cviews[op] = vf
            m = comparator_matrix(ctx, vfacts, roles, vf, s2n, op, cfg)
            mats[op] = m
        # ---------------- K3
        from . import strnum as _SN
        _SN.container_elements_converted(ctx, facts, [f_.key for f_ in comparators.values()], cfg, "K3.container-through-string-form")
        tps = to_primitive_number(facts, roles, comparators)
        ctx.need(tps, "number-hint conversion (&Value → Option<f64> without local calls, reachable from the comparators) not found")
        ctx.check(len(tps) == 1, "K3.to-primitive-shared", "one number-hint conversion feeds the comparisons (%s)" % cfg,
                  "several value → Option<f64> conversions are reachable from the comparators: %s — each must obey the table, and to-primitive may use only one" % [t_.key.split("::", 1)[1] for t_ in tps], where=tps[0].where(), fn=tps[0].key, nontrivial=True)
        to_primitive_composition(ctx, facts, roles, cviews, tps[0], cfg)
        for tp in tps:
            # read off the path summaries of the function (rules/pathsum.py): for each kind of the argument, every path's
            # result — independent of how the arms are written (merged arms, literal patterns, if/else on the payload)
            from . import pathsum
            want = {"Null": {"Some(0.0)"}, "Bool": {"true→Some(1.0)", "false→Some(0.0)"}, "Number": {"as_f64"}, "String": {"None"}, "Array": {"None"}, "Object": {"None"}}
            for v in facts.variants(VALUE):
                w = pathsum.summarize(tp, known=lambda e, adt, _v=v: _v if (adt == VALUE and strip_refs(e) == ("arg", 1)) else None)
                ctx.need(not w.overflow and w.paths and not any(p.truncated for p in w.paths), "number-hint conversion has loops or too many paths to summarise")
                got = set()
                for p in w.paths:
                    c = strip_refs(p.result)
                    if c[0] == "agg" and c[1].get("variant") == "None":
                        r_ = "None"
                    elif c[0] == "agg" and c[1].get("variant") == "Some" and strip_refs(c[2][0])[0] == "const":
                        r_ = "Some(%s)" % const_value(strip_refs(c[2][0])[1])
                    elif c[0] == "call" and c[1] and c[1]["path"] == "serde_json::Number::as_f64" and _is_payload(c[2][0], "Number"):
                        r_ = "as_f64"
                    elif v == "Bool" and c[0] == "agg" and c[1].get("variant") == "Some" and _bool_as_number(c[2][0]):
                        # `b as u8 as f64` / f64::from(b): true → 1, false → 0 by the language's definition of the conversion
                        got.update({"true→Some(1.0)", "false→Some(0.0)"})
                        continue
                    else:
                        r_ = "?" + show_expr(c)[:60]
                    if v == "Bool":
                        # which payload value leads here
                        pol = None
                        for (key, val) in p.order:
                            if key[0] in ("expr", "cmp") and "'Bool'" in str(key) and isinstance(val, bool):
                                if key[0] == "expr":
                                    pol = val
                                elif key[0] == "cmp" and key[1] == "Eq" and key[3] in ("c:True", "c:False"):
                                    pol = val if key[3] == "c:True" else (not val)
                                elif key[0] == "cmp" and key[1] == "Eq" and key[2] in ("c:True", "c:False"):
                                    pol = val if key[2] == "c:True" else (not val)
                        r_ = "%s→%s" % ({True: "true", False: "false", None: "?"}[pol], r_)
                    got.add(r_)
                ctx.check(got == want[v], "K3.to-primitive-number", "%s (%s)" % (v, cfg), "number-hint conversion of %s yields %s; expected %s" % (v, sorted(got), sorted(want[v])), where=tp.where(), fn=tp.key, nontrivial=True,
                          sample={"kind": v, "conversion": sorted(got)})


def between_by_paths(ctx, facts, host, vecp, cmp_key, op, cfg, env=None):
    from . import pathsum
    w = pathsum.summarize(host, env=env)
    ctx.need(not w.overflow and w.paths and not any(p.truncated for p in w.paths), "%s: the between host has loops or too many paths to summarise" % op)

    def is_vec(e):
        e = strip_refs(e)
        while e[0] == "call" and e[1] and e[1]["path"].endswith("Deref>::deref"):
            e = strip_refs(e[2][0])
        return e == ("arg", vecp)

    def len_value(key, val, n):
        """truth of the atom for operand count n, or None when the atom is not about the operand count."""
        if key[0] == "cmp":
            _, o, A, B = key
            la = "::len(" in A and ("(arg %d)" % vecp) in A and A.count("(arg") == 1
            lb = "::len(" in B and ("(arg %d)" % vecp) in B and B.count("(arg") == 1
            if la and B.startswith("c:") and B[2:].lstrip("-").isdigit():
                x, y = n, int(B[2:])
            elif lb and A.startswith("c:") and A[2:].lstrip("-").isdigit():
                x, y = int(A[2:]), n
            else:
                return None
            return {"Eq": x == y, "Lt": x < y}[o]
        if key[0] == "int" and "::len(" in key[1] and ("(arg %d)" % vecp) in key[1]:
            if isinstance(val, tuple):
                return ("int", n not in val[1])
            return ("int", n == val)
        if key[0] == "variant" and re.search(r"::get\(.*\(arg %d\).*,c:(\d+)\)$" % vecp, key[1]):
            c = int(re.search(r",c:(\d+)\)$", key[1]).group(1))
            return ("variant", "Some" if n > c else "None")
        return None

    touched = {}
    unread_ops = {}

    def operand_of(e):
        """n when e is the n-th operand itself; otherwise record whether it is a converted operand or unreadable."""
        n = operand_index(host, e, vecp)
        if n is None:
            x = strip_payload(strip_refs(e))
            conv = []
            expr_mentions(x, lambda y: y[0] == "call" and y[1] is not None and not PLUMBING.search(y[1]["path"]) and expr_mentions(y, lambda z: z == ("arg", vecp)) and not conv.append(y[1]["path"]))
            (touched if conv else unread_ops)[show_expr(x)[:90]] = conv
        return n

    def cmp_pair(ev):
        a = applied_comparator(facts, ev)
        if a is None:
            return None
        c = ev[1]
        atom = ("site", ev[3]) if (c is None or c.get("local")) else ("pure", pathsum.canon(("call", c, ev[2], ev[3])))
        return (operand_of(a[1]), operand_of(a[2])), atom

    def value_of(e, assign, sitepairs):
        e = strip_payload(strip_refs(e))
        while e[0] == "agg" and e[1].get("variant") in ("Bool", "Ok", "Some") and len(e[2]) == 1:
            e = strip_payload(strip_refs(e[2][0]))
        if e[0] == "const" and isinstance(const_value(e[1]), bool):
            return const_value(e[1])
        if e[0] == "call":
            pr = cmp_pair(e if len(e) > 3 else e)
            if pr and pr[0] in assign:
                return assign[pr[0]]
        if e[0] == "binop" and e[1] in ("BitAnd", "BitOr"):
            x, y = value_of(e[2], assign, sitepairs), value_of(e[3], assign, sitepairs)
            if x is None or y is None:
                return None
            return (x and y) if e[1] == "BitAnd" else (x or y)
        if e[0] == "unop" and e[1] == "Not":
            x = value_of(e[2], assign, sitepairs)
            return None if x is None else (not x)
        return None

    pairs_seen = set()
    bad = []
    unread = []
    for n in (2, 3):
        for x01 in (True, False):
            for x12 in ((True, False) if n == 3 else (None,)):
                assign = {(0, 1): x01}
                if n == 3:
                    assign[(1, 2)] = x12
                expected = x01 if n == 2 else (x01 and x12)
                hits = 0
                for p in w.paths:
                    feasible = True
                    evpairs = {}
                    for ev in p.events:
                        cp = cmp_pair(ev)
                        if cp:
                            evpairs[cp[1]] = cp[0]
                            pairs_seen.add(cp[0])
                    for (key, val) in p.order:
                        lv = len_value(key, val, n)
                        if lv is not None:
                            if isinstance(lv, tuple):
                                if lv[0] == "int" and not lv[1]:
                                    feasible = False
                                if lv[0] == "variant" and lv[1] != val:
                                    feasible = False
                            elif lv != val:
                                feasible = False
                        elif key in evpairs and evpairs[key] in assign and assign[evpairs[key]] != val:
                            feasible = False
                        elif key in evpairs and evpairs[key] not in assign:
                            feasible = False      # compares a pair that does not exist for this operand count
                    if not feasible:
                        continue
                    hits += 1
                    got = value_of(p.result, assign, evpairs)
                    if got is None:
                        unread.append(show_expr(strip_refs(p.result))[:100])
                    elif got != expected:
                        bad.append("%d operands, cmp(op0,op1)=%s%s: returns %s" % (n, x01, "" if n == 2 else ", cmp(op1,op2)=%s" % x12, got))
                if not hits:
                    bad.append("%d operands, cmp(op0,op1)=%s: no path" % (n, x01))
    # the operands reach the comparator untouched: both arguments of every application are elements of the operand
    # list themselves (index / get / first plumbing only) — stated on the arguments' provenance, not on which
    # functions the host calls
    for txt, conv in sorted(touched.items()):
        ctx.fail("K1.untouched", "%s|%s (%s)" % (op, ",".join(sorted(set(c_.rsplit("::", 1)[-1] for c_ in conv))), cfg), "%s compares %s: the operand is converted (%s) before the adjacent comparisons" % (op, txt, ", ".join(sorted(set(conv)))), where=host.where(), fn=host.key)
    for txt in sorted(unread_ops):
        ctx.unread("K1.untouched", "%s (%s)" % (op, cfg), "an argument of the comparator is not readable as an element of the operand list: %s" % txt, where=host.where(), fn=host.key)
    if not touched and not unread_ops:
        ctx.ok("K1.untouched", "%s: operands reach the comparator untouched (%s)" % (op, cfg), nontrivial=True)
    incomplete = bool(touched or unread_ops)
    if incomplete:
        pairs_seen = {pr for pr in pairs_seen if None not in pr}
    if unread_ops and not touched:
        if not pairs_seen <= {(0, 1), (1, 2)}:
            ctx.fail("K1.three-operand", "%s compares exactly (op0,op1) and (op1,op2) (%s)" % (op, cfg), "%s compares the operand pairs %s" % (op, sorted(pairs_seen, key=str)), where=host.where(), fn=host.key)
        return
    ctx.check(pairs_seen <= {(0, 1), (1, 2)} and (incomplete or ((0, 1) in pairs_seen and (1, 2) in pairs_seen)), "K1.three-operand", "%s compares exactly (op0,op1) and (op1,op2) (%s)" % (op, cfg),
              "%s compares the operand pairs %s" % (op, sorted(pairs_seen, key=str)), where=host.where(), fn=host.key, nontrivial=True, sample={"operator": op, "pairs": sorted(pairs_seen, key=str)})
    if unread:
        ctx.unread("K1.conjunction", "%s (%s)" % (op, cfg), "result of the between host not readable as a boolean of the adjacent comparisons: %s" % unread[:2], where=host.where(), fn=host.key)
        return
    ctx.check(not bad, "K1.conjunction", "%s: cmp(op0,op1) with two operands, cmp(op0,op1) && cmp(op1,op2) with three — on every path (%s)" % (op, cfg),
              "the operator does not compute the (conjunction of the) adjacent comparisons: %s" % "; ".join(bad[:4]), where=host.where(), fn=host.key, nontrivial=True)


def _bool_as_number(e):
    e = strip_refs(e)
    while e[0] == "cast" and e[1] in ("IntToInt", "IntToFloat"):
        e = strip_refs(e[2])
    if e[0] == "call" and e[1] and re.search(r"From<bool>.*::from$|<bool as std::convert::Into<.*>>::into$", e[1]["path"]):
        e = strip_refs(e[2][0])
    return _is_payload(e, "Bool")


def _is_payload(e, variant, arg=1):
    e = strip_refs(e)
    return e[0] == "field" and e[2] == 0 and e[1][0] == "downcast" and e[1][2] == variant and strip_refs(e[1][1]) == ("arg", arg)


def to_primitive_composition(ctx, facts, roles, comparators, tpn, cfg):
    """The to-primitive function (number hint) is exactly: the number-hint conversion when it yields a number, else the
    string form of the value itself.  Decided on the function's decision cases (rules/optnorm.py: match code and
    Option-combinator code in one form): under the number hint, every case returns Number(<payload of the number-hint
    conversion of the argument>) — only when that conversion is Some — or String(<string form of the argument>) — only
    when it is None.  A third source of numbers or strings (a helper that unwraps one-element arrays, say) is a case
    that fits neither."""
    from . import optnorm, pathsum
    from .c16 import to_string_role
    cands = set()
    for f in comparators.values():
        for bi, t in f.calls():
            c = callee_of(t)
            if c and c["local"] and "Primitive" in facts.items.get(c["key"], {}).get("output", ""):
                cands.add(c["key"])
    ctx.check(len(cands) == 1, "K3.to-primitive-shared", "the four comparators share one to-primitive function (%s)" % cfg, "%d to-primitive functions" % len(cands), where="", nontrivial=True)
    if len(cands) != 1 or tpn is None:
        return
    tp = facts.body(cands.pop())
    strf = to_string_role(facts)
    hint_args = [l for l in range(1, tp.arg_count + 1) if "Hint" in tp.local_ty(l)]

    def known(e, adt):
        if hint_args and strip_refs(e) == ("arg", hint_args[0]):
            return "Number"
        return None
    # read through the private helpers to-primitive calls (a predicate on the hint, say) — but not through the two
    # functions the clause is about: the number-hint conversion and the string form stay calls in the cases
    from . import x_ipath
    keep = {tpn.key} | ({strf.key} if strf is not None else set())
    cases = x_ipath.decision_cases(facts, tp, lambda c: c.get("key") not in keep, known=known)
    if cases is None:
        cases = optnorm.decision_cases(facts, tp, known=known)
    ctx.need(cases is not None, "to-primitive has loops or too many paths to summarise")
    val_arg = [l for l in range(1, tp.arg_count + 1) if tp.local_ty(l).endswith("serde_json::Value")]
    ctx.need(len(val_arg) == 1, "to-primitive's value parameter not identified")
    va = val_arg[0]
    tpn_key = None
    bad = []
    seen = set()
    for conds, v, p in cases:
        # the state of the number-hint conversion in this case
        st = None
        for k, val in conds.items():
            if k[0] == "variant" and (tpn.key + "@") in k[1] and ("(arg %d)" % va) in k[1]:
                st = val
                tpn_key = k[1]
        v = strip_refs(v)
        ctor = None
        inner = None
        if v[0] == "agg" and v[1].get("variant") in ("Number", "String") and len(v[2]) == 1:
            ctor, inner = v[1]["variant"], strip_refs(v[2][0])
        elif v[0] == "call" and v[1] and v[1].get("path", "").endswith(("::Primitive::Number", "::Primitive::String")) and len(v[2]) == 1:
            ctor, inner = v[1]["path"].rsplit("::", 1)[1], strip_refs(v[2][0])
        if ctor == "Number" and st == "Some" and inner[0] == "payload" and inner[1] == tpn_key:
            seen.add("number")
            continue
        if ctor == "String" and st == "None" and inner[0] == "call" and inner[1] and inner[1].get("key") == strf.key and strip_refs(inner[2][0]) == ("arg", va):
            seen.add("string")
            continue
        bad.append("%s ⇒ %s" % ({(k[1][:50] if k[0] == "variant" else str(k)): val for k, val in conds.items()}, show_expr(v)[:90]))
    ctx.check(not bad and seen == {"number", "string"}, "K3.to-primitive-composition", "to-primitive = number-hint conversion when it yields a number, else the string form — nothing else (%s)" % cfg,
              "to-primitive has cases outside that rule: %s" % "; ".join(bad[:3]) if bad else "to-primitive never yields %s" % sorted({"number", "string"} - seen), where=tp.where(), fn=tp.key, nontrivial=True,
              sample={"cases": len(cases), "forms": sorted(seen)})


def to_primitive_number(facts, roles, comparators):
    cands = set()
    for f in comparators.values():
        for k in facts.reach([f.key]):
            it = facts.items.get(k, {})
            if it.get("output") == "std::option::Option<f64>" and it.get("inputs") == ["&serde_json::Value"] and facts.body(k) and not any(callee_of(t) and callee_of(t)["local"] for _, t in facts.body(k).calls()):
                cands.add(k)
    return [facts.body(k) for k in sorted(cands)]


def comparator_view(facts, f, s2n):
    """(facts, body) of the comparator with the private helpers it reaches inlined at their call sites (rules/inline.py,
    as pairs._view) when the to-primitive conversions are not made in the comparator's own body; the to-primitive
    function(s) and the string→number conversion are never inlined."""
    prim = [t for _, t in f.calls() if callee_of(t) and callee_of(t)["local"] and "Primitive" in facts.items.get(callee_of(t)["key"], {}).get("output", "")]
    if len(prim) == 2:
        return facts, f
    stop = {k for k in facts.reach([f.key]) if "Primitive" in facts.items.get(k, {}).get("output", "")} | {s2n.key}
    from .pairs import _view
    v = _view(facts, f, stop)
    fv = v.body(f.key)
    return (v, fv) if fv is not None else (facts, f)


def comparator_matrix(ctx, facts, roles, f, s2n, op, cfg):
    want_op = WANT[op]
    # delegation to a sibling?
    local_bool = [(bi, t) for bi, t in f.calls() if callee_of(t) and callee_of(t)["local"] and facts.items.get(callee_of(t)["key"], {}).get("output") == "bool" and facts.items[callee_of(t)["key"]].get("inputs") == ["&serde_json::Value", "&serde_json::Value"]]
    if local_bool:
        names = [callee_path(t) for _, t in local_bool]
        ctx.fail("K2.delegation", "%s|%s" % (op, ",".join(sorted(set(names)))), "the comparator for %s is built from %s (e.g. `not >` or `< or ==`): a comparison with a non-numeric conversion must be false, and abstract equality has another coercion table" % (op, names), where=f.where(), fn=f.key)
        return None
    # the decision cases of the comparator (rules/optnorm.py): kinds of the two to-primitive results, state of the
    # string→number conversion, and what is returned — independent of match / if-let / combinator spelling
    from . import optnorm, pathsum
    prim = [(bi, t) for bi, t in f.calls() if callee_of(t) and callee_of(t)["local"] and "Primitive" in facts.items.get(callee_of(t)["key"], {}).get("output", "")]
    ctx.check(len(prim) == 2 and len({callee_of(t)["key"] for _, t in prim}) == 1, "K2.to-primitive", "%s converts both operands with the shared to-primitive (%s)" % (op, cfg), "%d to-primitive calls" % len(prim), where=f.where(), fn=f.key, nontrivial=True)
    if len(prim) != 2:
        return None
    tp_key = callee_of(prim[0][1])["key"]
    order = {}
    for bi, t in prim:
        a = strip_refs(f.trace(t["args"][0]))
        if len(t["args"]) > 1:
            hint = strip_refs(f.trace(t["args"][1]))
            hv = hint[1].get("variant") if hint[0] == "agg" else None
            ctx.check(hv == "Number", "K2.hint", "%s: to-primitive with number hint (bb%d, %s)" % (op, bi, cfg), "hint is %s" % hv, where=f.where(bi), fn=f.key)
        if a[0] == "arg":
            order[bi] = a[1]
    ctx.check(sorted(order.values()) == [1, 2], "K2.both-operands", "%s converts (first, second) (%s)" % (op, cfg), "to-primitive applied to %s" % order, where=f.where(), fn=f.key)
    cases = optnorm.decision_cases(facts, f)
    if cases is None:
        ctx.unread("K2.case", "%s (%s)" % (op, cfg), "the comparator has loops or too many paths to summarise", where=f.where(), fn=f.key)
        return None

    def side_of(text):
        a1, a2 = "(arg 1)" in text, "(arg 2)" in text
        return 1 if a1 and not a2 else 2 if a2 and not a1 else None

    def ord_source(X):
        """(domain, (side, side)) when X is the Ordering (or its Option) of comparing the two operands' primitives."""
        X = strip_refs(X)
        if X[0] == "payload":
            X = strip_refs(X[2])
        if X[0] == "field" and X[1][0] == "downcast" and X[1][2] == "Some":
            X = strip_refs(X[1][1])
        if X[0] == "agg" and X[1].get("variant") == "Some" and X[2]:
            X = strip_refs(X[2][0])
        if X[0] == "call" and X[1] and re.search(r"::(partial_cmp|cmp|total_cmp)$", X[1]["path"]) and len(X[2]) == 2:
            if X[1]["path"].endswith("total_cmp"):
                return None
            sa, sb = side_of(pathsum.canon(X[2][0])), side_of(pathsum.canon(X[2][1]))
            full = (X[1].get("full") or "") + X[1]["path"]
            dom = "f64" if "f64" in full else "str" if ("String" in full or "str" in full) else None
            if dom and (sa, sb) in ((1, 2), (2, 1)):
                return (dom, (sa, sb))
        return None

    def reading(v):
        v = strip_refs(v)
        if v[0] == "const" and isinstance(const_value(v[1]), bool):
            return ("const", const_value(v[1]))
        if v[0] == "const" and v[1].get("ty") == "rel":
            return ("rel", v[1]["rel"][0], v[1]["rel"][1])
        if v[0] == "binop" and v[1] in ("Lt", "Le", "Gt", "Ge") and (len(v) < 5 or v[4] in ("f64", None)):
            sa, sb = side_of(pathsum.canon(v[2])), side_of(pathsum.canon(v[3]))
            o = v[1]
            if (sa, sb) == (2, 1):
                o, sa, sb = FLIP[o], 1, 2
            return ("rel", o, "f64") if (sa, sb) == (1, 2) else None
        if v[0] == "call" and v[1]:
            mm = re.search(r"PartialOrd.*::(lt|le|gt|ge)$", v[1]["path"])
            if mm and len(v[2]) == 2 and ("String" in (v[1].get("full") or "") or "str" in (v[1].get("full") or "")):
                sa, sb = side_of(pathsum.canon(v[2][0])), side_of(pathsum.canon(v[2][1]))
                o = mm.group(1).capitalize()
                if (sa, sb) == (2, 1):
                    o, sa, sb = FLIP[o], 1, 2
                return ("rel", o, "str") if (sa, sb) == (1, 2) else None
            # `compare(a, b) == Some(Ordering::Less)` and friends
            if re.search(r"PartialEq.*::(eq)$", v[1]["path"]) and len(v[2]) == 2:
                for X, Y in ((strip_refs(v[2][0]), strip_refs(v[2][1])), (strip_refs(v[2][1]), strip_refs(v[2][0]))):
                    want_o = None
                    if Y[0] == "agg" and Y[1].get("variant") == "Some" and Y[2] and strip_refs(Y[2][0])[0] == "agg" and strip_refs(Y[2][0])[1].get("variant") in ORD:
                        want_o = strip_refs(Y[2][0])[1]["variant"]
                    elif Y[0] == "agg" and Y[1].get("variant") in ORD:
                        want_o = Y[1]["variant"]
                    if want_o is None:
                        continue
                    if X[0] == "agg" and X[1].get("variant") == "Some" and X[2]:
                        X = strip_refs(X[2][0])
                    if X[0] == "call" and X[1] and "from_residual" in X[1].get("path", ""):
                        return ("const", False)       # None == Some(_) is false
                    rel = ord_source(X)
                    if rel:
                        o = {"Less": "Lt", "Greater": "Gt", "Equal": "Eq"}[want_o]
                        if rel[1] == (2, 1):
                            o = FLIP.get(o, o)
                        return ("rel", o, rel[0])
            mo = re.search(r"^std::cmp::Ordering::is_(lt|le|gt|ge)$", v[1]["path"])
            if mo and v[2]:
                rel = ord_source(strip_refs(v[2][0]))
                if rel:
                    o = mo.group(1).capitalize()
                    if rel[1] == (2, 1):
                        o = FLIP[o]
                    return ("rel", o, rel[0])
            mm = re.search(r"^std::iter::Iterator::(lt|le|gt|ge)$", v[1]["path"])
            if mm and len(v[2]) == 2:
                # lexicographic comparison of two element sequences: the order is that of the elements
                ca, cb = pathsum.canon(v[2][0]), pathsum.canon(v[2][1])
                sa, sb = side_of(ca), side_of(cb)
                unit = lambda c: "utf16" if "encode_utf16" in c else "str" if re.search(r"::(chars|bytes|as_bytes)\(", c) else "?"
                o = mm.group(1).capitalize()
                if (sa, sb) == (2, 1):
                    o, sa, sb = FLIP[o], 1, 2
                if (sa, sb) == (1, 2) and unit(ca) == unit(cb) and unit(ca) != "?":
                    return ("rel", o, unit(ca))
        return None
    # order of strings is code-point order: no re-encoding or case mapping inside the comparator
    own = facts.reach([f.key]) - facts.reach([tp_key, s2n.key])
    for bk in sorted(own):
        bb = facts.body(bk)
        if bb is None:
            continue
        for bi, t in bb.calls():
            pth = callee_path(t) or ""
            if re.search(r"::(encode_utf16|to_lowercase|to_uppercase|to_ascii_lowercase|to_ascii_uppercase|eq_ignore_ascii_case)$", pth):
                ctx.fail("K2.code-point-order", "%s|%s" % (op, pth.rsplit("::", 1)[1]), "the comparator for %s re-encodes or case-maps its strings (%s): strings must be compared by code point" % (op, pth), where=bb.where(bi), fn=bb.key)
    # numbers are compared as the doubles they convert to: no ordering decision in the comparator's own code is taken on
    # the 64-bit integer readings of a JSON number (distinct integers above 2^53 convert to the same double)
    def _int_reading(bb, o):
        return expr_mentions(bb.trace(o), lambda y: y[0] == "call" and y[1] is not None and re.search(r"^serde_json::Number::as_(i64|u64|i128|u128)$", y[1]["path"]) is not None)
    for bk in sorted(own):
        bb = facts.body(bk)
        if bb is None:
            continue
        for bi, t in bb.calls():
            pth = callee_path(t) or ""
            full = (callee_of(t) or {}).get("full") or ""
            if re.search(r"(PartialOrd|Ord).*::(cmp|partial_cmp|lt|le|gt|ge|max|min)$", pth) and re.search(r"<[iu](64|128) as | for [iu](64|128)>", full + " " + pth) and any(_int_reading(bb, a) for a in t["args"]):
                ctx.fail("K2.numeric-domain", "%s|%s" % (op, bk.split("::", 1)[1]), "the comparator for %s orders JSON numbers by their 64-bit integer readings (%s on as_i64/as_u64): operands must be compared as the doubles they convert to" % (op, full), where=bb.where(bi), fn=bb.key)
        for bi, si, st in bb.stmts():
            if st["k"] == "Assign" and st["rv"]["k"] == "BinaryOp" and st["rv"]["op"] in ("Lt", "Le", "Gt", "Ge", "Eq", "Ne", "Cmp") and re.match(r"^[iu](64|128)$", st["rv"].get("opty") or "") and (_int_reading(bb, st["rv"]["a"]) or _int_reading(bb, st["rv"]["b"])):
                ctx.fail("K2.numeric-domain", "%s|%s" % (op, bk.split("::", 1)[1]), "the comparator for %s orders JSON numbers by their 64-bit integer readings (%s on %s): operands must be compared as the doubles they convert to" % (op, st["rv"]["op"], st["rv"]["opty"]), where=bb.where(bi, si), fn=bb.key)
    # a case keyed by the state of an Option *combinator chain* (`str_to_number(s).and_then(|n| f.partial_cmp(&n))` asked
    # for None / Some(Less) …) is restated on the chain's sources (rules/optnorm.py src_cases: the state of the
    # string→number conversion, the outcome of the comparison inside the closure), so that it reads like the same
    # decision written with nested matches
    extra_exprs = {}
    COMB = re.compile(r"^std::option::Option::<T>::(and_then|map|filter|or_else|or|zip|xor)$")

    def chain_of(ex):
        X, inner = strip_refs(ex), False
        if X[0] == "payload":
            X, inner = strip_refs(X[2]), True
        if X[0] == "field" and isinstance(X[1], tuple) and X[1][0] == "downcast" and X[1][2] == "Some":
            X, inner = strip_refs(X[1][1]), True
        if X[0] == "call" and X[1] and COMB.match(X[1].get("path") or ""):
            return X, inner
        return None, False

    def atom_expr(k):
        ex_ = extra_exprs.get(k)
        if ex_ is None:
            ex_ = (cases.exprs or {}).get(k)
        if ex_ is None:
            ex_ = optnorm.SRC_EXPRS.get(k)
        return ex_
    restated = []
    for conds, v, p in cases:
        chains = {}
        for k, val in conds.items():
            if k[0] != "variant" or atom_expr(k) is None:
                continue
            E, inner = chain_of(atom_expr(k))
            if E is not None:
                ent = chains.setdefault(pathsum.canon(E), {"E": E, "opt": None, "ord": None, "keys": []})
                ent["ord" if inner else "opt"] = val
                ent["keys"].append(k)
        sc = None
        if len(chains) == 1:
            ent = next(iter(chains.values()))
            sc = optnorm.src_cases(facts, ent["E"], "opt")
        if not sc:
            restated.append((conds, v, p))
            continue
        tag = "None" if ent["opt"] == "None" else "Some"
        base = {k: val for k, val in conds.items() if k not in ent["keys"]}
        for c2, t2, payload in sc:
            if t2 != tag:
                continue
            nc, feasible = dict(base), True
            for k2, v2 in c2:
                if k2 in nc and nc[k2] != v2:
                    feasible = False
                nc[k2] = v2
            if not feasible:
                continue
            if tag == "Some" and ent["ord"] is not None:
                pk = ("variant", "ordering of " + pathsum.canon(strip_refs(payload)))
                extra_exprs[pk] = payload
                nc[pk] = ent["ord"]
            restated.append((nc, v, p))
    groups = {}
    for conds, v, p in restated:
        kinds = {}
        conv = {}
        for k, val in conds.items():
            if k[0] != "variant":
                continue
            if k[1].startswith(tp_key + "@") and side_of(k[1]):
                kinds[side_of(k[1])] = val
            elif k[1].startswith(s2n.key + "@") and side_of(k[1]):
                conv[side_of(k[1])] = val
        # `match compare(a, b) { Some(Less) | Some(Equal) => true, _ => false }`: the case is keyed by the outcome of an ordering
        okey = None
        for k, val in conds.items():
            if k[0] != "variant":
                continue
            ex_ = atom_expr(k)
            if ex_ is None:
                continue
            rel = ord_source(ex_)
            if rel is None:
                continue
            if val in ORD:
                okey = (rel, frozenset([val]))
            elif isinstance(val, tuple) and val and val[0] == "not" and okey is None:
                okey = (rel, frozenset(o_ for o_ in ORD if o_ not in val[1]) if any(x in ORD for x in val[1]) else None)
            elif val == "None":
                okey = (rel, frozenset())
            elif val == "Some" and okey is None:
                okey = (rel, None)
        groups.setdefault((kinds.get(1), kinds.get(2)), []).append((conv, v, okey))
    # every result is decided on the two primitives: a case that returns without the to-primitive result of both operands
    # (a fast path keyed on the operands' own kinds — arrays ordered element by element, say) is decided by another rule
    for gk in sorted(groups, key=str):
        if gk[0] is None or gk[1] is None:
            outs = sorted({show_expr(strip_refs(v))[:70] for _, v, _ in groups[gk]})
            ctx.fail("K2.case", "%s: a result without to-primitive of %s (%s)" % (op, "both operands" if gk == (None, None) else "one operand", cfg),
                     "the comparator for %s returns %s on paths that have not converted both operands with to-primitive: the result is decided by something other than the relational comparison of the two primitives" % (op, outs[:3]),
                     where=f.where(), fn=f.key)
    # fold ordering-keyed constant cases into one reading per (kinds, conversion state)
    for gk, lst in list(groups.items()):
        if not any(o is not None for _, _, o in lst):
            groups[gk] = [(c, v) for c, v, _ in lst]
            continue
        folded = {}
        plain = []
        for c, v, o in lst:
            if o is None:
                plain.append((c, v))
                continue
            folded.setdefault(tuple(sorted(c.items())), []).append((v, o))
        for ck, items in folded.items():
            true_set, ok_, rel = set(), True, None
            covered = set()
            for v, (r_, outs) in items:
                rel = r_
                vv = strip_refs(v)
                if not (vv[0] == "const" and isinstance(const_value(vv[1]), bool)) or outs is None:
                    ok_ = False
                    continue
                covered |= set(outs)
                if const_value(vv[1]):
                    if not outs:
                        ok_ = False      # "unordered" must be false
                    true_set |= set(outs)
            if ok_ and covered >= set(ORD):
                name = [n for n, s_ in ORD_SETS.items() if s_ == true_set and n != "Eq"]
                if name:
                    o = name[0]
                    if rel[1] == (2, 1):
                        o = FLIP[o]
                    plain.append((dict(ck), ("const", {"ty": "rel", "rel": (o, rel[0])})))
                    continue
                plain.append((dict(ck), ("const", {"ty": "rel", "rel": ("?%s" % sorted(true_set), rel[0])})))
                continue
            plain.append((dict(ck), ("other", "ordering-case")))
        groups[gk] = plain
    m = {}
    for k1 in ("String", "Number"):
        for k2 in ("String", "Number"):
            key = "%s: %s×%s (%s)" % (op, k1, k2, cfg)
            g = groups.get((k1, k2))
            if not g:
                ctx.unread("K2.case", key, "no decision case of the comparator could be attributed to this pair of primitive kinds", where=f.where(), fn=f.key)
                continue
            reads = [(conv, reading(v), v) for conv, v in g]
            if any(r is None for _, r, _ in reads):
                ctx.unread("K2.case", key, "result not readable as a comparison of (first, second): %s" % [show_expr(strip_refs(v))[:80] for _, r, v in reads if r is None][:2], where=f.where(), fn=f.key)
                continue
            m[(k1, k2)] = reads
            if k1 == k2:
                dom = "str" if k1 == "String" else "f64"
                good = all(not conv and r == ("rel", want_op, dom) for conv, r, _ in reads)
            else:
                sside = 1 if k1 == "String" else 2
                good = bool(reads)
                states = set()
                for conv, r, _ in reads:
                    st = conv.get(sside)
                    states.add(st)
                    if set(conv) - {sside}:
                        good = False
                    if st == "Some":
                        good = good and r == ("rel", want_op, "f64")
                    elif st == "None":
                        good = good and r == ("const", False)
                    else:
                        good = False
                good = good and states == {"Some", "None"}
            ctx.check(good, "K2.case", key, "%s on %s×%s decides %s; expected one %s comparison of (first, second)%s" % (
                op, k1, k2, [(dict(c), r) for c, r, _ in reads], want_op, "" if k1 == k2 else " after converting the string side, a failed conversion ⇒ false"), where=f.where(), fn=f.key, nontrivial=True,
                sample={"operator": op, "case": "%s×%s" % (k1, k2), "decisions": [[dict(c), list(r)] for c, r, _ in reads]})
    return m


def side(e, order):
    """1/2: which operand (after to-primitive / string→number) an expression derives from."""
    hits = set()

    def p(x):
        if x[0] == "call" and x[3] in order:
            hits.add(order[x[3]])
        return False
    expr_mentions(e, p)
    return hits.pop() if len(hits) == 1 else None
