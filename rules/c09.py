#!/usr/bin/env python3
"""C09 — <, <=, >, >= follow ECMAScript relational comparison, incl. between.

Necessary structural conditions (conversion values and code-point ordering are not decided):
  K1  between: each of the four operators accepts 2 or 3 operands; with two the
      result is cmp(op0, op1); with three it is cmp(op0, op1) AND cmp(op1, op2) —
      the second comparison sits under the true edge of the first, the false
      edge yields the constant false; the operands reach the comparator
      untouched (index plumbing only, no conversion in between);
  K2  sibling agreement of the four comparators: each converts both operands with
      the shared to-primitive (number hint) and then, per pair of primitive kinds
      (variant specialisation, 4 cases): String×String → string ordering of the
      two payloads; Number×Number → float comparison of the two payloads;
      String×Number / Number×String → the shared string→number conversion of
      the string side, None ⇒ constant false, Some ⇒ float comparison — with one
      and the same relational operator in all four cases, and that operator is
      the one the table name says (< Lt, <= Le, > Gt, >= Ge), operands in order;
      no comparator calls abstract equality or negates a sibling (NaN cases);
  K3  to-primitive with number hint: Null → 0, Bool → 1/0 by payload, Number →
      as_f64, String/Array/Object → no number (string form is used);
  K4  the shared string→number conversion (A3 and ES structure, as in C07 K4).
"""
import re
from .core import (callee_of, callee_path, strip_refs, strip_payload, show_expr, const_value, expr_mentions, op_const, edge_dominates, bool_edge, switch_edges_for_variant)
from .engine import Inconclusive
from .roles import Roles
from . import prov as P
from . import strnum, table as T

VALUE = "serde_json::Value"
INDEX_PATH = "<std::vec::Vec<T, A> as std::ops::Index<I>>::index"
WANT = {"<": "Lt", "<=": "Le", ">": "Gt", ">=": "Ge"}
FLIP = {"Lt": "Gt", "Le": "Ge", "Gt": "Lt", "Ge": "Le"}


def operand_index(b, e, vecp):
    """n when e is the n-th operand: v[n], or the payload of v.get(n) / v.first()."""
    if isinstance(e, dict):
        e = b.trace(e)
    e = strip_payload(strip_refs(e))
    if e[0] != "call" or not e[1]:
        return None
    base = strip_refs(e[2][0]) if e[2] else None
    while base is not None and base[0] == "call" and base[1] and base[1]["path"].endswith("Deref>::deref"):
        base = strip_refs(base[2][0])
    if base != ("arg", vecp):
        return None
    p = e[1]["path"]
    if p == INDEX_PATH or re.search(r"^core::slice::<impl \[T\]>::get$|^std::vec::Vec::<T, A>::get$", p):
        i = strip_refs(e[2][1])
        return const_value(i[1]) if i[0] == "const" else None
    if p == "core::slice::<impl [T]>::first":
        return 0
    return None


def comparator_sites(facts, body, vecp):
    """Calls of a (&Value,&Value)→bool callable in `body`: [(bi, callee key or 'param', (i, j))]."""
    out = []
    for bi, t in body.calls():
        c = callee_of(t)
        if c is None:
            continue
        if c["path"].startswith("std::ops::Fn") and c["path"].endswith("::call") and len(t["args"]) == 2:
            tup = strip_refs(body.trace(t["args"][1]))
            if tup[0] == "agg" and tup[1].get("agg") == "Tuple" and len(tup[2]) == 2:
                out.append((bi, "param", (operand_index(body, tup[2][0], vecp), operand_index(body, tup[2][1], vecp))))
        elif c["local"] and facts.items.get(c["key"], {}).get("output") == "bool" and facts.items[c["key"]].get("inputs") == ["&serde_json::Value", "&serde_json::Value"]:
            out.append((bi, c["key"], (operand_index(body, t["args"][0], vecp), operand_index(body, t["args"][1], vecp))))
    return out


def run(ctx):
    ctx.explanation = __doc__
    ctx.rule = "instances = 4 operators × (arity, between shape, 4 primitive-kind cases with operator reading) + to-primitive matrix + conversion facts; non-trivial = specialisation, dominance"
    ctx.trusted = ["Rust's String ordering is code-point (UTF-8 byte) order", "IEEE comparisons with NaN are false", "C16 for the string form"]
    cfgs = ["default"] if ctx.tier == "quick" else ["default", "python", "wasm"]
    for cfg in cfgs:
        facts = ctx.facts(cfg)
        roles = Roles(facts)
        s2n = strnum.check(ctx, facts, cfg, clause="K4")
        # the string form through which containers are compared (structure as in C16 K4)
        from .c16 import to_string_role, string_form_clauses
        string_form_clauses(ctx, facts, roles, to_string_role(facts), cfg, "K5")
        comparators = {}
        for op in ("<", "<=", ">", ">="):
            b, e = roles.fn_of(op)
            acc = e.accepted()
            ctx.check(acc == (2, 3) and e.table.role == "eager", "K1.arity", "%s takes two or three evaluated operands (%s)" % (op, cfg), "%s accepts %s operands in the %s table" % (op, acc, e.table.role), where=b.where(), fn=b.key)
            # the body that applies the comparator: the bound fn itself or a forwarding helper
            host, vecp, cmp_key = b, (2 if b.kind == "closure" else 1), None
            sites = comparator_sites(facts, host, vecp)
            if not sites:
                fw = [(bi, t) for bi, t in b.calls() if callee_of(t) and callee_of(t)["local"]]
                ctx.need(len(fw) == 1, "%s neither compares nor forwards to one helper" % op)
                bi, t = fw[0]
                host = facts.body(callee_of(t)["key"])
                # which argument is the operand vector, which the comparator
                for i, a in enumerate(t["args"]):
                    c = op_const(a)
                    if c and "fn" in c:
                        cmp_key = (c["fn"].get("resolved") or c["fn"])["key"]
                    elif strip_refs(b.trace(a)) == ("arg", vecp):
                        hv = i + 1
                vecp = hv
                sites = comparator_sites(facts, host, vecp)
                extra = [callee_path(tt) for _, tt in host.calls() if not (callee_path(tt) in (INDEX_PATH, "std::vec::Vec::<T, A>::len", "core::slice::<impl [T]>::get", "core::slice::<impl [T]>::len", "core::slice::<impl [T]>::first", "<std::vec::Vec<T, A> as std::ops::Deref>::deref") or (callee_path(tt) or "").startswith("std::ops::Fn"))]
                ctx.check(not extra, "K1.untouched", "%s: operands reach the comparator untouched (%s)" % (op, cfg), "the between helper also calls %s — operands are converted before the adjacent comparisons" % extra, where=host.where(), fn=host.key, nontrivial=True)
            else:
                keys = {s[1] for s in sites}
                ctx.need(len(keys) == 1, "%s uses several comparators" % op)
                cmp_key = keys.pop()
            ctx.need(cmp_key and cmp_key != "param", "%s: comparator function not identified" % op)
            comparators[op] = facts.body(cmp_key)
            # between shape
            two = three = None
            for sb in host.reachable():
                tt = host.blocks[sb]["term"]
                if tt["k"] == "SwitchInt":
                    e2 = strip_refs(host.trace(tt["discr"]))
                    if e2[0] == "binop" and e2[1] in ("Eq", "Ne") and strip_refs(e2[2])[0] == "call" and strip_refs(e2[2])[1]["path"].endswith("::len") and strip_refs(e2[3])[0] == "const":
                        k = const_value(strip_refs(e2[3])[1])
                        if k in (2, 3):
                            t_edge = bool_edge(host, sb, e2[1] == "Eq")
                            f_edge = bool_edge(host, sb, e2[1] != "Eq")
                            two, three = ((sb, t_edge), (sb, f_edge)) if k == 2 else ((sb, f_edge), (sb, t_edge))
            if two is None:
                # `match items.get(2) { None => two-operand form, Some(third) => three-operand form }`
                from .core import option_guards
                for (sw_, t_some, t_none) in option_guards(host, lambda x: x[0] == "call" and x[1] and re.search(r"::get$", x[1]["path"]) is not None and strip_refs(x[2][1])[0] == "const" and const_value(strip_refs(x[2][1])[1]) == 2):
                    two, three = (sw_, t_none), (sw_, t_some)
            ctx.check(two is not None, "K1.len-split", "%s distinguishes the two- and three-operand forms by the operand count (%s)" % (op, cfg), "no test of the operand count", where=host.where(), fn=host.key, nontrivial=True)
            if two is None:
                continue
            # the comparisons made in each form: all sites except those confined to the other form
            s2 = [s for s in sites if not edge_dominates(host, three[0], three[1], s[0])]
            s3 = [s for s in sites if not edge_dominates(host, two[0], two[1], s[0])]
            ctx.check(sorted((x[2] for x in s2), key=str) == [(0, 1)], "K1.two-operand", "%s with two operands is cmp(op0, op1) (%s)" % (op, cfg), "two-operand form compares %s" % [x[2] for x in s2], where=host.where(), fn=host.key, nontrivial=True)
            ctx.check(sorted((x[2] for x in s3), key=str) == [(0, 1), (1, 2)], "K1.three-operand", "%s with three operands compares (op0,op1) and (op1,op2) (%s)" % (op, cfg), "three-operand form compares %s" % [x[2] for x in s3], where=host.where(), fn=host.key, nontrivial=True,
                      sample={"operator": op, "pairs": [x[2] for x in s3]})
            first = [x for x in s3 if x[2] == (0, 1)]
            second = [x for x in s3 if x[2] == (1, 2)]
            if first and second:
                fb, sbk = first[0][0], second[0][0]
                conj = False
                for sw in host.reachable():
                    tt = host.blocks[sw]["term"]
                    if tt["k"] == "SwitchInt":
                        ex = strip_refs(host.trace(tt["discr"]))
                        if ex[0] == "call" and ex[3] == fb:
                            if edge_dominates(host, sw, bool_edge(host, sw, True), sbk):
                                # false edge → constant false
                                tg = bool_edge(host, sw, False)
                                region = host.reachable(tg) - host.reachable(bool_edge(host, sw, True))
                                vals = []
                                for bi in region | {tg}:
                                    for st in host.blocks[bi]["stmts"]:
                                        if st["k"] == "Assign" and st["rv"]["k"] == "Use" and op_const(st["rv"]["op"]) and isinstance(const_value(op_const(st["rv"]["op"])), bool):
                                            vals.append(const_value(op_const(st["rv"]["op"])))
                                conj = vals == [False]
                ctx.check(conj, "K1.conjunction", "%s: second comparison only if the first holds, else false (%s)" % (op, cfg), "the three-operand form is not cmp(a,b) && cmp(b,c)", where=host.where(), fn=host.key, nontrivial=True)
        # ---------------- K2
        mats = {}
        for op, f in comparators.items():
            m = comparator_matrix(ctx, facts, roles, f, s2n, op, cfg)
            mats[op] = m
        # ---------------- K3
        tp = to_primitive_number(facts, roles, comparators)
        to_primitive_composition(ctx, facts, roles, comparators, tp, cfg)
        if tp is not None:
            want = {"Null": "Some(0.0)", "Bool": "Some(1.0)|Some(0.0)", "Number": "as_f64", "String": "None", "Array": "None", "Object": "None"}
            for v in facts.variants(VALUE):
                blocks, dec = tp.specialize(lambda e, a, _v=v: _v if (a == VALUE and e == ("arg", 1)) else None)
                with tp.restricted(blocks):
                    r = strip_refs(tp.trace(0))
                cands = [strip_refs(x) for x in r[2]] if r[0] == "phi" else [r]
                got = []
                for c in cands:
                    if c[0] == "agg" and c[1].get("variant") == "None":
                        got.append("None")
                    elif c[0] == "agg" and c[1].get("variant") == "Some" and strip_refs(c[2][0])[0] == "const":
                        got.append("Some(%s)" % const_value(strip_refs(c[2][0])[1]))
                    elif c[0] == "call" and c[1]["path"] == "serde_json::Number::as_f64":
                        got.append("as_f64")
                    else:
                        got.append("?")
                g = "|".join(got)
                ok = g == want[v]
                if v == "Bool" and ok:
                    # polarity: true → 1
                    ok = False
                    for sb in blocks:
                        tt = tp.blocks[sb]["term"]
                        if tt["k"] == "SwitchInt" and tt.get("dty") == "bool":
                            from .opfacts import const_under_edge
                            tg = bool_edge(tp, sb, True)
                            for st in tp.blocks[tg]["stmts"]:
                                if st["k"] == "Assign" and st["rv"]["k"] == "Aggregate" and st["rv"].get("variant") == "Some":
                                    c = op_const(st["rv"]["ops"][0])
                                    ok = c is not None and const_value(c) == 1.0
                ctx.check(ok, "K3.to-primitive-number", "%s (%s)" % (v, cfg), "number-hint conversion of %s yields %s; expected %s" % (v, g, want[v]), where=tp.where(), fn=tp.key, nontrivial=True, sample={"kind": v, "conversion": g})


def to_primitive_composition(ctx, facts, roles, comparators, tpn, cfg):
    """The to-primitive function (number hint) is exactly: number-hint conversion, else the string form."""
    cands = set()
    for f in comparators.values():
        for bi, t in f.calls():
            c = callee_of(t)
            if c and c["local"] and "Primitive" in facts.items.get(c["key"], {}).get("output", ""):
                cands.add(c["key"])
    ctx.check(len(cands) == 1, "K3.to-primitive-shared", "the four comparators share one to-primitive function (%s)" % cfg, "%d to-primitive functions" % len(cands), where="", nontrivial=True)
    if len(cands) != 1:
        return
    tp = facts.body(cands.pop())
    unit = roles.unit(tp.key)
    local = sorted({callee_of(t)["key"] for b in unit for _, t in b.calls() if callee_of(t) and callee_of(t)["local"]})
    strform = [k for k in local if facts.items.get(k, {}).get("output") == "std::string::String" and facts.items[k].get("inputs") == ["&serde_json::Value"]]
    allowed = set(strform) | ({tpn.key} if tpn is not None else set())
    extra = [k for k in local if k not in allowed]
    ctx.check(not extra and len(strform) == 1 and tpn is not None and tpn.key in local, "K3.to-primitive-composition", "to-primitive = number-hint conversion, else the string form — nothing else (%s)" % cfg,
              "to-primitive also consults %s: some values would be compared as numbers although ECMAScript compares their string form (or vice versa)" % [k.split("::", 1)[1] for k in extra], where=tp.where(), fn=tp.key, nontrivial=True,
              sample={"calls": [k.split("::", 1)[1] for k in local]})
    for b in unit:
        for bi, t in b.calls():
            c = callee_of(t)
            if c and c["local"] and c["key"] in allowed:
                a = strip_refs(b.xtrace(t["args"][0]))
                ctx.check(a == ("arg", 1), "K3.to-primitive-whole-value", "%s is applied to the value itself (%s, bb%d)" % (c["key"].rsplit("::", 1)[1], cfg, bi), "applied to %s" % show_expr(a)[:60], where=b.where(bi), fn=b.key)


def to_primitive_number(facts, roles, comparators):
    cands = set()
    for f in comparators.values():
        for k in facts.reach([f.key]):
            it = facts.items.get(k, {})
            if it.get("output") == "std::option::Option<f64>" and it.get("inputs") == ["&serde_json::Value"] and facts.body(k) and not any(callee_of(t) and callee_of(t)["local"] for _, t in facts.body(k).calls()):
                cands.add(k)
    if len(cands) != 1:
        return None
    return facts.body(cands.pop())


def comparator_matrix(ctx, facts, roles, f, s2n, op, cfg):
    want_op = WANT[op]
    # delegation to a sibling?
    local_bool = [(bi, t) for bi, t in f.calls() if callee_of(t) and callee_of(t)["local"] and facts.items.get(callee_of(t)["key"], {}).get("output") == "bool" and facts.items[callee_of(t)["key"]].get("inputs") == ["&serde_json::Value", "&serde_json::Value"]]
    if local_bool:
        names = [callee_path(t) for _, t in local_bool]
        ctx.fail("K2.delegation", "%s|%s" % (op, ",".join(sorted(set(names)))), "the comparator for %s is built from %s (e.g. `not >` or `< or ==`): a comparison with a non-numeric conversion must be false, and abstract equality has another coercion table" % (op, names), where=f.where(), fn=f.key)
        return None
    # the two to-primitive calls
    prim = [(bi, t) for bi, t in f.calls() if callee_of(t) and callee_of(t)["local"] and "Primitive" in facts.items.get(callee_of(t)["key"], {}).get("output", "")]
    ctx.check(len(prim) == 2, "K2.to-primitive", "%s converts both operands with the shared to-primitive (%s)" % (op, cfg), "%d to-primitive calls" % len(prim), where=f.where(), fn=f.key, nontrivial=True)
    if len(prim) != 2:
        return None
    order = {}
    for bi, t in prim:
        a = strip_refs(f.trace(t["args"][0]))
        hint = strip_refs(f.trace(t["args"][1]))
        hv = hint[1].get("variant") if hint[0] == "agg" else None
        ctx.check(hv == "Number", "K2.hint", "%s: to-primitive with number hint (bb%d, %s)" % (op, bi, cfg), "hint is %s" % hv, where=f.where(bi), fn=f.key)
        if a[0] == "arg":
            order[bi] = a[1]
    ctx.check(sorted(order.values()) == [1, 2], "K2.both-operands", "%s converts (first, second) (%s)" % (op, cfg), "to-primitive applied to %s" % order, where=f.where(), fn=f.key)
    prim_adt = None
    for l in f.locals:
        if l.get("adt") and l["adt"].endswith("Primitive") and not l["adt"].startswith("std"):
            prim_adt = l["adt"]
    kinds = facts.variants(prim_adt)
    m = {}
    for k1 in kinds:
        for k2 in kinds:
            def assume(e, adt, _k1=k1, _k2=k2):
                if adt != prim_adt:
                    return None
                x = strip_refs(e)
                if x[0] == "call" and x[3] in order:
                    return _k1 if order[x[3]] == 1 else _k2
                return None
            restrict = P.specialise_unit(roles, f.key, assume)
            blocks = restrict[f.key]
            ops = []
            conv = []
            consts = []
            for bi in sorted(blocks):
                blk = f.blocks[bi]
                for si, st in enumerate(blk["stmts"]):
                    if st["k"] == "Assign" and st["rv"]["k"] == "BinaryOp" and st["rv"]["op"] in ("Lt", "Le", "Gt", "Ge", "Eq", "Ne"):
                        a_, b_ = strip_refs(f.trace(st["rv"]["a"])), strip_refs(f.trace(st["rv"]["b"]))
                        ops.append(("f64" if st["rv"].get("opty") == "f64" else st["rv"].get("opty"), st["rv"]["op"], side(a_, order), side(b_, order)))
                    if st["k"] == "Assign" and st["place"]["local"] == 0 and st["rv"]["k"] == "Use" and op_const(st["rv"]["op"]) and isinstance(const_value(op_const(st["rv"]["op"])), bool):
                        consts.append(const_value(op_const(st["rv"]["op"])))
                t = blk["term"]
                if t["k"] == "Call" and callee_of(t):
                    p = callee_of(t)
                    mm = re.search(r"<std::string::String as std::cmp::PartialOrd>::(lt|le|gt|ge)$|PartialOrd.*::(lt|le|gt|ge)$", p["path"])
                    if mm and ("String" in (p.get("full") or "") or "str" in (p.get("full") or "")):
                        nm = (mm.group(1) or mm.group(2)).capitalize()
                        a_, b_ = strip_refs(f.trace(t["args"][0])), strip_refs(f.trace(t["args"][1]))
                        ops.append(("str", nm, side(a_, order), side(b_, order)))
                    if p.get("key") == s2n.key:
                        conv.append(side(strip_refs(f.trace(t["args"][0])), order))
            # comparisons made inside closures handed to Option combinators (`conv(x).map_or(false, |n| n < s)`)
            for bi in sorted(blocks):
                t = f.blocks[bi]["term"]
                if t["k"] != "Call" or not callee_of(t):
                    continue
                pth = callee_of(t)["path"]
                if not re.search(r"^std::option::Option::<T>::(map_or|map|and_then|is_some_and|unwrap_or)$", pth):
                    continue
                meth = pth.rsplit("::", 1)[1]
                recv_side = side(strip_refs(f.trace(t["args"][0])), order)
                if meth in ("map_or", "unwrap_or"):
                    d_ = strip_refs(f.trace(t["args"][1]))
                    if d_[0] == "const" and isinstance(const_value(d_[1]), bool):
                        consts.append(const_value(d_[1]))
                if meth == "is_some_and":
                    consts.append(False)
                for a in t["args"][1:]:
                    ce = strip_refs(f.trace(a))
                    if ce[0] == "agg" and ce[1].get("closure"):
                        cb = facts.body(ce[1]["closure"])
                        for cbi, csi, st in cb.stmts():
                            if st["k"] == "Assign" and st["rv"]["k"] == "BinaryOp" and st["rv"]["op"] in ("Lt", "Le", "Gt", "Ge", "Eq", "Ne"):
                                def cside(o):
                                    e_ = strip_refs(cb.xtrace(o))
                                    if e_ in (("arg", 2), ("carg", cb.key, 2)):
                                        return recv_side
                                    return side(e_, order)
                                ops.append(("f64" if st["rv"].get("opty") == "f64" else st["rv"].get("opty"), st["rv"]["op"], cside(st["rv"]["a"]), cside(st["rv"]["b"])))
            m[(k1, k2)] = (ops, conv, consts)
            # expectations
            key = "%s: %s×%s (%s)" % (op, k1, k2, cfg)
            norm = []
            for (ty, o, sa, sb) in ops:
                if (sa, sb) == (2, 1):
                    o, sa, sb = FLIP.get(o, o), 1, 2
                norm.append((ty, o, sa, sb))
            if k1 == "String" and k2 == "String":
                good = norm == [("str", want_op, 1, 2)] and not conv
            elif k1 == "Number" and k2 == "Number":
                good = norm == [("f64", want_op, 1, 2)] and not conv
            else:
                sside = 1 if k1 == "String" else 2
                good = norm == [("f64", want_op, 1, 2)] and conv == [sside] and consts == [False]
            ctx.check(good, "K2.case", key, "%s on %s×%s performs %s with conversions of side %s and constants %s; expected one %s comparison of (first, second)%s" % (
                op, k1, k2, norm, conv, consts, want_op, "" if k1 == k2 else ", the string side converted, None ⇒ false"), where=f.where(), fn=f.key, nontrivial=True,
                sample={"operator": op, "case": "%s×%s" % (k1, k2), "comparisons": [list(x) for x in norm], "converted_side": conv})
    return m


def side(e, order):
    """1/2: which operand (after to-primitive / string→number) an expression derives from."""
    hits = set()

    def p(x):
        if x[0] == "call" and x[3] in order:
            hits.add(order[x[3]])
        return False
    expr_mentions(e, p)
    return hits.pop() if len(hits) == 1 else None
