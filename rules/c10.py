#!/usr/bin/env python3
"""C10 — arithmetic yields the exact IEEE-754 double or an error, never a wrong number.

Necessary structural conditions (the digit-level exactness of the string scanners is not decided):
  K1  result conversion (the one f64 → JSON-number function): the integer spelling
      `number as i64` (a saturating cast) is edge-dominated by the exact
      integrality test fract(number) == 0.0 and by the range guards
      number >= -2^63 and number < 2^63 (constants read); otherwise
      Number::from_f64(number) whose None (non-finite) becomes Err; the argument
      reaches both exits unrounded (no round/trunc/floor/ceil/abs);
  K2  every arithmetic table entry (+ - * / % min max) returns only through that
      conversion, and nothing else in their reach builds a JSON number;
  K3  operations: folds run left to right over all operands (no reversing /
      skipping adaptor); + folds float Add from 0.0, * folds float Mul from 1.0,
      - / % apply float Sub/Div/Rem to (operand 0, operand 1) in that order
      (one-operand - multiplies by -1 or negates), min/max fold from +inf/-inf
      with a strict float comparison; only double arithmetic — no integer
      accessor or integer operation anywhere in the arithmetic reach;
  K4  conversion routing: + and * use the parseFloat-style conversion only,
      - / % min max the Number-style conversion (which goes through the shared
      string→number conversion) only;
  K6  the shared string→number conversion behind the Number-style family has the
      ECMAScript structure and never exposes Rust's float grammar (as C07 K4);
  K7  the string form through which containers are converted ("[3] is 3") has the
      per-kind structure of C16 K4 (a number contributes its JSON text);
  K5  a non-numeric operand is an error: every conversion result is turned into
      Err at the conversion site (ok_or_else / None-edge return Err); none is
      consumed by unwrap_or*, filter_map, flatten or a defaulting arm.
"""
import re
from .core import (callee_of, callee_path, strip_refs, strip_payload, show_expr, const_value, expr_mentions, op_const, edge_dominates, bool_edge, switch_edges_for_variant)
from .engine import Inconclusive
from .roles import Roles
from .opfacts import Unit
from . import strnum

VALUE = "serde_json::Value"
OPS = ["+", "-", "*", "/", "%", "min", "max"]
ROUNDERS = re.compile(r"f64>::(round|trunc|floor|ceil|abs|round_ties_even|signum|clamp|mul_add|powi|powf|sqrt)$")
INT_ACC = re.compile(r"^serde_json::Number::(as_i64|as_u64|is_i64|is_u64)$|^core::num::<impl [iu](8|16|32|64|128|size)>::")
DEFAULTERS = re.compile(r"^std::option::Option::<T>::(unwrap_or|unwrap_or_else|unwrap_or_default|map_or|map_or_else|or|or_else)$|Iterator(>)?::(filter_map|flatten|flat_map)$")


def run(ctx):
    ctx.explanation = __doc__
    ctx.rule = "instances = facts of the result conversion, 7 operators × (return path, operation, routing, error discipline); non-trivial = dominance, constant reading, reach scans"
    ctx.trusted = ["IEEE-754 semantics of MIR float BinaryOps", "serde_json::Number::from_f64 returns None exactly for non-finite input", "Rust's decimal float parser is correctly rounded"]
    from . import manifest as _MF
    _MF.same_library_clause(ctx, "K1.number-model")
    cfgs = ["default"] if ctx.tier == "quick" else ["default", "python", "wasm"]
    for cfg in cfgs:
        facts = ctx.facts(cfg)
        roles = Roles(facts)
        items = facts.items
        conv = [b for b in facts.fns() if b.kind == "fn" and items.get(b.key, {}).get("inputs") == ["f64"] and items[b.key].get("output", "").startswith("std::result::Result<serde_json::Value")]
        if not conv:
            # no fallible conversion at all: is there an infallible one?  Then a non-finite result has no way to become an error
            inf = [b for b in facts.fns() if b.kind == "fn" and items.get(b.key, {}).get("inputs") == ["f64"] and items[b.key].get("output", "") == "serde_json::Value"]
            for b in inf:
                ctx.fail("K1.non-finite-is-error", "%s|infallible" % b.key.split("::", 1)[1], "the conversion of an arithmetic result into a JSON number (%s) cannot fail: a result that is not finite is turned into some value (serde_json maps it to null) instead of an error" % b.key.split("::", 1)[1], where=b.where(), fn=b.key)
            if inf:
                continue
        ctx.need(len(conv) == 1, "result conversion f64 → Result<Value> not identified (%d)" % len(conv))
        tnv = conv[0]
        k1(ctx, facts, tnv, cfg)
        s2n = strnum.check(ctx, facts, cfg, clause="K6")
        # containers reach both conversion families through the shared string form ("[3] is 3"): its per-kind
        # structure — numbers as their JSON text, elements joined with "," — is part of the arithmetic's input
        from .c16 import string_form_clauses, to_string_role
        string_form_clauses(ctx, facts, roles, to_string_role(facts), cfg, K="K7")
        convs = [b for b in facts.fns() if b.kind == "fn" and items.get(b.key, {}).get("inputs") == ["&serde_json::Value"] and items[b.key].get("output") == "std::option::Option<f64>"]
        number_style = [b for b in convs if s2n.key in facts.reach([b.key]) and any(callee_of(t) and callee_of(t)["local"] for _, t in b.calls())]
        float_style = [b for b in convs if s2n.key not in facts.reach([b.key]) and any(callee_of(t) and callee_of(t)["local"] for _, t in b.calls())]
        ctx.need(len(number_style) >= 1 and len(float_style) == 1, "the two conversion families were not identified (number-style %d, parseFloat-style %d)" % (len(number_style), len(float_style)))
        # the number-style entry is the one the arithmetic operators call (others are its helpers)
        pf = float_style[0]
        # parseFloat ignores leading white space: the prefix scan of the string form runs over the trimmed text
        pf_bodies = [facts.body(k) for k in sorted(facts.reach([pf.key])) if facts.body(k) is not None and not any(k == x.key for x in number_style)]
        # decimal digits are the ten ASCII digits: a Unicode-category test (char::is_numeric accepts ², ½, ٣ …) makes the
        # prefix scanner take characters the float parser then rejects — "5²" would be an error instead of 5
        conv_reach = set()
        for x_ in [pf] + number_style + [s2n]:
            conv_reach |= facts.reach([x_.key])
        for k_ in sorted(conv_reach):
            xb = facts.body(k_)
            if xb is None:
                continue
            for bi, t in xb.calls():
                if re.search(r"^std::char::methods::<impl char>::(is_numeric|is_alphanumeric|is_alphabetic)$", callee_path(t) or ""):
                    ctx.fail("K4.ascii-digits", "%s|%s" % (xb.key.split("::", 1)[1], (callee_path(t) or "").rsplit("::", 1)[1]), "the string→number conversion classifies characters with %s, a Unicode category test: non-ASCII numerals and letters are treated as part of a number" % (callee_path(t) or "").rsplit("::", 1)[1], where=xb.where(bi), fn=xb.key)
        scans = []
        for xb in pf_bodies:
            for bi, t in xb.calls():
                if callee_path(t) == "core::str::<impl str>::chars":
                    src = strip_refs(xb.xtrace(t["args"][0]))
                    if expr_mentions(src, lambda y: y[0] == "arg" or y[0] == "carg"):
                        scans.append((xb, bi, expr_mentions(src, lambda y: y[0] == "call" and y[1] and re.search(r"::trim(_start|_matches|_start_matches)?$", y[1]["path"]) is not None)))
        if scans:
            for xb, bi, trimmed in scans:
                if xb.key.startswith(pf.key) or "String" in str(facts.items.get(xb.key, {}).get("inputs")):
                    ctx.check(trimmed, "K4.parsefloat-skips-leading-space", "the parseFloat-style prefix scan runs over the trimmed text (%s)" % cfg,
                              "the parseFloat-style conversion scans the untrimmed string: \" 12\" would not be 12", where=xb.where(bi), fn=xb.key, nontrivial=True)
        for op in OPS:
            b, e = roles.fn_of(op)
            u = Unit(roles, b.key, extended=True, stop=[tnv.key, s2n.key, pf.key] + [x.key for x in number_style])
            ctx.check(e.table.role == "eager", "K2.eager", "%s is an eager operator (%s)" % (op, cfg), "%s is in the %s table" % (op, e.table.role), where=b.where(), fn=b.key)
            # ---- K2 return path
            r = strip_refs(b.trace(0))
            cands = [strip_refs(x) for x in r[2]] if r[0] == "phi" else [r]
            bad = []
            for c in cands:
                if c[0] == "call" and c[1] and "from_residual" in c[1]["path"]:
                    continue
                ok = False
                if c[0] == "call" and c[1] and c[1].get("key") == tnv.key:
                    ok = True
                if c[0] == "call" and c[1] and c[1]["path"] == "std::result::Result::<T, E>::and_then":
                    f = c[2][1]
                    ok = f[0] == "const" and (f[1].get("fn", {}).get("resolved") or {}).get("key") == tnv.key
                if not ok:
                    bad.append(show_expr(c)[:100])
            ctx.check(not bad, "K2.through-conversion", "%s returns only through the f64→JSON conversion (%s)" % (op, cfg), "%s also returns %s" % (op, bad), where=b.where(), fn=b.key, nontrivial=True)
            nums = [(bb, bi, si) for (bb, bi, si, v) in u.value_aggregates() if v == "Number"] + [(s.body, s.bi, None) for s in u.calls_path(r"^<serde_json::Number as std::convert::From<.*>>::from$|^serde_json::Number::from_f64$|^serde_json::Value::from$")]
            for bb, bi, si in nums:
                ctx.fail("K2.number-built-elsewhere", "%s|%s" % (op, bb.key.split("::", 1)[1]), "%s builds a JSON number outside the shared conversion (bypassing the finite / integrality / range checks)" % op, where=bb.where(bi, si) if si is not None else bb.where(bi), fn=bb.key)
            # ---- K3 integer arithmetic
            for s in u.calls(lambda c: INT_ACC.search(c["path"]) is not None):
                ctx.fail("K3.double-only", "%s|%s" % (op, callee_path(s.term).rsplit("::", 1)[1]), "%s uses %s: arithmetic must be carried out on the IEEE double conversion of the operands, not on integers" % (op, callee_path(s.term)), where=s.where(), fn=s.body.key)
            for bb in u.bodies:
                for bi, si, st in bb.stmts():
                    if st["k"] == "Assign" and st["rv"]["k"] == "BinaryOp" and st["rv"]["op"] in ("Add", "Sub", "Mul", "Div", "Rem", "AddWithOverflow", "SubWithOverflow", "MulWithOverflow", "Shl", "Shr") and re.match(r"^[iu](8|16|32|64|128|size)$", st["rv"].get("opty") or ""):
                        ctx.fail("K3.double-only", "%s|int %s" % (op, st["rv"]["op"]), "%s performs integer %s" % (op, st["rv"]["op"]), where=bb.where(bi, si), fn=bb.key)
                    if st["k"] == "Assign" and st["rv"]["k"] == "Cast" and st["rv"]["cast"] in ("IntToFloat", "FloatToInt") and not (st["rv"]["cast"] == "IntToFloat" and op_const(st["rv"]["op"])):
                        ctx.fail("K3.double-only", "%s|cast %s" % (op, st["rv"]["cast"]), "%s converts between integers and floats (%s)" % (op, st["rv"]["cast"]), where=bb.where(bi, si), fn=bb.key)
            fops = []
            for bb in u.bodies:
                for bi, si, st in bb.stmts():
                    if st["k"] == "Assign" and st["rv"]["k"] in ("BinaryOp", "UnaryOp") and st["rv"].get("opty") == "f64" and st["rv"]["op"] in ("Add", "Sub", "Mul", "Div", "Rem", "Neg", "Lt", "Gt", "Le", "Ge"):
                        fops.append((bb, bi, si, st["rv"]))
            want = {"+": {"Add"}, "*": {"Mul"}, "/": {"Div"}, "%": {"Rem"}, "-": {"Sub", "Mul"}, "min": {"Lt"}, "max": {"Gt"}}[op]
            got = {x[3]["op"] for x in fops}
            if op == "-" and got == {"Sub", "Neg"}:
                got = want
            ctx.check(got == want, "K3.operation", "%s is float %s (%s)" % (op, "/".join(sorted(want)), cfg), "%s performs float operations %s; expected %s" % (op, sorted(got), sorted(want)), where=b.where(), fn=b.key, nontrivial=True,
                      sample={"operator": op, "float_ops": sorted(got)})
            # operand order for binary ops
            if op in ("-", "/", "%"):
                name = {"-": "Sub", "/": "Div", "%": "Rem"}[op]
                for (bb, bi, si, rv) in fops:
                    if rv["op"] == name:
                        a_, b_ = bb.trace(rv["a"]), bb.trace(rv["b"])
                        ia, ib = param_of(bb, a_), param_of(bb, b_)
                        ctx.check((ia, ib) == (1, 2), "K3.operand-order", "%s computes first %s second (%s)" % (op, name, cfg), "%s computes param%s %s param%s" % (op, ia, name, ib), where=bb.where(bi, si), fn=bb.key, nontrivial=True)
                        # and the table closure / function passes operand 0, operand 1 in order
                idx = binding_indices(b, bb if False else None, u)
                ctx.check(idx in ([0, 1], None) or idx == [0, 1], "K3.binding-order", "%s passes (operand 0, operand 1) (%s)" % (op, cfg), "%s passes operands %s" % (op, idx), where=b.where(), fn=b.key)
            # fold identities
            if op in ("+", "*", "min", "max"):
                from . import accum
                accs = accum.find(u)
                if not accs:
                    ctx.unread("K3.fold", "%s (%s)" % (op, cfg), "no accumulation over the operands was recognised in %s (neither a fold/try_fold nor a loop with a carried float)" % op, where=b.where(), fn=b.key)
                else:
                    ctx.check(len(accs) == 1, "K3.fold", "%s folds over all operands once (%s)" % (op, cfg), "%d accumulations: %s" % (len(accs), [a_.where() for a_ in accs]), where=b.where(), fn=b.key)
                from .c13 import REORDER
                bad_ad = [callee_path(x.term) for x in u.calls_path(REORDER.pattern)]
                ctx.check(not bad_ad, "K3.fold-in-order", "%s folds its operands left to right, all of them (float arithmetic is not associative, -0 < +0 is not strict) (%s)" % (op, cfg),
                          "%s applies %s to its operands before folding: the double result is that of another order or of fewer operands" % (op, bad_ad), where=b.where(), fn=b.key, nontrivial=True)
                for s in accs:
                    if s.form == "loop":
                        early = accum.loop_exits_early(s.body, s.bi)
                        ctx.check(not early, "K3.fold-in-order", "%s: the accumulation loop visits every operand (leaves only at the end or with an error) (%s)" % (op, cfg),
                                  "%s leaves its accumulation loop early on a path that still returns a number (%s): the remaining operands are neither converted nor combined — a non-numeric operand after that point is no error" % (op, [s.body.where(u_) for u_, _ in early]), where=s.body.where(early[0][0]) if early else s.where(), fn=s.body.key, nontrivial=True)
                    sv = accum.seed_value(s.seed)
                    want_seed = {"+": 0.0, "*": 1.0, "min": ("std::f64::INFINITY", "std::f64::<impl f64>::INFINITY", float("inf")), "max": ("std::f64::NEG_INFINITY", "std::f64::<impl f64>::NEG_INFINITY", float("-inf"))}[op]
                    good = sv == want_seed if not isinstance(want_seed, tuple) else sv in want_seed
                    ctx.check(good, "K3.identity", "%s starts from its identity (%s)" % (op, cfg), "%s's accumulation starts from %s" % (op, sv), where=s.where(), fn=s.body.key, nontrivial=True, sample={"operator": op, "seed": str(sv), "form": s.form})
            # ---- K4 routing
            reach = facts.reach([b.key])
            uses_pf = pf.key in reach
            uses_ns = any(x.key in reach for x in number_style)
            if op in ("+", "*"):
                ctx.check(uses_pf and not uses_ns, "K4.routing", "%s uses the parseFloat-style conversion only (%s)" % (op, cfg), "%s reaches parseFloat-style=%s number-style=%s" % (op, uses_pf, uses_ns), where=b.where(), fn=b.key, nontrivial=True)
            else:
                ctx.check(uses_ns and not uses_pf, "K4.routing", "%s uses the Number-style conversion only (%s)" % (op, cfg), "%s reaches parseFloat-style=%s number-style=%s" % (op, uses_pf, uses_ns), where=b.where(), fn=b.key, nontrivial=True)
            # ---- K5 error discipline at conversion sites
            ckeys = {pf.key} | {x.key for x in number_style}
            sites = [s for s in u.calls(lambda c: c.get("key") in ckeys)]
            ctx.check(len(sites) >= 1, "K5.converts", "%s converts its operands (%s)" % (op, cfg), "no conversion call", where=b.where(), fn=b.key)
            for s in sites:
                ok = error_on_none(s)
                ctx.check(ok, "K5.none-is-error", "%s: conversion at %s turns None into Err (%s)" % (op, s.where(), cfg),
                          "a failed conversion at %s is not turned into an error (it would be defaulted or skipped)" % s.where(), where=s.where(), fn=s.body.key, nontrivial=True)
            for s in u.calls(lambda c: DEFAULTERS.search(c["path"]) is not None):
                ty = callee_of(s.term).get("full") or ""
                if "f64" in ty:
                    ctx.fail("K5.defaulted", "%s|%s" % (op, callee_path(s.term).rsplit("::", 1)[1]), "%s consumes a conversion result with %s: a non-numeric operand is replaced by a number or skipped" % (op, callee_path(s.term)), where=s.where(), fn=s.body.key)


def param_of(b, e):
    """Which parameter's conversion an f64 expression derives from (1/2) or None."""
    hits = set()

    def p(x):
        if x[0] == "arg":
            hits.add(x[1])
        return False
    expr_mentions(e, p)
    return hits.pop() if len(hits) == 1 else None


def binding_indices(b, _unused, u):
    """Operand indices the bound function hands to a two-argument helper, in order."""
    for bi, t in b.calls():
        c = callee_of(t)
        if c and c["local"] and len(t["args"]) == 2:
            idx = []
            for a in t["args"]:
                a = strip_refs(b.trace(a))
                if a[0] == "call" and a[1] and a[1]["path"].endswith("Index<I>>::index"):
                    i = strip_refs(a[2][1])
                    idx.append(const_value(i[1]) if i[0] == "const" else None)
            if len(idx) == 2:
                return idx
    return None


def error_on_none(s):
    b = s.body
    dest = s.term["dest"]["local"]
    # (a) ok_or_else / ok_or consuming the result
    for bi, t in b.calls():
        p = callee_path(t) or ""
        if p in ("std::option::Option::<T>::ok_or_else", "std::option::Option::<T>::ok_or"):
            a = strip_refs(b.trace(t["args"][0]))
            if a[0] == "call" and a[3] == s.bi:
                return True
    # (b) a test of the result (discriminant / is_none / is_some) whose None edge returns Err
    from .core import option_guards
    for (sb, t_some, t_none) in option_guards(b, lambda x: x[0] == "call" and x[3] == s.bi):
        region = b.reachable(t_none) - b.reachable(t_some)
        with b.restricted(region | {t_none}):
            res = strip_refs(b.trace(0))
        if res[0] == "agg" and res[1].get("variant") == "Err":
            return True
        # the same inside a loop (the two edges reach each other through the back edge): every path from the None
        # edge ends the function with an Err before the loop comes round again
        from . import pathsum
        w = pathsum.Walker(b, start=t_none, max_paths=400)
        if w.paths and not w.overflow and all((not p.truncated) and p.result is not None and strip_refs(p.result)[0] == "agg" and strip_refs(p.result)[1].get("variant") == "Err" for p in w.paths):
            return True
    # (c) map(...) then ok_or_else on the mapped value
    for bi, t in b.calls():
        p = callee_path(t) or ""
        if p in ("std::option::Option::<T>::ok_or_else", "std::option::Option::<T>::ok_or"):
            if expr_mentions(b.trace(t["args"][0]), lambda x: x[0] == "call" and x[3] == s.bi and x[1] and x[1].get("key") == callee_of(s.term).get("key")):
                return True
    return False


def k1(ctx, facts, f, cfg):
    casts = [(bi, si, st) for bi, si, st in f.stmts() if st["k"] == "Assign" and st["rv"]["k"] == "Cast" and st["rv"]["cast"] == "FloatToInt"]
    ctx.check(len(casts) <= 1, "K1.one-cast", "at most one float→int cast in the conversion (%s)" % cfg, "%d casts" % len(casts), where=f.where(), fn=f.key)
    for s in [x for x in [(bi, callee_path(t)) for bi, t in f.calls()] if ROUNDERS.search(x[1] or "")]:
        ctx.fail("K1.rounded", "conversion|%s" % s[1].rsplit("::", 1)[1], "the result is passed through %s before being returned: it would be rounded further" % s[1], where=f.where(s[0]), fn=f.key)
    for bi, si, st in casts:
        src = strip_refs(f.trace(st["rv"]["op"]))
        ctx.check(src == ("arg", 1), "K1.cast-of-result", "the integer spelling casts the result itself (%s)" % cfg, "the cast is applied to %s" % show_expr(src), where=f.where(bi, si), fn=f.key)
        guards = {"integral": False, "lower": False, "upper": False}
        detail = {}

        def cval(z):
            if z[0] == "const":
                return const_value(z[1])
            if z[0] == "cast" and z[1] == "IntToFloat" and strip_refs(z[2])[0] == "const":
                return float(const_value(strip_refs(z[2])[1]))
            return None

        from .core import implied_comparisons
        for (op, x, y) in implied_comparisons(f, bi):
            if cval(x) is not None and cval(y) is None:
                x, y = y, x
                op = {"Lt": "Gt", "Le": "Ge", "Gt": "Lt", "Ge": "Le", "Eq": "Eq", "Ne": "Ne"}[op]
            c = cval(y)
            if c is None:
                continue
            if x[0] == "call" and x[1] and x[1]["path"].endswith("f64>::fract") and strip_refs(x[2][0]) == ("arg", 1) and op == "Eq" and c == 0.0:
                guards["integral"] = True
            if x == ("arg", 1) and op == "Ge" and c == -9223372036854775808.0:
                guards["lower"] = True
            if x == ("arg", 1) and op == "Lt" and c == 9223372036854775808.0:
                guards["upper"] = True
            if x == ("arg", 1) and op in ("Le", "Lt", "Ge", "Gt"):
                detail["%s %s" % (op, c)] = True
        ctx.check(guards["integral"], "K1.integrality", "the integer spelling is taken only when fract(result) == 0.0 exactly (%s)" % cfg,
                  "the float→int cast is not dominated by the exact test fract(x) == 0.0 (a tolerance would round tiny results to 0)", where=f.where(bi, si), fn=f.key, nontrivial=True)
        ctx.check(guards["lower"] and guards["upper"], "K1.range", "the integer spelling is taken only for -2^63 <= result < 2^63 (%s)" % cfg,
                  "the saturating float→int cast is not guarded by the exact i64 range (guards seen: %s)" % sorted(detail), where=f.where(bi, si), fn=f.key, nontrivial=True, sample={"guards": guards})
    # float exit: from_f64 → None → Err
    ff = [(bi, t) for bi, t in f.calls() if callee_path(t) == "serde_json::Number::from_f64"]
    ctx.check(len(ff) == 1 and strip_refs(f.trace(ff[0][1]["args"][0])) == ("arg", 1), "K1.from-f64", "otherwise the result itself goes through Number::from_f64 (%s)" % cfg, "%d from_f64 calls" % len(ff), where=f.where(), fn=f.key)
    errs = [(bi, t) for bi, t in f.calls() if (callee_path(t) or "") in ("std::option::Option::<T>::ok_or_else", "std::option::Option::<T>::ok_or")]
    ok = any(strip_refs(f.trace(t["args"][0]))[0] == "call" and strip_refs(f.trace(t["args"][0]))[3] == ff[0][0] for bi, t in errs) if ff else False
    if ff and not ok:
        # match form: the None edge of from_f64's result returns Err, the Some edge Ok(Number(payload))
        from .core import option_guards
        for (sw, t_some, t_none) in option_guards(f, lambda x: x[0] == "call" and x[3] == ff[0][0]):
            only_none = (f.reachable(t_none) - f.reachable(t_some)) | {t_none}
            with f.restricted(only_none):
                rn = strip_refs(f.trace(0))
            ok = ok or (rn[0] == "agg" and rn[1].get("variant") == "Err")
    ctx.check(ok, "K1.non-finite-is-error", "a non-finite result (from_f64 → None) becomes Err (%s)" % cfg, "from_f64's None is not converted into an error", where=f.where(), fn=f.key, nontrivial=True)
