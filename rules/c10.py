#!/usr/bin/env python3
"""C10 — arithmetic yields the exact IEEE-754 double or an error, never a wrong number.

Necessary structural conditions (the digit-level exactness of the string scanners is not decided):
  K1  result conversion (the one f64 → JSON-number function), read as a decision table through the private
      helpers it calls (rules/x_ipath.py — whichever function holds the guards, however the branches are spelled):
      the integer spelling Number::from(x as i64) (a saturating cast, of the result itself) is returned only in
      cases whose tests include the exact integrality test fract(x) == 0.0 and the range guards x >= -2^63 and
      x < 2^63 (constants read); the float spelling is the payload of Number::from_f64(x) and is returned only where
      x is not (integral and in range); every case where from_f64(x) is None (non-finite) is Err, and Err is returned
      only there; no value passes through round/trunc/floor/ceil/abs on its way out;
  K2  every arithmetic table entry (+ - * / % min max) returns only through that
      conversion, and nothing else in their reach builds a JSON number;
  K3  operations: folds run left to right over all operands (no reversing /
      skipping adaptor); + folds float Add from 0.0, * folds float Mul from 1.0,
      - / % apply float Sub/Div/Rem to (conversion of operand 0, conversion of operand 1) in that order — read on
      the decision cases of the table function through its helpers, operands named by operand descriptors —
      (one-operand - multiplies the conversion of operand 0 by -1 or negates it), min/max fold from +inf/-inf
      with a strict float comparison; only double arithmetic — no integer
      accessor or integer operation anywhere in the arithmetic reach;
  K4  conversion routing: + and * use the parseFloat-style conversion only,
      - / % min max the Number-style conversion (which goes through the shared
      string→number conversion) only;
  K6  the shared string→number conversion behind the Number-style family has the
      ECMAScript structure and never exposes Rust's float grammar (as C07 K4);
  K7  the string form through which containers are converted ("[3] is 3") has the
      per-kind structure of C16 K4 (a number contributes its JSON text);
  K5  a non-numeric operand is an error: every conversion result is turned into
      Err at the conversion site (ok_or_else / None-edge return Err); none is
      consumed by unwrap_or*, filter_map, flatten or a defaulting arm.
"""
import re
from .core import (callee_of, callee_path, strip_refs, strip_payload, show_expr, const_value, expr_mentions, op_const, edge_dominates, bool_edge, switch_edges_for_variant)
from .engine import Inconclusive
from .roles import Roles
from .opfacts import Unit
from . import strnum

VALUE = "serde_json::Value"
OPS = ["+", "-", "*", "/", "%", "min", "max"]
ROUNDERS = re.compile(r"f64>::(round|trunc|floor|ceil|abs|round_ties_even|signum|clamp|mul_add|powi|powf|sqrt)$")
INT_ACC = re.compile(r"^serde_json::Number::(as_i64|as_u64|is_i64|is_u64)$|^core::num::<impl [iu](8|16|32|64|128|size)>::")
DEFAULTERS = re.compile(r"^std::option::Option::<T>::(unwrap_or|unwrap_or_else|unwrap_or_default|map_or|map_or_else|or|or_else)$|Iterator(>)?::(filter_map|flatten|flat_map)$")


def _live_under_constants(facts, u, root):
    """Siblings merged behind one helper that is told which operation it is by a payload-free enum constant
    (`FloatReduction::Sum.reduce(items)`): the helper's code is read under the constants bound at the calls that lead to it
    from this operator.  Returns {body key: blocks reachable under those constants} for the helpers so specialised (a
    helper reached with two different constants, or with none, is not in the result and is read whole)."""
    keys = {x.key for x in u.bodies}
    bound = {}        # callee key -> {param index -> set of variants}
    todo, seen = [(root.key, {})], set()
    while todo:
        k, env = todo.pop()
        sig = (k, tuple(sorted(env.items())))
        if sig in seen:
            continue
        seen.add(sig)
        bb = facts.body(k)
        if bb is None:
            continue
        blocks = None
        if env:
            blocks, _ = bb.specialize(lambda e, a, _env=env: _env.get(strip_refs(e)[1]) if (strip_refs(e)[0] == "arg" and strip_refs(e)[1] in _env) else None)
        for bi in (sorted(blocks) if blocks is not None else range(len(bb.blocks))):
            t = bb.blocks[bi]["term"]
            if t["k"] != "Call":
                continue
            c = callee_of(t)
            if not c or not c.get("local") or c["key"] not in keys or c["key"] == k:
                continue
            cenv = {}
            for i, a in enumerate(t["args"]):
                x = strip_refs(bb.trace(a))
                if x[0] == "agg" and x[1].get("agg") == "Adt" and not x[2] and x[1].get("variant") and facts.adts.get(x[1].get("adt"), {}).get("kind") == "enum":
                    cenv[i + 1] = x[1]["variant"]
                elif x[0] == "arg" and x[1] in env:
                    cenv[i + 1] = env[x[1]]
            for i_, v_ in cenv.items():
                bound.setdefault(c["key"], {}).setdefault(i_, set()).add(v_)
            if not cenv:
                bound.setdefault(c["key"], {}).setdefault(0, set()).add("?")
            todo.append((c["key"], cenv))
        for cb in [x for x in u.bodies if x.kind == "closure" and x.key.startswith(k + "::{closure#")]:
            todo.append((cb.key, {}))
    live = {}
    for k, per in bound.items():
        if 0 in per:
            continue
        env = {i_: list(vs)[0] for i_, vs in per.items() if len(vs) == 1}
        if len(env) != len(per) or not env:
            continue
        bb = facts.body(k)
        blocks, _ = bb.specialize(lambda e, a, _env=env: _env.get(strip_refs(e)[1]) if (strip_refs(e)[0] == "arg" and strip_refs(e)[1] in _env) else None)
        live[k] = set(blocks)
    return live


def run(ctx):
    ctx.explanation = __doc__
    ctx.rule = "instances = facts of the result conversion, 7 operators × (return path, operation, routing, error discipline); non-trivial = dominance, constant reading, reach scans"
    ctx.trusted = ["IEEE-754 semantics of MIR float BinaryOps", "serde_json::Number::from_f64 returns None exactly for non-finite input", "Rust's decimal float parser is correctly rounded"]
    from . import manifest as _MF
    _MF.same_library_clause(ctx, "K1.number-model")
    cfgs = ["default"] if ctx.tier == "quick" else ["default", "python", "wasm"]
    for cfg in cfgs:
        facts = ctx.facts(cfg)
        roles = Roles(facts)
        items = facts.items
        conv = [b for b in facts.fns() if b.kind == "fn" and items.get(b.key, {}).get("inputs") == ["f64"] and items[b.key].get("output", "").startswith("std::result::Result<serde_json::Value")]
        if not conv:
            # no fallible conversion at all: is there an infallible one?  Then a non-finite result has no way to become an error
            inf = [b for b in facts.fns() if b.kind == "fn" and items.get(b.key, {}).get("inputs") == ["f64"] and items[b.key].get("output", "") == "serde_json::Value"]
            for b in inf:
                ctx.fail("K1.non-finite-is-error", "%s|infallible" % b.key.split("::", 1)[1], "the conversion of an arithmetic result into a JSON number (%s) cannot fail: a result that is not finite is turned into some value (serde_json maps it to null) instead of an error" % b.key.split("::", 1)[1], where=b.where(), fn=b.key)
            if inf:
                continue
        if len(conv) > 1:
            # the conversion split into an entry and private helpers of the same signature: the entry is the one no
            # other candidate is reached from
            outer = [b for b in conv if not any(b.key in facts.reach([o.key]) for o in conv if o.key != b.key)]
            conv = outer if len(outer) == 1 else conv
        ctx.need(len(conv) == 1, "result conversion f64 → Result<Value> not identified (%d)" % len(conv))
        tnv = conv[0]
        k1(ctx, facts, tnv, cfg)
        s2n = strnum.check(ctx, facts, cfg, clause="K6")
        # containers reach both conversion families through the shared string form ("[3] is 3"): its per-kind
        # structure — numbers as their JSON text, elements joined with "," — is part of the arithmetic's input
        from .c16 import string_form_clauses, to_string_role
        string_form_clauses(ctx, facts, roles, to_string_role(facts), cfg, K="K7")
        strnum.container_elements_converted(ctx, facts, [roles.fn_of(o)[0].key for o in ("+", "-", "*", "/", "%", "min", "max")], cfg, "K6.container-through-string-form")
        convs = [b for b in facts.fns() if b.kind == "fn" and items.get(b.key, {}).get("inputs") == ["&serde_json::Value"] and items[b.key].get("output") == "std::option::Option<f64>"]
        number_style = [b for b in convs if s2n.key in facts.reach([b.key]) and any(callee_of(t) and callee_of(t)["local"] for _, t in b.calls())]
        float_style = [b for b in convs if s2n.key not in facts.reach([b.key]) and any(callee_of(t) and callee_of(t)["local"] for _, t in b.calls())]
        ctx.need(len(number_style) >= 1 and len(float_style) == 1, "the two conversion families were not identified (number-style %d, parseFloat-style %d)" % (len(number_style), len(float_style)))
        # the number-style entry is the one the arithmetic operators call (others are its helpers)
        pf = float_style[0]
        # parseFloat ignores leading white space: the prefix scan of the string form runs over the trimmed text
        pf_bodies = [facts.body(k) for k in sorted(facts.reach([pf.key])) if facts.body(k) is not None and not any(k == x.key for x in number_style)]
        # decimal digits are the ten ASCII digits: a Unicode-category test (char::is_numeric accepts ², ½, ٣ …) makes the
        # prefix scanner take characters the float parser then rejects — "5²" would be an error instead of 5
        conv_reach = set()
        for x_ in [pf] + number_style + [s2n]:
            conv_reach |= facts.reach([x_.key])
        for k_ in sorted(conv_reach):
            xb = facts.body(k_)
            if xb is None:
                continue
            for bi, t in xb.calls():
                if re.search(r"^std::char::methods::<impl char>::(is_numeric|is_alphanumeric|is_alphabetic)$", callee_path(t) or ""):
                    ctx.fail("K4.ascii-digits", "%s|%s" % (xb.key.split("::", 1)[1], (callee_path(t) or "").rsplit("::", 1)[1]), "the string→number conversion classifies characters with %s, a Unicode category test: non-ASCII numerals and letters are treated as part of a number" % (callee_path(t) or "").rsplit("::", 1)[1], where=xb.where(bi), fn=xb.key)
        scans = []
        for xb in pf_bodies:
            for bi, t in xb.calls():
                if callee_path(t) == "core::str::<impl str>::chars":
                    src = strip_refs(xb.xtrace(t["args"][0]))
                    if expr_mentions(src, lambda y: y[0] == "arg" or y[0] == "carg"):
                        scans.append((xb, bi, expr_mentions(src, lambda y: y[0] == "call" and y[1] and re.search(r"::trim(_start|_matches|_start_matches)?$", y[1]["path"]) is not None)))
        if scans:
            for xb, bi, trimmed in scans:
                if xb.key.startswith(pf.key) or "String" in str(facts.items.get(xb.key, {}).get("inputs")):
                    ctx.check(trimmed, "K4.parsefloat-skips-leading-space", "the parseFloat-style prefix scan runs over the trimmed text (%s)" % cfg,
                              "the parseFloat-style conversion scans the untrimmed string: \" 12\" would not be 12", where=xb.where(bi), fn=xb.key, nontrivial=True)
        ckeys_all = {pf.key} | {x.key for x in number_style}
        stop_keys = {tnv.key, s2n.key} | ckeys_all
        for op in OPS:
            b, e = roles.fn_of(op)
            u = Unit(roles, b.key, extended=True, stop=[tnv.key, s2n.key, pf.key] + [x.key for x in number_style])
            ctx.check(e.table.role == "eager", "K2.eager", "%s is an eager operator (%s)" % (op, cfg), "%s is in the %s table" % (op, e.table.role), where=b.where(), fn=b.key)
            # ---- K2 return path
            r = strip_refs(b.trace(0))
            cands = [strip_refs(x) for x in r[2]] if r[0] == "phi" else [r]
            bad = []
            for c in cands:
                if c[0] == "call" and c[1] and "from_residual" in c[1]["path"]:
                    continue
                ok = False
                if c[0] == "call" and c[1] and c[1].get("key") == tnv.key:
                    ok = True
                if c[0] == "call" and c[1] and c[1]["path"] == "std::result::Result::<T, E>::and_then":
                    f = c[2][1]
                    ok = f[0] == "const" and (f[1].get("fn", {}).get("resolved") or {}).get("key") == tnv.key
                if not ok:
                    bad.append(show_expr(c)[:100])
            if bad:
                # the same on the decision cases of the table function read through its private helpers (x_ipath): in
                # every case the function returns what the conversion returns, or an error — whichever adapter
                # (`?`, match, and_then) carries the result there
                verdict = returns_through(facts, b, tnv, u, stop_keys)
                if verdict is None:
                    ctx.unread("K2.through-conversion", "%s (%s)" % (op, cfg), "%s: what the operator returns (%s) was not read through its helpers" % (op, bad[0][:80]), where=b.where(), fn=b.key)
                    bad = None
                else:
                    bad = verdict
            if bad is not None:
                ctx.check(not bad, "K2.through-conversion", "%s returns only through the f64→JSON conversion (%s)" % (op, cfg), "%s also returns %s" % (op, bad), where=b.where(), fn=b.key, nontrivial=True)
            nums = [(bb, bi, si) for (bb, bi, si, v) in u.value_aggregates() if v == "Number"] + [(s.body, s.bi, None) for s in u.calls_path(r"^<serde_json::Number as std::convert::From<.*>>::from$|^serde_json::Number::from_f64$|^serde_json::Value::from$")]
            for bb, bi, si in nums:
                ctx.fail("K2.number-built-elsewhere", "%s|%s" % (op, bb.key.split("::", 1)[1]), "%s builds a JSON number outside the shared conversion (bypassing the finite / integrality / range checks)" % op, where=bb.where(bi, si) if si is not None else bb.where(bi), fn=bb.key)
            # ---- K3 integer arithmetic
            for s in u.calls(lambda c: INT_ACC.search(c["path"]) is not None):
                ctx.fail("K3.double-only", "%s|%s" % (op, callee_path(s.term).rsplit("::", 1)[1]), "%s uses %s: arithmetic must be carried out on the IEEE double conversion of the operands, not on integers" % (op, callee_path(s.term)), where=s.where(), fn=s.body.key)
            for bb in u.bodies:
                for bi, si, st in bb.stmts():
                    if st["k"] == "Assign" and st["rv"]["k"] == "BinaryOp" and st["rv"]["op"] in ("Add", "Sub", "Mul", "Div", "Rem", "AddWithOverflow", "SubWithOverflow", "MulWithOverflow", "Shl", "Shr") and re.match(r"^[iu](8|16|32|64|128|size)$", st["rv"].get("opty") or ""):
                        ctx.fail("K3.double-only", "%s|int %s" % (op, st["rv"]["op"]), "%s performs integer %s" % (op, st["rv"]["op"]), where=bb.where(bi, si), fn=bb.key)
                    if st["k"] == "Assign" and st["rv"]["k"] == "Cast" and st["rv"]["cast"] in ("IntToFloat", "FloatToInt") and not (st["rv"]["cast"] == "IntToFloat" and op_const(st["rv"]["op"])):
                        ctx.fail("K3.double-only", "%s|cast %s" % (op, st["rv"]["cast"]), "%s converts between integers and floats (%s)" % (op, st["rv"]["cast"]), where=bb.where(bi, si), fn=bb.key)
            fops = []
            live = _live_under_constants(facts, u, b)
            for bb in u.bodies:
                for bi, si, st in bb.stmts():
                    if bb.key in live and bi not in live[bb.key]:
                        continue        # not reachable under the constants this operator binds (`FloatReduction::Sum.reduce(..)`)
                    if st["k"] == "Assign" and st["rv"]["k"] in ("BinaryOp", "UnaryOp") and st["rv"].get("opty") == "f64" and st["rv"]["op"] in ("Add", "Sub", "Mul", "Div", "Rem", "Neg", "Lt", "Gt", "Le", "Ge"):
                        fops.append((bb, bi, si, st["rv"]))
            want = {"+": {"Add"}, "*": {"Mul"}, "/": {"Div"}, "%": {"Rem"}, "-": {"Sub", "Mul"}, "min": {"Lt"}, "max": {"Gt"}}[op]
            got = {x[3]["op"] for x in fops}
            if op == "-" and got == {"Sub", "Neg"}:
                got = want
            ctx.check(got == want, "K3.operation", "%s is float %s (%s)" % (op, "/".join(sorted(want)), cfg), "%s performs float operations %s; expected %s" % (op, sorted(got), sorted(want)), where=b.where(), fn=b.key, nontrivial=True,
                      sample={"operator": op, "float_ops": sorted(got)})
            # operand order for binary ops
            if op in ("-", "/", "%"):
                operand_order(ctx, facts, roles, u, b, op, cfg, ckeys_all, stop_keys)
            # fold identities
            if op in ("+", "*", "min", "max"):
                from . import accum
                accs = accum.find(u)
                if not accs:
                    ctx.unread("K3.fold", "%s (%s)" % (op, cfg), "no accumulation over the operands was recognised in %s (neither a fold/try_fold nor a loop with a carried float)" % op, where=b.where(), fn=b.key)
                else:
                    ctx.check(len(accs) == 1, "K3.fold", "%s folds over all operands once (%s)" % (op, cfg), "%d accumulations: %s" % (len(accs), [a_.where() for a_ in accs]), where=b.where(), fn=b.key)
                from .c13 import REORDER
                bad_ad = [callee_path(x.term) for x in u.calls_path(REORDER.pattern)]
                ctx.check(not bad_ad, "K3.fold-in-order", "%s folds its operands left to right, all of them (float arithmetic is not associative, -0 < +0 is not strict) (%s)" % (op, cfg),
                          "%s applies %s to its operands before folding: the double result is that of another order or of fewer operands" % (op, bad_ad), where=b.where(), fn=b.key, nontrivial=True)
                for s in accs:
                    if s.form == "loop":
                        early = accum.loop_exits_early(s.body, s.bi)
                        ctx.check(not early, "K3.fold-in-order", "%s: the accumulation loop visits every operand (leaves only at the end or with an error) (%s)" % (op, cfg),
                                  "%s leaves its accumulation loop early on a path that still returns a number (%s): the remaining operands are neither converted nor combined — a non-numeric operand after that point is no error" % (op, [s.body.where(u_) for u_, _ in early]), where=s.body.where(early[0][0]) if early else s.where(), fn=s.body.key, nontrivial=True)
                    sv = accum.seed_value(s.seed)
                    if sv is None:
                        # the seed is what a private helper returns under the constant this operator binds (`self.identity()`)
                        sx = strip_refs(s.seed)
                        while sx[0] == "agg" and sx[1].get("variant") in ("Ok", "Some") and sx[2]:
                            sx = strip_refs(sx[2][0])        # a carried Result / Option: the seed is its payload
                        live_ = _live_under_constants(facts, u, b)
                        if sx[0] == "call" and sx[1] and sx[1].get("local") and sx[1]["key"] in live_:
                            hb_ = facts.body(sx[1]["key"])
                            with hb_.restricted(live_[sx[1]["key"]]):
                                sv = accum.seed_value(hb_.trace(0))
                        if sv is None:
                            ctx.unread("K3.identity", "%s starts from its identity (%s)" % (op, cfg), "%s's accumulation starts from %s, which is not read as a constant" % (op, show_expr(sx)[:80]), where=s.where(), fn=s.body.key)
                            continue
                    want_seed = {"+": 0.0, "*": 1.0, "min": ("std::f64::INFINITY", "std::f64::<impl f64>::INFINITY", float("inf")), "max": ("std::f64::NEG_INFINITY", "std::f64::<impl f64>::NEG_INFINITY", float("-inf"))}[op]
                    good = sv == want_seed if not isinstance(want_seed, tuple) else sv in want_seed
                    ctx.check(good, "K3.identity", "%s starts from its identity (%s)" % (op, cfg), "%s's accumulation starts from %s" % (op, sv), where=s.where(), fn=s.body.key, nontrivial=True, sample={"operator": op, "seed": str(sv), "form": s.form})
            # ---- K4 routing
            reach = facts.reach([b.key])
            uses_pf = pf.key in reach
            uses_ns = any(x.key in reach for x in number_style)
            if op in ("+", "*"):
                ctx.check(uses_pf and not uses_ns, "K4.routing", "%s uses the parseFloat-style conversion only (%s)" % (op, cfg), "%s reaches parseFloat-style=%s number-style=%s" % (op, uses_pf, uses_ns), where=b.where(), fn=b.key, nontrivial=True)
            else:
                ctx.check(uses_ns and not uses_pf, "K4.routing", "%s uses the Number-style conversion only (%s)" % (op, cfg), "%s reaches parseFloat-style=%s number-style=%s" % (op, uses_pf, uses_ns), where=b.where(), fn=b.key, nontrivial=True)
            # ---- K5 error discipline at conversion sites
            ckeys = {pf.key} | {x.key for x in number_style}
            sites = [s for s in u.calls(lambda c: c.get("key") in ckeys)]
            ctx.check(len(sites) >= 1, "K5.converts", "%s converts its operands (%s)" % (op, cfg), "no conversion call", where=b.where(), fn=b.key)
            for s in sites:
                ok = error_on_none(s)
                if ok == "unread":
                    ctx.unread("K5.none-is-error", "%s: conversion in %s (%s)" % (op, s.body.key.split("::", 1)[1], cfg), "a failed conversion at %s builds an error and carries it round the loop (decided after the loop): that the function then returns it is not read" % s.where(), where=s.where(), fn=s.body.key)
                    continue
                ctx.check(ok, "K5.none-is-error", "%s: conversion at %s turns None into Err (%s)" % (op, s.where(), cfg),
                          "a failed conversion at %s is not turned into an error (it would be defaulted or skipped)" % s.where(), where=s.where(), fn=s.body.key, nontrivial=True)
            for s in u.calls(lambda c: DEFAULTERS.search(c["path"]) is not None):
                ty = callee_of(s.term).get("full") or ""
                if "f64" in ty:
                    ctx.fail("K5.defaulted", "%s|%s" % (op, callee_path(s.term).rsplit("::", 1)[1]), "%s consumes a conversion result with %s: a non-numeric operand is replaced by a number or skipped" % (op, callee_path(s.term)), where=s.where(), fn=s.body.key)


def returns_through(facts, b, tnv, u, stop_keys):
    """[] when every decision case of the table function `b` (read through the private helpers of its unit) returns
    the result of the conversion `tnv` or an error; the offending values otherwise; None = not read."""
    from . import x_ipath
    cases = x_ipath.decision_cases(facts, b, lambda c: c.get("key") in u.keys and c.get("key") not in stop_keys)
    if cases is None or not len(cases) or not cases.walker.expanded:
        return None
    bad, through = [], 0
    for conds, v, p in cases:
        v = strip_refs(v)
        if v[0] == "call" and v[1] and v[1].get("key") == tnv.key:
            through += 1
            continue
        if v[0] == "call" and v[1] and v[1].get("path") == "std::result::Result::<T, E>::and_then" and len(v[2]) == 2:
            f_ = strip_refs(v[2][1])
            if f_[0] == "const" and ((f_[1].get("fn") or {}).get("resolved") or {}).get("key") == tnv.key:
                through += 1
                continue
        if v[0] == "call" and v[1] and "from_residual" in (v[1].get("path") or ""):
            continue
        if v[0] == "agg" and v[1].get("variant") == "Err":
            continue
        if v == ("panic",):
            continue
        bad.append(show_expr(v)[:100])
    if not bad and not through:
        return None
    return bad


def _conversions_in(e, ckeys):
    """The calls of a conversion function an f64 expression is computed from (distinct by operand)."""
    from . import pathsum
    out = {}
    found = []
    _subterms(e, lambda y: y[0] == "call" and bool(y[1]) and y[1].get("key") in ckeys and len(y[2]) >= 1, found)
    for y in found:
        out.setdefault(pathsum.canon(strip_refs(y[2][0])), y)
    return list(out.values())


def operand_order(ctx, facts, roles, u, b, op, cfg, ckeys, stop_keys):
    """`-`, `/`, `%` compute (conversion of operand 0) OP (conversion of operand 1), in that order.

    Read on the decision cases of the table function *through* the helper functions of its unit (rules/x_ipath.py):
    in every case whose value contains the float operation, the left operand must derive from exactly one conversion
    call and that call's argument must denote operand 0 of the operand list (operand descriptors, rules/operands.py);
    the right operand likewise operand 1.  Which function holds the operation, whether the two conversions are made
    by a shared helper returning a pair, and how the results are unwrapped does not matter."""
    from . import x_ipath, operands as OD
    name = {"-": "Sub", "/": "Div", "%": "Rem"}[op]
    args_param = None
    for l in range(1, b.arg_count + 1):
        if "std::vec::Vec<&" in b.local_ty(l):
            args_param = l
    inst = "%s (%s)" % (op, cfg)
    if args_param is None:
        ctx.unread("K3.operand-order", inst, "%s: the operand-list parameter of the table function was not identified" % op, where=b.where(), fn=b.key)
        return
    cases = x_ipath.decision_cases(facts, b, lambda c: c.get("key") in u.keys and c.get("key") not in stop_keys)
    if cases is None:
        ctx.unread("K3.operand-order", inst, "%s: the operator's code has loops or too many paths; its decision cases were not read" % op, where=b.where(), fn=b.key)
        return

    def index_of(e):
        cs = _conversions_in(e, ckeys)
        if len(cs) != 1:
            return None, "%d conversion calls in %s" % (len(cs), show_expr(strip_refs(e))[:60])
        d = OD.describe(b, cs[0][2][0], args_param)
        i = OD.absolute_index(d)
        return i, repr(d)
    at, at_fn = b.where(), b.key        # where the operation is written (for the report)
    for bb in u.bodies:
        for bi, si, st in bb.stmts():
            if st["k"] == "Assign" and st["rv"]["k"] == "BinaryOp" and st["rv"]["op"] == name and st["rv"].get("opty") == "f64" and at_fn == b.key:
                at, at_fn = bb.where(bi, si), bb.key
    seen, bad, dark = 0, [], []
    for conds, v, p in cases:
        ops_ = []
        _subterms(v, lambda y: y[0] == "binop" and y[1] == name and y[4] == "f64", ops_)
        for y in ops_:
            (ia, ta), (ib, tb) = index_of(y[2]), index_of(y[3])
            if ia is None or ib is None:
                dark.append("%s %s %s" % (ta, name, tb))
            elif (ia, ib) == (0, 1):
                seen += 1
            else:
                bad.append((ia, ib))
        if op == "-":
            negs = []
            _subterms(v, lambda y: (y[0] == "binop" and y[1] == "Mul" and y[4] == "f64") or (y[0] == "unop" and y[1] == "Neg"), negs)
            for y in negs:
                if y[0] == "unop":
                    i0, t0 = index_of(y[2])
                    kst = -1.0
                else:
                    side = [z for z in (y[2], y[3]) if _cval(z) is None]
                    ks = [_cval(z) for z in (y[2], y[3]) if _cval(z) is not None]
                    if len(side) != 1 or len(ks) != 1:
                        continue
                    i0, t0 = index_of(side[0])
                    kst = ks[0]
                if i0 is None:
                    ctx.unread("K3.negation", inst, "one-operand -: the operand negated (%s) was not read as the conversion of an operand" % t0, where=b.where(), fn=b.key)
                else:
                    ctx.check(i0 == 0 and kst == -1.0, "K3.negation", "one-operand - is (conversion of operand 0) × -1 (%s)" % cfg, "one-operand - computes (conversion of operand %s) × %s" % (i0, kst), where=b.where(), fn=b.key, nontrivial=True)
    for (ia, ib) in sorted(set(bad)):
        ctx.fail("K3.operand-order", "%s|operand %s %s operand %s" % (op, ia, name, ib), "%s computes (conversion of operand %s) %s (conversion of operand %s); expected operand 0 %s operand 1" % (op, ia, name, ib, name), where=at, fn=at_fn)
    if dark and not bad:
        ctx.unread("K3.operand-order", inst, "%s: the operands of the float %s were not read as conversions of operands of the operand list (%s)" % (op, name, dark[0]), where=b.where(), fn=b.key)
    elif not bad and not seen:
        ctx.unread("K3.operand-order", inst, "%s: no case of the operator's code (read through %s) shows the float %s" % (op, sorted(cases.walker.expanded) or "no helper", name), where=b.where(), fn=b.key)
    elif not bad:
        ctx.ok("K3.operand-order", "%s computes (conversion of operand 0) %s (conversion of operand 1) (%s)" % (op, name, cfg), nontrivial=True, sample={"operator": op, "cases": seen, "helpers_read_through": sorted(cases.walker.expanded)})


def error_on_none(s):
    b = s.body
    dest = s.term["dest"]["local"]
    # (a) ok_or_else / ok_or consuming the result
    for bi, t in b.calls():
        p = callee_path(t) or ""
        if p in ("std::option::Option::<T>::ok_or_else", "std::option::Option::<T>::ok_or"):
            a = strip_refs(b.trace(t["args"][0]))
            if a[0] == "call" and a[3] == s.bi:
                return True
    # (b) a test of the result (discriminant / is_none / is_some) whose None edge returns Err
    from .core import option_guards
    for (sb, t_some, t_none) in option_guards(b, lambda x: x[0] == "call" and x[3] == s.bi):
        region = b.reachable(t_none) - b.reachable(t_some)
        with b.restricted(region | {t_none}):
            res = strip_refs(b.trace(0))
        if res[0] == "agg" and res[1].get("variant") == "Err":
            return True
        # the same inside a loop (the two edges reach each other through the back edge): every path from the None
        # edge ends the function with an Err before the loop comes round again
        from . import pathsum
        w = pathsum.Walker(b, start=t_none, max_paths=400)
        if w.paths and not w.overflow and all((not p.truncated) and p.result is not None and strip_refs(p.result)[0] == "agg" and strip_refs(p.result)[1].get("variant") == "Err" for p in w.paths):
            return True
        # the None edge stays in the loop but builds an error value there and carries it on (a recorded first failure
        # decided after the loop): whether the function ends with that error is a fact about carried state — not read
        headers = {v_ for (_, v_) in b.back_edges()}
        if w.paths and not w.overflow and headers:
            carried, errs_after = True, False
            for p in w.paths:
                cut = next((i_ for i_, bi_ in enumerate(p.blocks) if bi_ in headers), None)
                r_ = strip_refs(p.result) if (p.result is not None and not p.truncated) else None
                is_err = r_ is not None and ((r_[0] == "agg" and r_[1].get("variant") == "Err") or (r_[0] == "call" and r_[1] and "from_residual" in (r_[1].get("path") or "")))
                if cut is None:
                    if not is_err:
                        carried = False
                    continue
                errs_after = errs_after or is_err
                builds = False
                for bi_ in p.blocks[:cut]:
                    for st in b.blocks[bi_]["stmts"]:
                        if st["k"] == "Assign" and st["rv"]["k"] == "Aggregate" and "Error" in (st["rv"].get("adt") or ""):
                            builds = True
                if not builds:
                    carried = False
            if carried and errs_after:
                return "unread"
    # (c) map(...) then ok_or_else on the mapped value
    for bi, t in b.calls():
        p = callee_path(t) or ""
        if p in ("std::option::Option::<T>::ok_or_else", "std::option::Option::<T>::ok_or"):
            if expr_mentions(b.trace(t["args"][0]), lambda x: x[0] == "call" and x[3] == s.bi and x[1] and x[1].get("key") == callee_of(s.term).get("key")):
                return True
    return False


X = ("arg", 1)
TWO63 = 9223372036854775808.0
BELOW_TWO63 = 9223372036854774784.0       # the largest double below 2^63


def _cval(z):
    z = strip_refs(z)
    if z[0] == "const":
        v = const_value(z[1])
        return float(v) if isinstance(v, (int, float)) and not isinstance(v, bool) else None
    if z[0] == "cast" and z[1] == "IntToFloat" and strip_refs(z[2])[0] == "const":
        v = const_value(strip_refs(z[2])[1])
        return float(v) if isinstance(v, int) and not isinstance(v, bool) else None
    if z[0] == "unop" and z[1] == "Neg" and _cval(z[2]) is not None:
        return -_cval(z[2])
    return None


def _is_x(e):
    return strip_refs(e) == X


def _f64m(e, names):
    return e[0] == "call" and bool(e[1]) and re.search(r"f64>::(%s)$" % names, e[1].get("path") or "") is not None and len(e[2]) >= 1


def _arith(e, depth=0):
    """Built from the result and constants by float arithmetic only (a test on such a term has been *read*)."""
    e = strip_refs(e)
    if depth > 12:
        return False
    if e == X or e[0] == "const":
        return True
    if e[0] == "binop":
        return _arith(e[2], depth + 1) and _arith(e[3], depth + 1)
    if e[0] in ("unop", "cast"):
        return _arith(e[2], depth + 1)
    if e[0] == "call" and e[1] and re.search(r"f64>::\w+$", e[1].get("path") or ""):
        return all(_arith(a, depth + 1) for a in e[2])
    return False


def _whole_term(e):
    e = strip_refs(e)
    return _f64m(e, "trunc|floor|ceil|round|round_ties_even") and _is_x(e[2][0])


def _frac_term(e):
    """A term that is 0 exactly when the result is integral."""
    e = strip_refs(e)
    if _f64m(e, "fract") and _is_x(e[2][0]):
        return True
    if _f64m(e, "abs"):
        return _frac_term(e[2][0])
    if e[0] == "binop" and e[1] == "Rem" and _is_x(e[2]) and _cval(e[3]) == 1.0:
        return True
    if e[0] == "binop" and e[1] == "Sub" and _is_x(e[2]) and _whole_term(e[3]):
        return True
    return False


def _is_from_f64(e):
    e = strip_refs(e)
    return e[0] == "call" and bool(e[1]) and e[1].get("path") == "serde_json::Number::from_f64" and len(e[2]) == 1 and _is_x(e[2][0])


class _Conds:
    """What the branch conditions of one case say about the result x: exact integrality, bounds against constants,
    finiteness (from_f64 → Some/None); `opaque` = conditions that are not tests on x (not read), `loose` = tests on x
    that are neither the integrality test nor a bound against a constant (read, but something else)."""

    def __init__(self, conds, exprs):
        self.integral, self.finite = None, None
        self.lo, self.hi = [], []         # (constant, strict)
        self.tests, self.opaque, self.loose, self.other_eq = [], [], [], []
        for key, val in conds.items():
            if key[0] == "cmp":
                m = exprs.get(key)
                if not isinstance(m, dict) or key[2] not in m or key[3] not in m:
                    self.opaque.append(str(key[1:]))
                    continue
                L, R = m[key[2]], m[key[3]]
                txt = "%s %s %s is %s" % (show_expr(L)[:50], {"Eq": "==", "Lt": "<"}.get(key[1], key[1]), show_expr(R)[:50], val)
                if not (_arith(L) and _arith(R)):
                    self.opaque.append(txt)
                    continue
                self.tests.append(txt)
                if key[1] == "Eq":
                    if (_frac_term(L) and _cval(R) == 0.0) or (_frac_term(R) and _cval(L) == 0.0) or (_whole_term(L) and _is_x(R)) or (_whole_term(R) and _is_x(L)):
                        self.integral = bool(val)
                    else:
                        self.other_eq.append(txt)
                elif key[1] == "Lt" and _is_x(L) and _cval(R) is not None:
                    (self.hi if val else self.lo).append((_cval(R), bool(val)))          # x < c   |  x >= c
                elif key[1] == "Lt" and _is_x(R) and _cval(L) is not None:
                    (self.lo if val else self.hi).append((_cval(L), bool(val)))          # c < x   |  x <= c
                else:
                    self.loose.append(txt)
            elif key[0] == "variant":
                src = exprs.get(key)
                if src is not None and _is_from_f64(src) and val in ("Some", "None"):
                    self.finite = (val == "Some")
                else:
                    self.opaque.append("%s is %s" % (key[1][:60], val))
            elif key[0] == "pure" and re.search(r"::is_(finite|nan|infinite)\(\(arg 1\)\)$", key[1]) and isinstance(val, bool):
                which = re.search(r"::is_(finite|nan|infinite)\(", key[1]).group(1)
                if which == "finite":
                    self.finite = val
                elif val:
                    self.finite = False
            else:
                self.opaque.append("%s is %s" % (str(key[1])[:60], val))

    def in_i64(self):
        lo_ok = any(c == -TWO63 and not strict for c, strict in self.lo)
        hi_ok = any((c == TWO63 and strict) or (c == BELOW_TWO63 and not strict) for c, strict in self.hi)
        return lo_ok, hi_ok

    def outside_i64(self):
        return any((c <= -TWO63 and strict) or (c < -TWO63) for c, strict in self.hi) or any(c >= TWO63 for c, strict in self.lo)

    def bounds(self):
        return ["x %s %r" % (">" if s else ">=", c) for c, s in self.lo] + ["x %s %r" % ("<" if s else "<=", c) for c, s in self.hi]


def _subterms(e, pred, out, depth=0):
    if not isinstance(e, tuple) or depth > 40:
        return
    if pred(e):
        out.append(e)
    for x in e:
        if isinstance(x, tuple):
            _subterms(x, pred, out, depth + 1)
        elif isinstance(x, list):
            for y in x:
                _subterms(y, pred, out, depth + 1)


def _read_result(v):
    """('err',) | ('panic',) | ('int', cast expr) | ('float',) | ('other', expr) for the value of one case."""
    v = strip_refs(v)
    if v == ("panic",):
        return ("panic",)
    if v[0] == "call" and v[1] and "from_residual" in (v[1].get("path") or ""):
        return ("err",)
    if v[0] == "agg" and v[1].get("variant") == "Err":
        return ("err",)
    if v[0] == "agg" and v[1].get("variant") == "Ok" and v[2]:
        p = strip_refs(v[2][0])
        n = None
        if p[0] == "agg" and p[1].get("variant") == "Number" and p[2]:
            n = strip_refs(p[2][0])
        elif p[0] == "call" and p[1] and re.search(r"Value::Number", (p[1].get("path") or "") + " " + (p[1].get("key") or "")) and p[2]:
            n = strip_refs(p[2][0])
        if n is None:
            return ("other", p)
        if n[0] == "call" and n[1] and re.search(r"^<serde_json::Number as std::convert::From<i64>>::from$|Into<.*>>::into$", n[1].get("path") or "") and n[2]:
            c = strip_refs(n[2][0])
            if c[0] == "cast" and c[1] == "FloatToInt":
                return ("int", c)
        if n[0] == "payload" and _is_from_f64(n[2]):
            return ("float",)
        if n[0] == "call" and n[1] and re.search(r"Option::<T>::(unwrap|expect)$", n[1].get("path") or "") and n[2] and _is_from_f64(n[2][0]):
            return ("float",)
        return ("other", n)
    return ("other", v)


def k1(ctx, facts, f, cfg):
    """The result conversion read as a decision table (rules/x_ipath.py: path summaries through the private helpers
    it calls, Option/Result plumbing in case normal form).  Every case is a set of tests on the result x and what is
    returned under them:
        Ok(Number(from(x as i64)))      only under  fract(x) == 0.0  (exactly),  x >= -2^63,  x < 2^63
        Ok(Number(p)), p = payload of from_f64(x)   only where x is not (integral and in the i64 range)
        Err(..)                          only where from_f64(x) is None; and every such case is Err
    whatever helper holds the guards and however the branches are spelled."""
    from . import x_ipath
    name = f.key.split("::", 1)[1]
    cases = x_ipath.decision_cases(facts, f, lambda c: True)
    if cases is None:
        ctx.unread("K1.table", "%s (%s)" % (name, cfg), "the result conversion %s has loops or too many paths: its decision table was not read" % name, where=f.where(), fn=f.key)
        return
    # where the cast is written (for the report)
    cast_at = None
    for k_ in [f.key] + sorted(cases.walker.expanded):
        hb = facts.body(k_)
        for bi, si, st in (hb.stmts() if hb is not None else []):
            if st["k"] == "Assign" and st["rv"]["k"] == "Cast" and st["rv"]["cast"] == "FloatToInt" and cast_at is None:
                cast_at = (hb, bi, si)
    at_cast = cast_at[0].where(cast_at[1], cast_at[2]) if cast_at else f.where()
    fn_cast = cast_at[0].key if cast_at else f.key
    res = {}          # clause -> {"ok": n, "fail": [detail], "unread": [detail]}

    def note(clause, outcome, detail="", tag=None):
        r = res.setdefault(clause, {"ok": 0, "fail": [], "unread": []})
        if outcome == "ok":
            r["ok"] += 1
        elif outcome == "unread":
            if detail not in r["unread"]:
                r["unread"].append(detail)
        elif not any(t == (tag or "violated") for t, _ in r["fail"]):
            r["fail"].append((tag or "violated", detail))

    kinds = {"int": 0, "float": 0, "err": 0}
    nonfinite_cases = 0
    for conds, v, p in cases:
        cd = _Conds(conds, cases.exprs)
        rr = _read_result(v)
        under = "; ".join(cd.tests + cd.opaque) or "no test"
        bad = []
        _subterms(v, lambda y: y[0] == "call" and bool(y[1]) and ROUNDERS.search(y[1].get("path") or "") is not None, bad)
        for y in bad:
            note("K1.rounded", "fail", "the result is passed through %s before being returned: it would be rounded further" % y[1]["path"], tag=y[1]["path"].rsplit("::", 1)[1])
        if cd.finite is False:
            nonfinite_cases += 1
            if rr[0] == "err":
                note("K1.non-finite-is-error", "ok")
            elif rr[0] == "panic":
                note("K1.non-finite-is-error", "fail", "from_f64's None (a non-finite result) is unwrapped: the evaluation panics instead of returning an error", tag="unwrap")
            else:
                note("K1.non-finite-is-error", "fail", "where from_f64(x) is None (x not finite) the conversion returns %s, not an error" % show_expr(v)[:80], tag="not Err")
        if rr[0] == "int":
            kinds["int"] += 1
            c = rr[1]
            if _is_x(c[2]) and c[3] == "i64":
                note("K1.cast-of-result", "ok")
            elif not _is_x(c[2]):
                note("K1.cast-of-result", "fail", "the float→int cast is applied to %s, not to the result itself" % show_expr(strip_refs(c[2]))[:80], tag="cast of another value")
            else:
                note("K1.range", "fail", "the result is cast to %s (saturating); the integer spelling must cover the i64 range" % c[3], tag="cast to %s" % c[3])
            if cd.integral is True:
                note("K1.integrality", "ok")
            elif cd.opaque or cd.other_eq:
                note("K1.integrality", "unread", "the integer spelling is reached under tests that were not read as the exact integrality test (%s)" % under)
            else:
                note("K1.integrality", "fail", "the float→int cast is reached without the exact test fract(x) == 0.0 (tests on this path: %s) — a tolerance would round tiny results to 0" % under, tag="no exact test")
            lo_ok, hi_ok = cd.in_i64()
            if lo_ok and hi_ok:
                note("K1.range", "ok")
            elif cd.opaque and not (cd.lo or cd.hi):
                note("K1.range", "unread", "the integer spelling is reached under tests that were not read as the i64 range guards (%s)" % under)
            else:
                note("K1.range", "fail", "the saturating float→int cast is not guarded by the exact i64 range -2^63 <= x < 2^63 (bounds read on this path: %s)" % (cd.bounds() or "none"), tag="bounds " + ",".join(cd.bounds() or ["none"]))
        elif rr[0] == "float":
            kinds["float"] += 1
            note("K1.from-f64", "ok")
            if cd.integral is False or cd.outside_i64():
                note("K1.integer-spelling", "ok")
            elif cd.opaque or cd.other_eq or cd.loose:
                note("K1.integer-spelling", "unread", "the float spelling is reached under tests that were not read as 'not integral or outside the i64 range' (%s)" % under)
            else:
                note("K1.integer-spelling", "fail", "a result that is integral and fits an i64 can reach the float spelling (tests on this path: %s)" % under, tag="integral result as float")
        elif rr[0] == "err":
            kinds["err"] += 1
            if cd.finite is False:
                note("K1.error-iff-non-finite", "ok")
            elif cd.opaque:
                note("K1.error-iff-non-finite", "unread", "an error is returned under tests that were not read (%s)" % under)
            else:
                note("K1.error-iff-non-finite", "fail", "an error is returned for a finite result (tests on this path: %s)" % under, tag="finite result")
        elif rr[0] == "panic":
            if cd.finite is not False:
                note("K1.non-finite-is-error", "fail", "the conversion can panic (unwrap of None under: %s)" % under, tag="panic")
        else:
            o = rr[1]
            seen_bad = bool(bad)
            cs_ = []
            _subterms(o, lambda y: y[0] == "cast" and y[1] == "FloatToInt", cs_)
            for c in cs_:
                seen_bad = True
                if not _is_x(c[2]):
                    note("K1.cast-of-result", "fail", "the float→int cast is applied to %s, not to the result itself" % show_expr(strip_refs(c[2]))[:80], tag="cast of another value")
                else:
                    note("K1.cast-of-result", "fail", "the integer %s goes through %s before it becomes the JSON number" % (show_expr(c)[:40], show_expr(o)[:80]), tag="integer altered")
            vs_ = []
            _subterms(o, lambda y: y[0] == "call" and bool(y[1]) and re.search(r"^<serde_json::Value as std::convert::From<f(32|64)>>::from$|^serde_json::Number::from_f64$", y[1].get("path") or "") is not None, vs_)
            for y in vs_:
                seen_bad = True
                if y[1]["path"].endswith("from_f64"):
                    note("K1.from-f64", "fail", "Number::from_f64 is applied to %s, not to the result itself" % show_expr(strip_refs(y[2][0]))[:80], tag="from_f64 of another value")
                else:
                    note("K1.non-finite-is-error", "fail", "the result goes through Value::from(f64), which maps a non-finite number to null instead of an error", tag="Value::from")
            if not seen_bad:
                note("K1.table", "unread", "the conversion returns %s under (%s): not one of the spellings of a JSON number the rule reads" % (show_expr(o)[:80], under))
    if not nonfinite_cases:
        note("K1.non-finite-is-error", "unread" if res.get("K1.table", {}).get("unread") else "fail", "no case of the conversion asks whether the result is finite (from_f64 → None): a non-finite result has no way to become an error", tag="no finiteness test")
    if not kinds["int"] and not res.get("K1.table", {}).get("unread"):
        note("K1.integer-spelling", "fail", "no case of the conversion spells an integral result as a JSON integer", tag="no integer spelling")
    if not kinds["float"] and not res.get("K1.table", {}).get("unread"):
        note("K1.from-f64", "fail", "no case of the conversion hands the result itself to Number::from_f64", tag="no from_f64")
    titles = {"K1.cast-of-result": "the integer spelling casts the result itself",
              "K1.integrality": "the integer spelling is taken only when fract(result) == 0.0 exactly",
              "K1.range": "the integer spelling is taken only for -2^63 <= result < 2^63",
              "K1.from-f64": "otherwise the result itself goes through Number::from_f64",
              "K1.integer-spelling": "the float spelling is taken only for results that are not integral or do not fit an i64",
              "K1.non-finite-is-error": "a non-finite result (from_f64 → None) becomes Err",
              "K1.error-iff-non-finite": "the conversion fails only for a non-finite result",
              "K1.rounded": "the result reaches both spellings unrounded", "K1.table": "every case of the conversion was read"}
    res.setdefault("K1.rounded", {"ok": 1, "fail": [], "unread": []})
    for clause in sorted(res):
        r = res[clause]
        where = at_cast if clause in ("K1.cast-of-result", "K1.integrality", "K1.range") else f.where()
        fn = fn_cast if clause in ("K1.cast-of-result", "K1.integrality", "K1.range") else f.key
        if r["fail"]:
            for tag, d in r["fail"][:4]:
                ctx.fail(clause, "%s|%s" % (name, tag), d, where=where, fn=fn)
        elif r["unread"]:
            ctx.unread(clause, "%s (%s)" % (name, cfg), r["unread"][0], where=where, fn=fn)
        else:
            ctx.ok(clause, "%s (%s)" % (titles.get(clause, clause), cfg), nontrivial=clause != "K1.table", sample={"cases": len(cases), "kinds": dict(kinds), "helpers_read_through": sorted(cases.walker.expanded)})
