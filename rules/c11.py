#!/usr/bin/env python3
"""C11 — var resolves paths through objects, arrays and strings; absent means default.

Structural clauses (necessary conditions; the path arithmetic itself is value-level):
  K1  key typing: every conversion Value → key (found by signature; helpers of the conversions are read through),
      as a table JSON kind → outcomes read off its composed decision cases — Null → Null key, String → String key
      carrying the string's own text, Number → integer key that is the payload of as_i64 or Err, Bool/Array/Object →
      Err; all conversions agree;
  K2  the index helper, by role (a (sequence, i64) → Option function in the lookup's reach that performs a positional
      access itself — slice, Vec or any DoubleEndedIterator): outside it no positional access, nowhere a byte-based
      string operation; at its call sites the text of a data string arrives only as its chars() (provenance), an
      array as its own payload; its decision cases form the position table  idx >= 0 → |idx| from the front,
      idx < 0 → |idx| from the back (len − |idx| with a checked subtraction on the length of the sequence read,
      nth_back(|idx| − 1), rev().nth(|idx| − 1)) or nothing — a clamped subtraction, a foreign length, another sign
      test are read and wrong, arithmetic the reader does not know is left unread;
  K3  absent is None, present is Some — even for null: var's decision cases return the found value, and only when
      the lookup (found by role: the Option<Value> function var calls with the data and the key) answers None the
      default — null or a clone of operand 1; var never inspects the found value; the operand-less form, the null
      key and the empty string return a clone of the entire data;
  K4  the default is used as a value, never re-interpreted (C04's S1 analysis);
  K5  frame: the walker (by role: the function in the lookup's reach that calls the splitter) answers the entire
      data, nothing, or the accumulation over the splitter's segments — a fold or a loop with a carried value of any
      type — seeded with the data, left early only with 'absent', nothing looked up after it; every step, read as
      decision cases of the step function / path summaries of one iteration (helpers read through), is exactly one
      access to the current value with the segment — Map::get(segment) on its object payload, the index helper on
      its array payload / the chars() of its string payload with the segment parsed as i64 — or nothing; no
      Value indexing (null for absent), no iteration over map entries;
  K6  the splitter is the transducer the property states (rules/splitter.py): a
      one-flag loop over str::chars of the whole key, split at '.', in which —
      on every path through one iteration — an escaped character is pushed as it
      is and nothing else (flag reset), an unescaped backslash pushes nothing and
      sets the flag, an unescaped delimiter emits and clears the segment, any
      other character is pushed as it is; the pending segment is emitted last.
"""
import re
from .core import (callee_of, callee_path, strip_refs, strip_payload, show_expr, const_value, expr_mentions, op_const, edge_dominates, bool_edge, switch_edges_for_variant)
from .engine import Inconclusive
from .roles import Roles
from .opfacts import Unit
from . import prov as P

VALUE = "serde_json::Value"
CLONE = "<serde_json::Value as std::clone::Clone>::clone"
BYTE_OPS = re.compile(r"^core::str::<impl str>::(len|as_bytes|bytes|char_indices|get|get_unchecked|split_at|is_char_boundary|find|rfind|byte\w*)$|^std::string::String::(len|as_bytes|into_bytes)$|^core::str::traits::<impl std::ops::Index<I> for str>::index$|^<std::string::String as std::ops::Index<I>>::index$")
DIRECT_INDEX = re.compile(r"^core::slice::<impl \[T\]>::(get|get_mut|first|last|split_at|get_unchecked)$|^<std::vec::Vec<T, A> as std::ops::Index<I>>::index$|^core::slice::index::<impl std::ops::Index<I> for \[T\]>::index$|^std::iter::Iterator::(nth|last|skip|rev)$|(Iterator>::)(nth|nth_back)$|^std::vec::Vec::<T, A>::(get|first|last)$")
MAP_ITER = re.compile(r"^serde_json::Map::<.*>::(iter|iter_mut|keys|values|values_mut|into_iter|entry|retain|remove|contains_key)$|serde_json::Map<.*> as std::iter::IntoIterator>::into_iter$")


def lookup_role(ctx, facts, roles):
    """The shared lookup, by role: the one local function var hands the data and the typed key to and whose
    Option<Value> answer it turns into its result.  Returns (body, data parameter, key parameter, key ADT)."""
    items = facts.items
    vb, _ = roles.fn_of("var")
    cands = {}
    for b in roles.unit(vb.key):
        for bi, t in b.calls():
            c = callee_of(t)
            if c and c.get("local") and items.get(c["key"], {}).get("output") == "std::option::Option<serde_json::Value>":
                cands.setdefault(c["key"], []).append((b, bi))
    if len(cands) != 1:
        raise Inconclusive("shared lookup (data, key) → Option<Value> called by var not identified (%d candidates)" % len(cands))
    lookup = facts.body(list(cands)[0])
    ins = items[lookup.key].get("inputs", [])
    dps = [i + 1 for i, t in enumerate(ins) if t == "&serde_json::Value"]
    kps = [i + 1 for i, t in enumerate(ins) if t != "&serde_json::Value" and lookup.locals[i + 1].get("adt") and facts.adts.get(lookup.locals[i + 1]["adt"], {}).get("variants")]
    if len(ins) != 2 or len(dps) != 1 or len(kps) != 1:
        raise Inconclusive("shared lookup %s: parameters (data, key) not recognised: %s" % (lookup.key, ins))
    return lookup, dps[0], kps[0], lookup.locals[kps[0]]["adt"]


def _is_ctor(c):
    return bool(c) and "{constructor#" in (c.get("key") or "")


def composed_cases(facts, body, known=None, env=None, depth=0, stack=()):
    """Decision cases of `body` (rules/optnorm.py) with the crate's own helper functions in result position read
    through: a case whose value is (a constructor around) a call of a local function is replaced by that function's
    cases, its parameters bound to the caller's argument expressions — so `known` and the atoms stay in the caller's
    terms.  A helper that cannot be summarised is left as the call it is.  Returns [(conds, value)] or None."""
    from . import optnorm
    cs = optnorm.decision_cases(facts, body, known=known, env=env)
    if cs is None:
        return None
    out = []

    def expand(v, d):
        x = strip_refs(v)
        if x[0] == "agg" and x[1].get("agg") == "Adt" and len(x[2]) == 1:
            sub = expand(x[2][0], d)
            if len(sub) == 1 and not sub[0][0]:
                return [({}, x if sub[0][1] is x[2][0] else ("agg", x[1], [sub[0][1]]))]
            return [(c2, ("agg", x[1], [v2])) for c2, v2 in sub]
        if x[0] == "call" and x[1] and x[1].get("local") and not _is_ctor(x[1]) and d < 4 and x[1]["key"] not in stack + (body.key,):
            cb = facts.body(x[1]["key"])
            if cb is not None and cb.kind == "fn" and cb.arg_count == len(x[2]):
                sub = composed_cases(facts, cb, known=known, env={i + 1: a for i, a in enumerate(x[2])}, depth=d + 1, stack=stack + (body.key,))
                if sub is not None:
                    return [(dict(c2), v2) for c2, v2 in sub]
        return [({}, x)]
    for conds, v, _p in cs:
        for c2, v2 in expand(v, depth):
            cc = dict(conds)
            clash = False
            for k, val in c2.items():
                if k in cc and cc[k] != val:
                    clash = True
                cc[k] = val
            if not clash:
                out.append((cc, v2))
    return out


def key_typing(ctx, facts, roles, key_adt, cfg, K="K1"):
    """K1 — which JSON kinds become which key kinds, read off the decision cases of every conversion Value → key
    (helpers of the conversions read through): a table kind → {outcome}, the integer key being the payload of as_i64
    of the number and the string key carrying the string's own text."""
    items = facts.items
    fam = [b for b in facts.fns() if b.kind == "fn" and items.get(b.key, {}).get("output", "").startswith("std::result::Result<%s" % key_adt) and items[b.key].get("inputs") in (["serde_json::Value"], ["&serde_json::Value"])]
    famk = {b.key for b in fam}
    cg, _ = facts.callgraph()
    callers = {}
    for k, cs in cg.items():
        root = k.split("::{closure#")[0]
        for c in cs:
            callers.setdefault(c, set()).add(root)
    # conversions proper: used from outside the family (or not at all); the others are their helpers
    top = [b for b in fam if not (callers.get(b.key, set()) - {b.key}) or (callers.get(b.key, set()) - famk)]
    ctx.floor("KeyType conversions (%s)" % cfg, len(top), 1)
    want = {"Null": {"OK(Null)"}, "String": {"OK(String)"}, "Number": {"OK(Number)", "ERR"}, "Bool": {"ERR"}, "Array": {"ERR"}, "Object": {"ERR"}}
    mats = []
    for cb in top:
        m = {}
        for v in facts.variants(VALUE):
            cases = composed_cases(facts, cb, known=lambda pe, adt, _v=v: _v if (adt == VALUE and strip_refs(pe) == ("arg", 1)) else None)
            key = "%s: %s key (%s)" % (cb.key.split("::", 1)[1], v, cfg)
            if cases is None:
                ctx.unread(K + ".key-typing", key, "the conversion has loops or too many paths to summarise", where=cb.where(), fn=cb.key)
                m[v] = None
                continue
            got = set()
            for conds, val in cases:
                got.add(_key_outcome(val, conds, key_adt))
            m[v] = got
            unk = {g for g in got if g.startswith("?")}
            if unk and (got - unk) <= want[v]:
                ctx.unread(K + ".key-typing", key, "a %s key is typed as %s — not a form the rule reads" % (v, sorted(got)), where=cb.where(), fn=cb.key)
                m[v] = None
            else:
                ctx.check(got == want[v], K + ".key-typing", key, "a %s key is typed as %s; expected %s" % (v, "+".join(sorted(got)), "+".join(sorted(want[v]))), where=cb.where(), fn=cb.key, nontrivial=True,
                          sample={"conversion": cb.key, "kind": v, "outcome": sorted(got)})
        mats.append((cb, m))
    if len(mats) >= 2 and all(x is not None for _, m in mats for x in m.values()):
        ctx.check(all(m == mats[0][1] for _, m in mats), K + ".key-siblings", "the KeyType conversions agree (%s)" % cfg, "the conversions from Value and &Value type keys differently", where=top[0].where(), nontrivial=True)


SAME_PAYLOAD = re.compile(r"^std::option::Option::<T>::(ok_or|ok_or_else|copied|cloned|as_ref|as_deref|or|or_else)$|^std::result::Result::<T, E>::(ok|map_err|as_ref|or_else)$|as std::ops::Try>::branch$")


def payload_source(e):
    """The Option/Result-valued expression whose Some/Ok payload `e` (a payload placeholder or a `(x as Some).0`
    projection) is, looking through the plumbing that hands a payload on unchanged (`ok_or_else`, `ok`, `?`, …)."""
    x = strip_refs(e)
    proj = False
    for _ in range(12):
        if x[0] == "payload":
            x, proj = strip_refs(x[2]), True
        elif x[0] == "field" and x[2] == 0 and x[1][0] == "downcast" and x[1][2] in ("Some", "Ok", "Continue"):
            x, proj = strip_refs(x[1][1]), True
        elif x[0] == "call" and x[1] and SAME_PAYLOAD.search(x[1]["path"]) and x[2]:
            x = strip_refs(x[2][0])
        elif proj and x[0] == "agg" and x[1].get("variant") in ("Some", "Ok") and x[2]:
            x, proj = strip_refs(x[2][0]), False          # the payload of a constructor that is known: its operand
        else:
            break
    return x


def _subst(e, old, new):
    if e is old:
        return new
    if not isinstance(e, tuple):
        return e
    return tuple(_subst(x, old, new) if isinstance(x, tuple) else ([_subst(y, old, new) if isinstance(y, tuple) else y for y in x] if isinstance(x, list) else x) for x in e)


def read_through_calls(facts, conds, v, depth=0, skip=()):
    """[(conds, value)] — `v` with the calls of the crate's own (loop-free) functions inside it replaced by their
    composed decision cases, parameters bound to the argument expressions (so atoms stay in the caller's terms).  For
    arithmetic that a maintainer moved into a helper (`slice.get(resolve(len, idx)?)`)."""
    from . import pathsum
    if depth > 3:
        return [(conds, v)]
    hit = []
    expr_mentions(v, lambda y: hit.append(y) or False if (y[0] == "call" and y[1] is not None and y[1].get("local") and not _is_ctor(y[1]) and y[1]["key"] not in skip and facts.body(y[1]["key"]) is not None and facts.body(y[1]["key"]).kind == "fn") else False)
    if not hit:
        return [(conds, v)]
    c = hit[0]
    cb = facts.body(c[1]["key"])
    if cb.arg_count != len(c[2]):
        return [(conds, v)]
    sub = composed_cases(facts, cb, env={i + 1: a for i, a in enumerate(c[2])})
    if sub is None:
        return [(conds, v)]
    asked = conds.get(("variant", pathsum.canon(c)))
    out = []
    for c2, v2 in sub:
        x2 = strip_refs(v2)
        tag = x2[1].get("variant") if x2[0] == "agg" else ("None" if (x2[0] == "call" and x2[1] and "from_residual" in x2[1]["path"]) else None)
        if asked in ("Some", "Ok") and tag in ("None", "Err"):
            continue
        if asked in ("None", "Err") and tag in ("Some", "Ok"):
            continue
        cc = dict(conds)
        if any(k in cc and cc[k] != val for k, val in c2.items()):
            continue
        cc.update(c2)
        out.extend(read_through_calls(facts, cc, _subst(v, c, v2), depth + 1, skip))
    return out or [(conds, v)]


def _key_outcome(val, conds, key_adt):
    v = strip_refs(val)
    if v[0] == "call" and v[1] and "from_residual" in v[1]["path"]:
        return "ERR"
    if v[0] == "agg" and v[1].get("variant") == "Err":
        return "ERR"
    if not (v[0] == "agg" and v[1].get("variant") == "Ok" and v[2]):
        return "?" + show_expr(v)[:60]
    k = strip_refs(v[2][0])
    if k[0] == "agg" and k[1].get("adt") == key_adt:
        var, ops = k[1].get("variant"), k[2]
    elif k[0] == "call" and _is_ctor(k[1]):
        var, ops = k[1]["path"].rsplit("::", 1)[1], k[2]
    else:
        return "?OK(%s)" % show_expr(k)[:60]
    if var == "String":
        own = ops and expr_mentions(ops[0], lambda x: x[0] == "downcast" and x[2] == "String" and strip_refs(x[1]) == ("arg", 1))
        return "OK(String)" if own else "OK(String of %s)" % (show_expr(ops[0])[:50] if ops else "nothing")
    if var == "Number":
        o = strip_refs(ops[0]) if ops else ("none",)
        src = payload_source(o) if o[0] == "payload" else None
        via = src is not None and src[0] == "call" and src[1] and src[1]["path"] == "serde_json::Number::as_i64" and expr_mentions(src[2][0], lambda x: x[0] == "downcast" and x[2] == "Number" and strip_refs(x[1]) == ("arg", 1))
        return "OK(Number)" if via else "OK(Number of %s)" % show_expr(o)[:50]
    return "OK(%s)" % var


def run(ctx):
    ctx.explanation = __doc__
    ctx.rule = "instances = 6 key-typing cases per conversion, index-helper call sites and decision cases, forbidden-call scans of the lookup's reach, default-selection cases, per-case step table of the path walk; non-trivial = decision cases / def-use"
    ctx.trusted = ["str::chars / Vec<char> indexing is by Unicode scalar value", "serde_json::Map::get is exact-key lookup"]
    cfgs = ["default"] if ctx.tier == "quick" else ["default", "python", "wasm"]
    for cfg in cfgs:
        facts = ctx.facts(cfg)
        roles = Roles(facts)
        lookup, DP, KP, key_adt = lookup_role(ctx, facts, roles)
        DATA = ("arg", DP)
        items = facts.items
        # ---------------- K1
        key_typing(ctx, facts, roles, key_adt, cfg, "K1")

        # ---------------- K2
        # the index helper(s), by role: the functions (…, i64) → Option in the lookup's reach that perform a positional
        # access themselves (whatever the sequence type: slice, Vec, any DoubleEndedIterator)
        reach = Unit(roles, lookup.key, extended=True)
        helpers = []
        for b in reach.bodies:
            ins = items.get(b.key, {}).get("inputs", [])
            if b.kind == "fn" and b.key != lookup.key and len(ins) == 2 and ins.count("i64") == 1 and items[b.key].get("output", "").startswith("std::option::Option<"):
                if any(DIRECT_INDEX.search(callee_path(t) or "") for bb in roles.unit(b.key) for _, t in bb.calls()):
                    helpers.append(b)
        ctx.check(len(helpers) == 1, "K2.one-helper", "one negative-index helper (sequence, i64) → Option (%s)" % cfg, "%d index helpers%s" % (len(helpers), (": " + ", ".join(h.key.split("::", 1)[1] for h in helpers)) if helpers else ""), where=lookup.where(), nontrivial=True)
        helper = helpers[0] if len(helpers) == 1 else None
        lu = Unit(roles, lookup.key, extended=True, stop=[h.key for h in helpers])
        nsites = 0
        for hb in helpers:
            sites = lu.calls_to(hb.key)
            nsites += len(sites)
            for s in sites:
                index_site(ctx, s, 2 - items[hb.key]["inputs"].index("i64"), cfg)
            for bb in roles.unit(hb.key):        # inside a helper positional access is its business, bytes are not
                for bi, t in bb.calls():
                    p = callee_path(t) or ""
                    if BYTE_OPS.search(p):
                        ctx.fail("K2.no-bytes", "%s|%s" % (bb.key.split("::", 1)[1], p.rsplit("::", 1)[1]), "byte-based string operation %s in an index helper of the lookup: strings must be indexed by Unicode character" % p, where=bb.where(bi), fn=bb.key)
        if helpers:
            ctx.floor("index helper call sites (%s)" % cfg, nsites, 1)
        for s in lu.calls(lambda c: not c["local"]):
            p = callee_path(s.term)
            if BYTE_OPS.search(p):
                ctx.fail("K2.no-bytes", "%s|%s" % (s.body.key.split("::", 1)[1], p.rsplit("::", 1)[1]), "byte-based string operation %s in the lookup: strings must be indexed by Unicode character" % p, where=s.where(), fn=s.body.key)
            if DIRECT_INDEX.search(p):
                ctx.fail("K2.no-direct-index", "%s|%s" % (s.body.key.split("::", 1)[1], p.rsplit("::", 1)[1]), "positional access %s bypasses the negative-index helper" % p, where=s.where(), fn=s.body.key)
            if MAP_ITER.search(p):
                ctx.fail("K5.no-entry-scan", "%s|%s" % (s.body.key.split("::", 1)[1], p.rsplit("::", 1)[1]), "the lookup uses %s: parts of the data not named by the path can influence the result" % p, where=s.where(), fn=s.body.key)
        ctx.ok("K2.scan", "lookup reach scanned for byte operations / direct indexing / entry scans (%d bodies, %s)" % (len(lu.bodies), cfg), nontrivial=True, sample={"bodies": sorted(b.key for b in lu.bodies)})
        for hb in helpers:
            ip = items[hb.key]["inputs"].index("i64") + 1
            helper_table(ctx, facts, hb, 3 - ip, ip, cfg if len(helpers) == 1 else "%s, %s" % (hb.key.split("::", 1)[1], cfg))

        # ---------------- K3 / K4 on var
        vb, ve = roles.fn_of("var")
        vu = Unit(roles, vb.key)
        lk = vu.calls_to(lookup.key)
        ctx.check(len(lk) == 1, "K3.one-lookup", "var performs one lookup (%s)" % cfg, "%d lookups" % len(lk), where=vb.where(), fn=vb.key)
        if len(lk) == 1:
            s = lk[0]
            # the decision cases of var (rules/optnorm.py: `match`, `if let`, unwrap_or_else, map_or … in one form):
            #   lookup found something      → exactly that value
            #   lookup found nothing        → null, or a clone of operand 1
            #   no lookup on the path       → a clone of the entire data (operand-less form) or an error
            from . import optnorm
            cases = optnorm.decision_cases(facts, vb)
            sel = match_form = None
            if cases is None:
                ctx.unread("K3.default-on-none", "var (%s)" % cfg, "var has loops or too many paths to summarise", where=vb.where(), fn=vb.key)
            else:
                bad, kinds = [], set()
                for conds, v, pth in cases:
                    st = None
                    lkey = None
                    for k, val in conds.items():
                        if k[0] == "variant" and k[1].startswith(lookup.key + "@"):
                            st, lkey = val, k[1]
                    v = strip_refs(v)
                    if v[0] == "call" and v[1] and "from_residual" in v[1]["path"]:
                        continue
                    if v[0] == "agg" and v[1].get("variant") == "Err":
                        continue
                    inner = strip_refs(v[2][0]) if (v[0] == "agg" and v[1].get("variant") == "Ok" and v[2]) else None
                    if inner is None:
                        bad.append("returns %s" % show_expr(v)[:80])
                        continue
                    is_null = (inner[0] == "const" and "item" in inner[1] and items.get(inner[1]["item"], {}).get("ty") == VALUE) or (inner[0] == "agg" and inner[1].get("adt") == VALUE and inner[1].get("variant") == "Null")
                    is_clone = inner[0] == "call" and inner[1] and inner[1]["path"] == CLONE
                    if st == "Some":
                        if inner[0] == "payload" and inner[1] == lkey:
                            kinds.add("found")
                        else:
                            bad.append("lookup found a value but var returns %s" % show_expr(inner)[:80])
                    elif st == "None":
                        if is_null:
                            kinds.add("null-const")
                        elif is_clone and (operand_index(strip_refs(inner[2][0])) == 1 or _abs_operand(vb, inner[2][0]) == 1):
                            kinds.add("operand1")
                        else:
                            bad.append("lookup found nothing and var returns %s" % show_expr(inner)[:80])
                    else:
                        if is_clone and strip_refs(inner[2][0]) == ("arg", 1):
                            kinds.add("whole-data")
                        else:
                            bad.append("without a lookup var returns %s" % show_expr(inner)[:80])
                ctx.check(not bad and "found" in kinds, "K3.default-on-none", "var returns the found value, the default only when the lookup is None (%s)" % cfg,
                          "; ".join(bad[:3]) if bad else "no case returns the found value", where=vb.where(), fn=vb.key, nontrivial=True, sample={"cases": len(cases), "forms": sorted(kinds)})
                ctx.check({"null-const", "operand1"} <= kinds or bad, "K3.default-value", "the default is null or a clone of operand 1 (%s)" % cfg, "default alternatives: %s" % sorted(kinds - {"found", "whole-data"}), where=vb.where(), fn=vb.key, nontrivial=True)
            # never inspects the found value
            insp = []
            for b in vu.bodies:
                for bi, si, st in b.stmts():
                    if st["k"] == "Assign" and st["rv"]["k"] == "Discriminant" and st["rv"].get("adt") == VALUE:
                        e = strip_refs(b.xtrace({"k": "Copy", "place": st["rv"]["place"]})) if False else strip_refs(b._trace_place(st["rv"]["place"], 0, frozenset()))
                        if expr_mentions(e, lambda x: x[0] == "call" and x[1] and x[1].get("key") == lookup.key):
                            insp.append((b, bi, si))
                for bi, t in b.calls():
                    p = callee_path(t) or ""
                    if re.search(r"serde_json::Value::(is_null|as_\w+|is_\w+)$|Option::<T>::(filter|and_then|is_some_and|xor|zip)$", p):
                        a0 = b.trace(t["args"][0])
                        if expr_mentions(a0, lambda x: x[0] == "call" and x[1] and x[1].get("key") == lookup.key):
                            insp.append((b, bi, None))
            for b, bi, si in insp:
                ctx.fail("K3.inspects-found", "var|%s" % b.where(bi), "var inspects the looked-up value (a present null would be treated like an absent key)", where=b.where(bi, si) if si is not None else b.where(bi), fn=b.key)
            if not insp:
                ctx.ok("K3.inspects-found", "var never inspects the found value (%s)" % cfg, nontrivial=True)
        # whole-data forms
        whole = []
        for b in [vb, lookup] + [x for x in lu.bodies if x.kind == "fn" and x.key not in (lookup.key,)]:
            for bi, t in b.calls():
                if callee_path(t) == CLONE:
                    a = strip_refs(b.trace(t["args"][0]))
                    if a[0] == "arg" and a[1] - 1 < len(items.get(b.key, {}).get("inputs", [])) and items[b.key]["inputs"][a[1] - 1] == "&serde_json::Value":
                        whole.append((b.key, bi))
        ctx.check(len(whole) >= 3, "K3.whole-data", "operand-less var, the null key and the empty string return a clone of the entire data (%s)" % cfg, "only %d whole-data clone sites (%s)" % (len(whole), whole), where=vb.where(), fn=vb.key, nontrivial=True,
                  sample={"sites": whole})
        # Null key → Some(data.clone()) in the lookup (specialise on the key kind)
        blocks, dec = lookup.specialize(lambda e, a: "Null" if a == key_adt else None)
        with lookup.restricted(blocks):
            r = strip_refs(lookup.trace(0))
        good = r[0] == "agg" and r[1].get("variant") == "Some" and strip_refs(r[2][0])[0] == "call" and strip_refs(r[2][0])[1]["path"] == CLONE and strip_refs(strip_refs(r[2][0])[2][0]) == DATA
        ctx.check(good, "K3.null-key", "a null key yields Some(entire data) (%s)" % cfg, "a null key yields %s" % show_expr(r)[:100], where=lookup.where(), fn=lookup.key, nontrivial=True)
        # K4
        _, s1res = P.analyse(roles)
        dirty = [sk for sk, verdict, how in s1res if verdict == "dirty" and (sk.body.key in vu.keys or sk.body.key in lu.keys)]
        for sk in dirty:
            ctx.fail("K4.default-inert", "var|%s" % sk.ident(), "var parses a computed value (provenance %s): the default or the data would be executed as a rule" % sorted(sk.tags), where=sk.body.where(sk.bi), fn=sk.body.key)
        if not dirty:
            ctx.ok("K4.default-inert", "nothing in var or the lookup parses a value (%s)" % cfg, nontrivial=True)

        # ---------------- K5 the dotted-path walk
        # roles: the splitter is the (&str, char) → Vec<String> function in the lookup's reach, the walker the function
        # that calls it
        splitters = [b.key for b in lu.bodies if b.kind == "fn" and items.get(b.key, {}).get("output") == "std::vec::Vec<std::string::String>" and sorted(items[b.key].get("inputs", [])) == ["&str", "char"]]
        walkers = [b for b in lu.bodies if b.kind == "fn" and b.key != lookup.key and any(callee_of(t) and callee_of(t).get("key") in splitters for bb in roles.unit(b.key) for _, t in bb.calls())]
        if not splitters:
            walkers = [b for b in lu.bodies if b.kind == "fn" and b.key != lookup.key and items.get(b.key, {}).get("output") == "std::option::Option<serde_json::Value>"]
        ctx.check(len(walkers) == 1, "K5.walker", "one dotted-path walker (%s)" % cfg, "%d candidates" % len(walkers), where=lookup.where())
        if len(walkers) == 1:
            walk(ctx, facts, roles, walkers[0], helpers, cfg)


def walk(ctx, facts, roles, w, helpers, cfg):
    helper = helpers[0] if helpers else None
    """K5 on the walker: its answer is the entire data (empty key), nothing, or the accumulation over the splitter's
    segments — a fold, or a loop with a carried value — and nothing after it; every step is read as a table."""
    items = facts.items
    r = strip_refs(w.trace(0))
    cands = [strip_refs(x) for x in r[2]] if r[0] == "phi" else [r]
    kinds = []
    fold = None
    for c in cands:
        if c[0] == "agg" and c[1].get("variant") == "None":
            kinds.append("None")
        elif c[0] == "agg" and c[1].get("variant") == "Some" and strip_refs(c[2][0])[0] == "call" and strip_refs(c[2][0])[1]["path"] == CLONE:
            kinds.append("Some(data)")
        elif c[0] == "call" and c[1] and re.search(r"Iterator(>)?::(fold|try_fold)$", c[1]["path"]):
            kinds.append("fold")
            fold = c
        else:
            kinds.append("other:" + show_expr(c)[:60])
    if fold is None:
        if walker_loop_step(ctx, facts, roles, w, helpers, cfg):
            return
        # neither the fold itself nor a loop over the segments: if a fold's answer is worked on before it is returned
        # that is read (and wrong); any other form is not read
        post = [c for c in cands if expr_mentions(c, lambda x: x[0] == "call" and x[1] is not None and re.search(r"Iterator(>)?::(fold|try_fold)$", x[1]["path"]) is not None)]
        if not post:
            ctx.unread("K5.walk-is-the-result", "walker (%s)" % cfg, "the walker answers %s — neither a fold nor a loop over the splitter's segments that the rule reads" % kinds, where=w.where(), fn=w.key)
            return
    ctx.check(sorted(kinds) == ["None", "Some(data)", "fold"], "K5.walk-is-the-result", "the walker returns the entire data (empty key), None (scalar data) or exactly the fold over the segments (%s)" % cfg,
              "the walker's results are %s — a lookup that failed along the path must stay absent (no fallback)" % kinds, where=w.where(), fn=w.key, nontrivial=True, sample={"results": kinds})
    if fold is not None:
        it = fold[2][0]
        split = expr_mentions(it, lambda x: x[0] == "call" and x[1] and x[1]["local"] and items.get(x[1]["key"], {}).get("output") == "std::vec::Vec<std::string::String>")
        ctx.check(split, "K5.split", "segments come from the escape-aware splitter (%s)" % cfg, "the fold iterates %s" % show_expr(it)[:100], where=w.where(), fn=w.key)
        split_transducer(ctx, facts, w, it, cfg)
        seed = strip_refs(fold[2][1])
        ctx.check(seed[0] == "agg" and seed[1].get("variant") == "Some", "K5.seed", "the walk starts at the entire data (%s)" % cfg, "fold seed %s" % show_expr(seed)[:80], where=w.where(), fn=w.key)
        clos = strip_refs(fold[2][2])
        if clos[0] == "agg" and clos[1].get("agg") == "Closure":
            step_table(ctx, facts, facts.body(clos[1]["closure"]), ("arg", 2), ("arg", 3), helpers, cfg)
        else:
            ctx.unread("K5.step", "path step (%s)" % cfg, "the fold's step is %s, not a closure the rule can read" % show_expr(clos)[:80], where=w.where(), fn=w.key)


MAP_GET = re.compile(r"^serde_json::Map::<.*>::get$")


VALUE_INDEX = re.compile(r"Index<.*> for serde_json::Value>::index$|^<serde_json::Value as std::ops::Index<.*>>::index$|^serde_json::Value::(pointer|pointer_mut)$")


class StepJudge:
    """K5 — one step of the walk as a table.  Every case either yields nothing, or yields what exactly one access found:
        Map::get(object payload of the current value, the segment)
        index helper(array payload of the current value,                  the segment parsed as i64)
        index helper(chars() of the string payload of the current value,  the segment parsed as i64)
        index helper(a sequence built from a character the walk stands on, the segment parsed as i64)
    and all of the first three occur.  The kind of the current value is carried by the payload projection itself."""

    def __init__(self, facts, is_cur, is_seg, helpers):
        self.facts, self.is_cur, self.is_seg = facts, is_cur, is_seg
        self.hidx = {h.key: facts.items[h.key]["inputs"].index("i64") for h in helpers}
        self.bad, self.unread, self.classes, self.n = [], [], {}, 0

    def is_access(self, y):
        return y[0] == "call" and y[1] is not None and (MAP_GET.search(y[1]["path"]) is not None or y[1].get("key") in self.hidx)

    def from_cur(self, e, variant):
        hit = []
        expr_mentions(e, lambda y: hit.append(y) or False if (y[0] == "downcast" and y[2] == variant) else False)
        return bool(hit) and all(expr_mentions(h[1], self.is_cur) for h in hit)

    def plain_seg(self, e):
        """e is the segment itself (through references / as_str / clone), nothing computed from it."""
        found = []

        def walk(x, d=0):
            if not isinstance(x, tuple) or d > 60:
                return True
            if self.is_seg(x):
                found.append(x)
                return True
            if x[0] == "call" and (x[1] is None or not STR_PASS.search(x[1]["path"])):
                return False
            for y in x[1:]:
                if isinstance(y, tuple) and not walk(y, d + 1):
                    return False
                if isinstance(y, list) and not all(walk(z, d + 1) for z in y if isinstance(z, tuple)):
                    return False
            return True
        return walk(e) and bool(found)

    def seg_parsed(self, e):
        x = _num_peel(e)
        while x[0] == "call" and x[1] and re.search(r"Result::<.*>::(ok|unwrap_or\w*)$", x[1]["path"]):
            x = _num_peel(x[2][0])
        return x[0] == "call" and x[1] is not None and x[1]["path"] == "core::str::<impl str>::parse" and "i64" in (x[1].get("full") or "") and self.plain_seg(x[2][0])

    def case(self, v, depth=0):
        self.n += 1
        v = strip_refs(v)
        if (v[0] == "call" and v[1] and "from_residual" in v[1]["path"]) or (v[0] == "agg" and v[1].get("variant") == "None"):
            return
        vi = []
        expr_mentions(v, lambda y: vi.append(y) or False if (y[0] == "call" and y[1] is not None and VALUE_INDEX.search(y[1]["path"])) else False)
        if vi:
            self.bad.append("a step reads the current value with %s, which answers null for a key that is not there: an absent step and a present null cannot be told apart" % vi[0][1]["path"])
            return
        acc = {}
        expr_mentions(v, lambda y: acc.setdefault(pathsum_canon(y), y) and False if self.is_access(y) else False)
        if not acc:
            if _mentions_outside(v, lambda y: y[0] == "call" and y[1] is not None and y[1].get("local") and not _is_ctor(y[1]), self.is_seg):
                sub = read_through_calls(self.facts, {}, v, skip=tuple(self.hidx)) if depth == 0 else []
                if len(sub) > 1 or (sub and sub[0][1] is not v):
                    self.n -= 1
                    for _, v2 in sub:
                        self.case(v2, 1)
                else:
                    self.unread.append("a step yields %s" % show_expr(v)[:90])
            else:
                self.bad.append("a step yields %s without looking anything up in the current value" % show_expr(v)[:80])
            return
        if len(acc) > 1:
            self.unread.append("a step combines %d accesses: %s" % (len(acc), show_expr(v)[:80]))
            return
        a = list(acc.values())[0]
        cl = self.classes
        if MAP_GET.search(a[1]["path"]):
            if not self.from_cur(a[2][0], "Object"):
                self.bad.append("Map::get is applied to %s, not to the object the walk stands on" % show_expr(strip_refs(a[2][0]))[:60])
            elif not self.plain_seg(a[2][1]):
                self.bad.append("the object is asked for %s, not for the segment as it is" % show_expr(strip_refs(a[2][1]))[:60])
            else:
                cl["object: Map::get(segment)"] = cl.get("object: Map::get(segment)", 0) + 1
            return
        idxp = self.hidx[a[1]["key"]]
        seq, idx = a[2][1 - idxp], a[2][idxp]
        if not self.seg_parsed(idx):
            self.bad.append("the index helper is asked for %s, not for the segment parsed as an integer" % show_expr(strip_refs(idx))[:70])
            return
        has_str = expr_mentions(seq, lambda y: y[0] == "downcast" and y[2] == "String")
        has_arr = expr_mentions(seq, lambda y: y[0] == "downcast" and y[2] == "Array")
        if has_arr and not has_str:
            if self.from_cur(seq, "Array"):
                cl["array: index helper(parse i64)"] = cl.get("array: index helper(parse i64)", 0) + 1
            else:
                self.bad.append("the index helper reads %s, not the array the walk stands on" % show_expr(strip_refs(seq))[:60])
        elif has_str and not has_arr:
            chars = expr_mentions(seq, lambda y: y[0] == "call" and y[1] is not None and y[1]["path"] == "core::str::<impl str>::chars" and expr_mentions(y, lambda z: z[0] == "downcast" and z[2] == "String"))
            if not self.from_cur(seq, "String"):
                self.bad.append("the index helper reads %s, not the string the walk stands on" % show_expr(strip_refs(seq))[:60])
            elif chars:
                cl["string: index helper(chars, parse i64)"] = cl.get("string: index helper(chars, parse i64)", 0) + 1
            else:
                self.unread.append("a string is indexed as %s" % show_expr(strip_refs(seq))[:70])     # K2.string-by-chars judges the site
        elif not has_str and not has_arr and expr_mentions(seq, self.is_cur):
            cl["character: index helper(parse i64)"] = cl.get("character: index helper(parse i64)", 0) + 1
        else:
            self.unread.append("the index helper reads %s" % show_expr(strip_refs(seq))[:70])

    def finish(self, ctx, sb, cfg):
        key = "path step (%s)" % cfg
        want = ["object: Map::get(segment)", "array: index helper(parse i64)", "string: index helper(chars, parse i64)"]
        if self.bad:
            for m in sorted(set(self.bad))[:4]:
                ctx.fail("K5.step", "path step|%s" % re.sub(r"[0-9]+", "", m)[:60], m, where=sb.where(), fn=sb.key)
        elif self.unread:
            ctx.unread("K5.step", key, "; ".join(self.unread[:2]), where=sb.where(), fn=sb.key)
        else:
            miss = [x for x in want if x not in self.classes]
            ctx.check(not miss, "K5.step", "every step of the walk is one access to the current value with the segment, or nothing (%s)" % cfg, "the step has no case for %s" % miss, where=sb.where(), fn=sb.key, nontrivial=True,
                      sample={"cases": self.n, "accesses": self.classes})


def step_table(ctx, facts, sb, CUR, SEG, helpers, cfg):
    """K5.step on a step *function* (the fold's closure, a helper called per segment): its composed decision cases."""
    cases = composed_cases(facts, sb)
    if cases is None:
        ctx.unread("K5.step", "path step (%s)" % cfg, "the step has loops or too many paths to summarise", where=sb.where(), fn=sb.key)
        return
    j = StepJudge(facts, lambda z: z == CUR, lambda z: z == SEG, helpers)
    for conds, v in cases:
        j.case(v)
    j.finish(ctx, sb, cfg)


def _mentions_outside(e, pred, stop):
    """pred holds for a sub-expression of e that does not lie inside a sub-expression satisfying stop."""
    if not isinstance(e, tuple) or stop(e):
        return False
    if pred(e):
        return True
    for x in e[1:]:
        if isinstance(x, tuple) and _mentions_outside(x, pred, stop):
            return True
        if isinstance(x, list) and any(isinstance(y, tuple) and _mentions_outside(y, pred, stop) for y in x):
            return True
    return False


def pathsum_canon(e):
    from . import pathsum
    return pathsum.canon(e)


def walker_loop_step(ctx, facts, roles, w, helpers, cfg):
    """The walk as a loop over the splitter's segments with a carried value of whatever type (an owned Value, a
    reference into the data, a cursor): `for seg in split(key) { cur = …cur…seg…; }`.  Read off the path summaries of
    one iteration: where the iteration comes round, the new carried value is a step case; where it leaves the
    function, it must answer 'absent'.  True when read and judged."""
    from . import panic as PN
    from . import pathsum, optnorm
    items = facts.items
    loops = PN.loops_of(w)
    if len(loops) != 1:
        return False
    h, bl, srcs = loops[0]
    nbi = [bi for bi in sorted(bl) if w.blocks[bi]["term"]["k"] == "Call" and (callee_path(w.blocks[bi]["term"]) or "").endswith("::next")]
    if len(nbi) != 1:
        return False
    it = w.trace(w.blocks[nbi[0]]["term"]["args"][0])
    if not expr_mentions(it, lambda x: x[0] == "call" and x[1] and x[1]["local"] and items.get(x[1]["key"], {}).get("output") == "std::vec::Vec<std::string::String>"):
        return False
    DATA = None
    for i, t in enumerate(items.get(w.key, {}).get("inputs", [])):
        if t == "&serde_json::Value":
            DATA = ("arg", i + 1)
    if DATA is None:
        return False
    carried = []
    for l, ds in w.defs().items():
        if w.is_arg(l):
            continue
        inside = [d for d in ds if d[1] in bl and not d[-1]]
        outside = [d for d in ds if d[1] not in bl and not d[-1]]
        if inside and len(outside) == 1 and w.dominates(outside[0][1], h):
            seed = strip_refs(w._trace_def(outside[0], 0, frozenset()))
            if expr_mentions(seed, lambda y: y == DATA):
                carried.append((l, seed, inside))
    if len(carried) != 1:
        return False
    cur, seed, inside = carried[0]
    hks = {hb.key for hb in helpers}
    seed_ok = not expr_mentions(seed, lambda y: y[0] == "call" and y[1] is not None and y[1]["path"] != CLONE and not _is_ctor(y[1]))
    ctx.check(seed_ok, "K5.seed", "the walk starts at the entire data (%s)" % cfg, "the walk's current value starts as %s" % show_expr(seed)[:80], where=w.where(), fn=w.key)
    # the Some edge of next(): one iteration starts there
    some_t, none_edges = None, set()
    for sb_ in bl:
        tt = w.blocks[sb_]["term"]
        if tt["k"] == "SwitchInt":
            e = w.trace(tt["discr"])
            if e[0] == "discr" and strip_refs(e[1])[0] == "call" and strip_refs(e[1])[3] == nbi[0]:
                r_ = switch_edges_for_variant(w, sb_, "None")
                if r_:
                    none_edges.add((sb_, r_[0]))
                r2 = switch_edges_for_variant(w, sb_, "Some")
                if r2:
                    some_t = r2[0]
    if some_t is None:
        return False
    CUR = ("cur",)
    is_seg = lambda z: z[0] == "call" and z[1] is not None and len(z) > 3 and z[3] == nbi[0] and z[1]["path"].endswith("::next")
    pw = pathsum.Walker(w, start=some_t, env={cur: CUR}, max_paths=2000)
    if pw.overflow:
        ctx.unread("K5.step", "path step (%s)" % cfg, "one iteration of the walk has too many paths to summarise", where=w.where(), fn=w.key)
        return True
    absent = lambda rr: rr is not None and ((rr[0] == "agg" and rr[1].get("variant") == "None") or (rr[0] == "call" and rr[1] is not None and "from_residual" in rr[1].get("path", "")))
    early, steps, stepfn = [], [], None
    for p_ in pw.paths:
        if h in p_.blocks:
            steps.append(p_.env.get(cur, CUR))
        elif p_.result is not None:
            for c2, rv in (optnorm.cases_expr(facts, p_.result) or [((), p_.result)]):
                if not absent(strip_refs(rv)):
                    early.append(show_expr(strip_refs(rv))[:70])
    ctx.check(not early, "K5.early-exit", "the walk is left before the segments are exhausted only with 'absent' (%s)" % cfg, "the loop over the segments is left early with %s: the segments that remain are never resolved" % sorted(set(early))[:2], where=w.where(), fn=w.key, nontrivial=True)
    # what the walker answers
    r = strip_refs(w.trace(0))
    cands = [strip_refs(x) for x in r[2]] if r[0] == "phi" else [r]
    kinds, badk = set(), []
    for c in cands:
        if absent(c):
            kinds.add("None")
        elif c[0] == "agg" and c[1].get("variant") == "Some":
            v = strip_refs(c[2][0])
            if v[0] == "call" and v[1] and v[1]["path"] == CLONE and strip_refs(v[2][0]) == DATA:
                kinds.add("Some(data)")
            elif expr_mentions(v, lambda y: y[0] == "phi" and y[1] == cur) and not _mentions_outside(v, lambda y: y[0] == "call" and y[1] is not None and (MAP_GET.search(y[1]["path"]) is not None or y[1].get("key") in hks), lambda y: y[0] == "phi" and y[1] == cur):
                kinds.add("Some(current)")
                # a conversion of the final value: read it, every case must hand on (part of) what the walk ended on
                if v[0] == "call" and v[1].get("local") and not _is_ctor(v[1]):
                    fb = facts.body(v[1]["key"])
                    cc = composed_cases(facts, fb) if fb is not None else None
                    if cc is None:
                        ctx.unread("K5.walk-is-the-result", "final conversion (%s)" % cfg, "the walk's final value goes through %s, which the rule cannot summarise" % v[1]["key"], where=w.where(), fn=w.key)
                    else:
                        for _, fv in cc:
                            if not expr_mentions(fv, lambda y: y[0] == "arg"):
                                badk.append("%s turns the walk's final value into %s" % (v[1]["key"].split("::", 1)[1], show_expr(fv)[:50]))
            elif early and any(show_expr(v)[:40] in e_ for e_ in early):
                pass        # an early exit, reported above
            else:
                badk.append(show_expr(v)[:60])
        elif early:
            pass
        else:
            badk.append(show_expr(c)[:60])
    ctx.check(not badk and (kinds == {"None", "Some(data)", "Some(current)"} or (early and "Some(current)" in kinds)), "K5.walk-is-the-result", "the walker returns the entire data (empty key), None (scalar data / absent step) or the value the loop over the segments ends on (%s)" % cfg,
              "the walker's results are %s %s — a lookup that failed along the path must stay absent, nothing is looked up after the walk" % (sorted(kinds), badk[:2]), where=w.where(), fn=w.key, nontrivial=True)
    ctx.ok("K5.split", "segments come from the escape-aware splitter (%s)" % cfg)
    split_transducer(ctx, facts, w, it, cfg)
    # the step: a function of (current, segment) called per iteration, or the iteration's own code
    if len(inside) == 1:
        ex = strip_refs(w._trace_def(inside[0], 0, frozenset([cur])))
        src = payload_source(ex)
        if src is not ex and src[0] == "call" and src[1] and src[1].get("local") and not _is_ctor(src[1]) and src[1]["key"] not in hks and len(src[2]) == 2:
            curp = [i for i, a in enumerate(src[2]) if expr_mentions(a, lambda y: y == ("cycle", cur) or (y[0] == "phi" and y[1] == cur))]
            segp = [i for i, a in enumerate(src[2]) if expr_mentions(a, is_seg)]
            if len(curp) == 1 and len(segp) == 1 and curp != segp and facts.body(src[1]["key"]) is not None:
                step_table(ctx, facts, facts.body(src[1]["key"]), ("arg", curp[0] + 1), ("arg", segp[0] + 1), helpers, cfg)
                return True
    j = StepJudge(facts, lambda z: z == CUR, is_seg, helpers)
    for sv in steps:
        sv = optnorm.normalise(strip_refs(sv))
        # `cur = next?` / `if let Some(v) = next { cur = v }`: the new value is the payload of an Option-valued
        # expression; its cases (combinators and their closures expanded) are the step's cases
        src = sv[2] if sv[0] == "payload" else sv
        for c2, v2 in (optnorm.cases_expr(facts, src) or [((), src)]):
            j.case(optnorm.normalise(strip_refs(v2)))
    j.finish(ctx, w, cfg)
    return True


STR_PASS = re.compile(r"(::as_str|::as_ref|::borrow|::deref|::as_mut_str|::to_owned|::to_string|::clone|::into|::from|::collect|::into_iter|::iter|::as_slice|::to_vec|::into_boxed_slice|::by_ref|::rev|::copied|::cloned)$")


def index_site(ctx, s, seqp, cfg):
    """K2 at one call of the index helper — a provenance fact about the sequence handed over: text of the data (the
    String payload of a Value) reaches the helper only as its `chars()`; an array as its own payload; a sequence built
    from characters alone indexes no string at all."""
    sl = strip_refs(s.body.xtrace(s.term["args"][seqp - 1]))
    raw, bytes_, via_chars, arrays = [], [], [], []

    def scan(e, under, d=0):
        if not isinstance(e, tuple) or d > 60:
            return
        if e[0] == "call" and e[1]:
            p = e[1]["path"]
            if p == "core::str::<impl str>::chars":
                for a in e[2]:
                    scan(a, "chars", d + 1)
                return
            if BYTE_OPS.search(p):
                bytes_.append(p)
                return
            if under is None and not STR_PASS.search(p) and not e[1].get("local"):
                for a in e[2]:
                    scan(a, "opaque:" + p, d + 1)
                return
            for a in e[2]:
                scan(a, under, d + 1)
            return
        if e[0] == "downcast" and e[2] == "String":
            (via_chars if under == "chars" else raw).append(under)
            return
        if e[0] == "downcast" and e[2] == "Array":
            arrays.append(e)
            return
        for x in e[1:]:
            if isinstance(x, tuple):
                scan(x, under, d + 1)
            elif isinstance(x, list):
                for y in x:
                    scan(y, under, d + 1)
    scan(sl, None)
    ty = (callee_of(s.term).get("full") or "")
    key = "(%s, %s)" % (s.where(), cfg)
    if bytes_:
        ctx.fail("K2.string-by-chars", "index site|bytes", "the sequence handed to the index helper is made with the byte-based %s: strings must be indexed by Unicode character" % bytes_[0], where=s.where(), fn=s.body.key)
    elif via_chars and not raw:
        ctx.ok("K2.string-by-chars", "string indexed through its chars() " + key, nontrivial=True)
    elif raw:
        ctx.unread("K2.string-by-chars", "index site " + key, "the string reaches the index helper as %s (not through chars(), not through a byte operation the rule knows)" % show_expr(sl)[:120], where=s.where(), fn=s.body.key)
    elif arrays:
        ctx.ok("K2.array-payload", "array indexed on its own payload " + key, nontrivial=True)
    elif "char" in ty and not expr_mentions(sl, lambda x: x[0] == "call" and x[1] and not STR_PASS.search(x[1]["path"])):
        ctx.ok("K2.string-by-chars", "a sequence built from characters is indexed, no string " + key, nontrivial=True)
    else:
        ctx.unread("K2.array-payload", "index site " + key, "the sequence handed to the index helper is %s — neither the characters of a string nor an array's payload" % show_expr(sl)[:120], where=s.where(), fn=s.body.key)


ABS = re.compile(r"<impl i64>::(unsigned_abs|abs|wrapping_abs)$")
NUM_PASS = re.compile(r"TryInto<.*>>::try_into$|TryFrom<.*>>::try_from$|Into<.*>>::into$|From<.*>>::from$|::unwrap$|::expect$|::unwrap_or_default$|::unwrap_or$|::unwrap_or_else$")
SEQ_LEN = re.compile(r"^core::slice::<impl \[T\]>::len$|^std::vec::Vec::<T, A>::len$|ExactSizeIterator(>)?::len$|^std::iter::Iterator::count$")
SLICE_GET = re.compile(r"^core::slice::<impl \[T\]>::get$|^std::vec::Vec::<T, A>::get$|Index<I>>::index$|Index<I> for \[T\]>::index$")


def _num_peel(e):
    x = strip_refs(e)
    for _ in range(16):
        y = payload_source(x)
        if y is not x and y != x:
            x = y
            continue
        if x[0] == "cast":
            x = strip_refs(x[2])
        elif x[0] == "call" and x[1] and NUM_PASS.search(x[1]["path"]) and x[2]:
            x = strip_refs(x[2][0])
        else:
            break
    return x


def helper_table(ctx, facts, helper, seqp, idxp, cfg):
    """K2 — the index helper as a decision table (rules/optnorm.py), whatever its spelling and its sequence type:
           idx >= 0  →  the element |idx| from the front           (get(|idx|), nth(|idx|))
           idx <  0  →  the element |idx| from the back, 1-based   (get(len − |idx|) with a checked subtraction,
                                                                    nth_back(|idx| − 1), rev().nth(|idx| − 1))
       or nothing.  A clamped subtraction, a length taken of something else, a sign test on another constant are read
       and wrong; arithmetic the reader does not know is not read."""
    from . import optnorm
    SEQ, IDX = ("arg", seqp), ("arg", idxp)
    hc = optnorm.decision_cases(facts, helper)
    hkey = "index helper (%s)" % cfg
    if hc is None:
        ctx.unread("K2.helper-branches", hkey, "the index helper has loops or too many paths to summarise", where=helper.where(), fn=helper.key)
        return
    bad, forms, unread = [], set(), []
    A = "(arg %d)" % idxp

    def is_abs(e):
        x = _num_peel(e)
        return x[0] == "call" and x[1] is not None and ABS.search(x[1]["path"]) is not None and strip_refs(x[2][0]) == IDX

    def is_len(e):
        x = _num_peel(e)
        return x[0] == "call" and x[1] is not None and SEQ_LEN.search(x[1]["path"]) is not None and _num_peel(x[2][0]) == SEQ

    def minus(e):
        """(kind, a, b) when e is a − b: kind = checked | clamped | plain."""
        x = strip_refs(e)
        if x[0] == "payload":
            x = payload_source(x)
        if x[0] == "field" and x[2] == 0 and x[1][0] == "binop" and str(x[1][1]).startswith("Sub"):
            return ("plain", x[1][2], x[1][3])
        if x[0] == "binop" and str(x[1]).startswith("Sub"):
            return ("plain", x[2], x[3])
        if x[0] == "call" and x[1]:
            m = re.search(r"<impl (usize|u64|i64|isize)>::(checked_sub|saturating_sub|wrapping_sub)$", x[1]["path"])
            if m:
                return ("checked" if m.group(2) == "checked_sub" else "clamped", x[2][0], x[2][1])
        return None

    def position(v):
        """front | back | a complaint (str) | None (not read)."""
        x = strip_refs(v)
        if x[0] == "agg" and x[1].get("variant") == "Some" and x[2]:
            x = strip_refs(x[2][0])
        if x[0] == "payload" or (x[0] == "field" and x[1][0] == "downcast"):
            x = payload_source(x)
        while x[0] == "call" and x[1] and re.search(r"Option::<.*>::(copied|cloned|as_ref)$", x[1]["path"]):
            x = strip_refs(x[2][0])
        if x[0] != "call" or not x[1]:
            return None
        p = x[1]["path"]
        recv = strip_refs(x[2][0]) if x[2] else None
        if SLICE_GET.search(p) and len(x[2]) == 2:
            if _num_peel(recv) != SEQ:
                return "reads %s, not the sequence it was given" % show_expr(recv)[:50]
            e = x[2][1]
            if is_abs(e):
                return "front"
            m = minus(e)
            if m is None:
                return None
            kind, a, b_ = m
            if kind == "clamped" and is_len(a) and expr_mentions(b_, lambda y: y == IDX):
                return "a negative index reaching before the first element is clamped (%s) instead of being absent" % show_expr(strip_refs(e))[:60]
            if not is_abs(b_):
                return None
            if not is_len(a):
                la = _num_peel(a)
                if la[0] == "call" and la[1] and re.search(r"::(len|count)$", la[1]["path"]):
                    return "counts from the end with %s, which is not the length of the sequence it reads" % show_expr(la)[:70]
                return None
            if kind == "clamped":
                return "a negative index reaching before the first element is clamped (%s) instead of being absent" % show_expr(strip_refs(e))[:60]
            if kind == "plain":
                return None
            return "back"
        m2 = re.search(r"(Iterator(>)?::)(nth|nth_back)$", p)
        if m2 and len(x[2]) == 2:
            if not expr_mentions(recv, lambda y: y == SEQ):
                return "reads %s, not the sequence it was given" % show_expr(recv)[:50]
            rev = expr_mentions(recv, lambda y: y[0] == "call" and y[1] is not None and y[1]["path"].endswith("::rev")) != (m2.group(3) == "nth_back")
            if expr_mentions(recv, lambda y: y[0] == "call" and y[1] is not None and not re.search(r"::(rev|by_ref|into_iter|iter|copied|cloned)$", y[1]["path"])):
                return None
            e = x[2][1]
            if not rev:
                return "front" if is_abs(e) else None
            m = minus(e)
            if m and m[0] == "plain" and is_abs(m[1]) and strip_refs(m[2])[0] == "const" and const_value(strip_refs(m[2])[1]) == 1:
                return "back"
            if is_abs(e):
                return "from the back it reads at |idx| (0-based): index -1 would be the last but one"
            return None
        return None
    def judge(conds, v, depth=0):
        sign = None
        for k, val in conds.items():
            if k[0] == "cmp" and k[1] == "Lt" and k[2] == A and k[3] == "c:0":
                sign = "neg" if val else "nonneg"
            elif k[0] == "cmp" and k[1] == "Lt" and k[2] == "c:-1" and k[3] == A:
                sign = "nonneg" if val else "neg"         # -1 < idx
            elif k[0] == "cmp" and A in (k[2], k[3]):
                sign = "wrong:%s %s %s is %s" % (k[2], k[1], k[3], val)
            elif k[0] == "pure" and "is_negative" in k[1] and A in k[1]:
                sign = "neg" if val else "nonneg"
            elif k[0] == "pure" and "is_positive" in k[1] and A in k[1]:
                sign = "wrong:is_positive"
        v = strip_refs(v)
        if (v[0] == "call" and v[1] and "from_residual" in v[1]["path"]) or (v[0] == "agg" and v[1].get("variant") == "None"):
            return
        pos = position(v)
        if pos is None and depth == 0:
            sub = read_through_calls(facts, conds, v)
            if len(sub) > 1 or (sub and sub[0][1] is not v):
                for c2, v2 in sub:
                    judge(c2, v2, 1)
                return
        if pos is None:
            unread.append("under %s the helper answers %s" % (sign, show_expr(v)[:90]))
        elif pos not in ("front", "back"):
            bad.append("under %s: %s" % (sign, pos))
        elif sign is not None and sign.startswith("wrong"):
            bad.append("the sign of the index is tested as %s" % sign[6:])
        elif sign is None:
            bad.append("reads from the %s whatever the sign of the index" % pos)
        elif (sign, pos) in (("nonneg", "front"), ("neg", "back")):
            forms.add(sign)
        else:
            bad.append("under %s the sequence is read from the %s" % (sign, pos))
    for conds, v, pth in hc:
        judge(conds, v)
    if bad:
        ctx.fail("K2.helper-branches", hkey, "; ".join(bad[:3]), where=helper.where(), fn=helper.key)
    elif unread:
        ctx.unread("K2.helper-branches", hkey, "; ".join(unread[:2]), where=helper.where(), fn=helper.key)
    else:
        ctx.check(forms == {"nonneg", "neg"}, "K2.helper-branches", "idx >= 0 reads |idx| from the front, idx < 0 reads |idx| from the back — on every case of the helper (%s)" % cfg,
                  "the helper has no case for %s indexes" % sorted({"nonneg", "neg"} - forms), where=helper.where(), fn=helper.key, nontrivial=True, sample={"cases": len(hc), "forms": sorted(forms)})


def _abs_operand(body, e):
    """Index of the operand e denotes, through split_first / skip / slicing (rules/operands.py)."""
    from . import operands as OD
    ap = None
    for l in range(1, body.arg_count + 1):
        if "std::vec::Vec<&" in body.local_ty(l):
            ap = l
    if ap is None:
        return None
    e = strip_refs(e)
    while e[0] == "payload":
        src = strip_refs(e[2])
        e = ("field", ("downcast", src, "Some"), 0)
    return OD.absolute_index(OD.describe(body, e, ap))


def operand_index(o):
    """Index n when expression o is the n-th element of an operand vector: v[n], v.get(n)?, v.first()? — else None."""
    o = strip_payload(strip_refs(o))
    while o[0] == "payload":          # normalised `(x as Some).0` (rules/optnorm.py)
        o = strip_payload(strip_refs(o[2]))
    if o[0] != "call" or not o[1]:
        return None
    p = o[1]["path"]
    if p.endswith("Index<I>>::index") or re.search(r"^core::slice::<impl \[T\]>::get$|^std::vec::Vec::<T, A>::get$", p):
        i = strip_refs(o[2][1])
        return const_value(i[1]) if i[0] == "const" else None
    if re.search(r"^core::slice::<impl \[T\]>::first$", p):
        return 0
    return None


def split_transducer(ctx, facts, w, it, cfg):
    """K6 — the splitter is the escape transducer the property states (rules/splitter.py)."""
    from .splitter import Transducer, expected
    items = facts.items
    found = []
    expr_mentions(it, lambda x: found.append(x) or False if (x[0] == "call" and x[1] and x[1]["local"] and items.get(x[1]["key"], {}).get("output") == "std::vec::Vec<std::string::String>") else False)
    if not found:
        return
    call = found[0]
    sb = facts.body(call[1]["key"])
    ins = items[sb.key].get("inputs", [])
    chars = [i + 1 for i, t in enumerate(ins) if t == "char"]
    strs = [i + 1 for i, t in enumerate(ins) if t == "&str"]
    ctx.need(len(chars) == 1 and len(strs) == 1, "splitter signature (&str, char) → Vec<String> not recognised: %s" % ins)
    darg = chars[0]
    # the walker splits at '.'
    d = strip_refs(call[2][darg - 1])
    ctx.check(d[0] == "const" and const_value(d[1]) == ".", "K6.delimiter", "the path is split at '.' (%s)" % cfg, "the walker splits at %s" % show_expr(d), where=w.where(), fn=w.key, nontrivial=True)
    src = strip_refs(call[2][strs[0] - 1])
    ctx.check(expr_mentions(src, lambda x: x == ("arg", 2)) and not expr_mentions(src, lambda x: x[0] == "call" and x[1] and not re.search(r"as_ref$|as_str$|deref$|borrow$", x[1]["path"])), "K6.whole-key", "the whole key text is split (%s)" % cfg, "the walker splits %s" % show_expr(src)[:80], where=w.where(), fn=w.key)
    from .engine import Inconclusive as _Inc
    try:
        tr = Transducer(sb)
    except _Inc as e_:
        # a splitter that is not a one-flag loop over the characters: nothing is claimed about it
        ctx.unread("K6.transducer", "splitter (%s)" % cfg, "the splitter is written in a form the transducer reader does not read (%s)" % e_, where=sb.where(), fn=sb.key)
        return
    ie = tr.iter_expr
    plain = not expr_mentions(ie, lambda x: x[0] == "call" and x[1] and not re.search(r"(::chars|IntoIterator>::into_iter|::by_ref)$", x[1]["path"]))
    ctx.check(tr.next_path.startswith("<std::str::Chars") and plain and expr_mentions(ie, lambda x: x == ("arg", strs[0])), "K6.by-character", "the splitter walks the characters of its input in order (%s)" % cfg,
              "the splitter iterates %s via %s" % (show_expr(ie)[:100], tr.next_path), where=sb.where(), fn=sb.key, nontrivial=True)
    ctx.check(tr.flag_init == {False}, "K6.initial-state", "the escape flag starts cleared (%s)" % cfg, "the escape flag is initialised with %s" % sorted(map(str, tr.flag_init)), where=sb.where(), fn=sb.key, nontrivial=True)
    classes = {}
    for decisions, effects, flagw in tr.paths:
        c = tr.classify(decisions, darg)
        if c == "infeasible":
            continue
        flag, bs, dl, opaque = c
        want = expected(flag, bs, dl)
        label = {(True,): "escaped character"}.get((flag,)) if flag else ("backslash" if bs else ("delimiter" if dl else "ordinary character")) if want else "undecided(flag=%s, backslash=%s, delimiter=%s)" % (flag, bs, dl)
        pushes = [e[1] for e in effects if e[0] == "push"]
        emits = [e for e in effects if e[0] == "emit"]
        clears = [e for e in effects if e[0] == "clear"]
        others = [e for e in effects if e[0] in ("call", "shrink", "leaves")]
        final = flagw[-1] if flagw else flag
        got = (pushes, len(emits), final)
        key = label
        if want is None:
            ctx.fail("K6.transducer", "%s|path with undecided class" % sb.key.split("::", 1)[1], "an iteration path of the splitter does not determine (escape flag, backslash?, delimiter?): %s with effects %s" % (label, effects), where=sb.where(), fn=sb.key)
            continue
        ok = got == want and not others and not opaque
        if want[1] == 1:
            ok = ok and len(clears) == 1 and emits[0][1] is not None and emits[0][1][0] in ("clone", "taken") and emits[0][1][1] == clears[0][-1]
        else:
            ok = ok and not clears
        classes.setdefault(key, []).append(ok)
        if not ok:
            ctx.fail("K6.transducer", "%s|%s" % (sb.key.split("::", 1)[1], key),
                     "splitter, %s: pushes %s, emits %d segment(s), clears %d, leaves the flag %s%s%s; the property demands pushes %s, %d emitted, flag %s" % (key, pushes, len(emits), len(clears), final,
                     (", under extra conditions %s" % opaque) if opaque else "", (", also %s" % others) if others else "", want[0], want[1], want[2]), where=sb.where(), fn=sb.key)
    for key in ("escaped character", "backslash", "delimiter", "ordinary character"):
        if key not in classes:
            ctx.fail("K6.transducer", "%s|%s missing" % (sb.key.split("::", 1)[1], key), "the splitter has no iteration path for the case: %s" % key, where=sb.where(), fn=sb.key)
        elif all(classes[key]):
            ctx.ok("K6.transducer", "splitter, %s: %d path(s) as the property states (%s)" % (key, len(classes[key]), cfg), nontrivial=True)
    ctx.count("splitter iteration paths (%s)" % cfg, len(tr.paths))
    ctx.floor("splitter iteration paths (%s)" % cfg, len(tr.paths), 4)
    ctx.check(any(e[1] is not None and e[1][0] == "moved" or (e[1] is not None and e[1][0] in ("clone", "taken")) for e in tr.tail_emits), "K6.last-segment", "the pending segment is emitted after the loop (%s)" % cfg, "no emission of the pending segment after the loop", where=sb.where(), fn=sb.key)
