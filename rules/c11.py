#!/usr/bin/env python3
"""C11 — var resolves paths through objects, arrays and strings; absent means default.

Structural clauses (necessary conditions; the path arithmetic itself is value-level):
  K1  key typing: both KeyType conversions (from Value and from &Value) have the
      same matrix — Null → Null key, String → String key carrying the payload,
      Number → integer key through as_i64 or Err, Bool/Array/Object → Err;
  K2  one negative-index helper: every positional access into data arrays and
      strings inside the lookup goes through the one helper (slice, i64) → Option;
      strings are turned into Vec<char> by chars().collect() before it (never
      bytes / byte length / byte offsets anywhere in the lookup's reach); the
      helper takes the length of the very slice it indexes, subtracts with
      checked_sub on the negative branch and reads with slice::get;
  K3  absent is None, present is Some — even for null: var selects the default
      only through unwrap_or / unwrap_or_else / the None edge of the lookup
      result and never inspects the found value; the default is null or a clone
      of operand 1 (guarded by the operand count); the operand-less form, the null
      key and the empty string return a clone of the entire data;
  K4  the default is used as a value, never re-interpreted (C04's S1 analysis);
  K5  frame: per path segment the lookup reads an object only by Map::get with
      that segment, an array/string only through the index helper with the
      segment parsed as i64; anything else is None; no iteration over the data's
      map entries; the dotted-path result is exactly the fold over the split
      segments (no fallback lookup afterwards), split by the escape-aware splitter;
  K6  the splitter is the transducer the property states (rules/splitter.py): a
      one-flag loop over str::chars of the whole key, split at '.', in which —
      on every path through one iteration — an escaped character is pushed as it
      is and nothing else (flag reset), an unescaped backslash pushes nothing and
      sets the flag, an unescaped delimiter emits and clears the segment, any
      other character is pushed as it is; the pending segment is emitted last.
"""
import re
from .core import (callee_of, callee_path, strip_refs, strip_payload, show_expr, const_value, expr_mentions, op_const, edge_dominates, bool_edge, switch_edges_for_variant)
from .engine import Inconclusive
from .roles import Roles
from .opfacts import Unit
from . import prov as P

VALUE = "serde_json::Value"
CLONE = "<serde_json::Value as std::clone::Clone>::clone"
BYTE_OPS = re.compile(r"^core::str::<impl str>::(len|as_bytes|bytes|char_indices|get|get_unchecked|split_at|is_char_boundary|find|rfind|byte\w*)$|^std::string::String::(len|as_bytes|into_bytes)$|^core::str::traits::<impl std::ops::Index<I> for str>::index$|^<std::string::String as std::ops::Index<I>>::index$")
DIRECT_INDEX = re.compile(r"^core::slice::<impl \[T\]>::(get|get_mut|first|last|split_at|get_unchecked)$|^<std::vec::Vec<T, A> as std::ops::Index<I>>::index$|^core::slice::index::<impl std::ops::Index<I> for \[T\]>::index$|^std::iter::Iterator::(nth|last|skip|rev)$|(Iterator>::)(nth|nth_back)$|^std::vec::Vec::<T, A>::(get|first|last)$")
MAP_ITER = re.compile(r"^serde_json::Map::<.*>::(iter|iter_mut|keys|values|values_mut|into_iter|entry|retain|remove|contains_key)$|serde_json::Map<.*> as std::iter::IntoIterator>::into_iter$")


def lookup_role(ctx, facts, roles):
    """The shared lookup, by role: the one local function var hands the data and the typed key to and whose
    Option<Value> answer it turns into its result.  Returns (body, data parameter, key parameter, key ADT)."""
    items = facts.items
    vb, _ = roles.fn_of("var")
    cands = {}
    for b in roles.unit(vb.key):
        for bi, t in b.calls():
            c = callee_of(t)
            if c and c.get("local") and items.get(c["key"], {}).get("output") == "std::option::Option<serde_json::Value>":
                cands.setdefault(c["key"], []).append((b, bi))
    if len(cands) != 1:
        raise Inconclusive("shared lookup (data, key) → Option<Value> called by var not identified (%d candidates)" % len(cands))
    lookup = facts.body(list(cands)[0])
    ins = items[lookup.key].get("inputs", [])
    dps = [i + 1 for i, t in enumerate(ins) if t == "&serde_json::Value"]
    kps = [i + 1 for i, t in enumerate(ins) if t != "&serde_json::Value" and lookup.locals[i + 1].get("adt") and facts.adts.get(lookup.locals[i + 1]["adt"], {}).get("variants")]
    if len(ins) != 2 or len(dps) != 1 or len(kps) != 1:
        raise Inconclusive("shared lookup %s: parameters (data, key) not recognised: %s" % (lookup.key, ins))
    return lookup, dps[0], kps[0], lookup.locals[kps[0]]["adt"]


def _is_ctor(c):
    return bool(c) and "{constructor#" in (c.get("key") or "")


def composed_cases(facts, body, known=None, env=None, depth=0, stack=()):
    """Decision cases of `body` (rules/optnorm.py) with the crate's own helper functions in result position read
    through: a case whose value is (a constructor around) a call of a local function is replaced by that function's
    cases, its parameters bound to the caller's argument expressions — so `known` and the atoms stay in the caller's
    terms.  A helper that cannot be summarised is left as the call it is.  Returns [(conds, value)] or None."""
    from . import optnorm
    cs = optnorm.decision_cases(facts, body, known=known, env=env)
    if cs is None:
        return None
    out = []

    def expand(v, d):
        x = strip_refs(v)
        if x[0] == "agg" and x[1].get("agg") == "Adt" and len(x[2]) == 1:
            sub = expand(x[2][0], d)
            if len(sub) == 1 and not sub[0][0]:
                return [({}, x if sub[0][1] is x[2][0] else ("agg", x[1], [sub[0][1]]))]
            return [(c2, ("agg", x[1], [v2])) for c2, v2 in sub]
        if x[0] == "call" and x[1] and x[1].get("local") and not _is_ctor(x[1]) and d < 4 and x[1]["key"] not in stack + (body.key,):
            cb = facts.body(x[1]["key"])
            if cb is not None and cb.kind == "fn" and cb.arg_count == len(x[2]):
                sub = composed_cases(facts, cb, known=known, env={i + 1: a for i, a in enumerate(x[2])}, depth=d + 1, stack=stack + (body.key,))
                if sub is not None:
                    return [(dict(c2), v2) for c2, v2 in sub]
        return [({}, x)]
    for conds, v, _p in cs:
        for c2, v2 in expand(v, depth):
            cc = dict(conds)
            clash = False
            for k, val in c2.items():
                if k in cc and cc[k] != val:
                    clash = True
                cc[k] = val
            if not clash:
                out.append((cc, v2))
    return out


def key_typing(ctx, facts, roles, key_adt, cfg, K="K1"):
    """K1 — which JSON kinds become which key kinds, read off the decision cases of every conversion Value → key
    (helpers of the conversions read through): a table kind → {outcome}, the integer key being the payload of as_i64
    of the number and the string key carrying the string's own text."""
    items = facts.items
    fam = [b for b in facts.fns() if b.kind == "fn" and items.get(b.key, {}).get("output", "").startswith("std::result::Result<%s" % key_adt) and items[b.key].get("inputs") in (["serde_json::Value"], ["&serde_json::Value"])]
    famk = {b.key for b in fam}
    cg, _ = facts.callgraph()
    callers = {}
    for k, cs in cg.items():
        root = k.split("::{closure#")[0]
        for c in cs:
            callers.setdefault(c, set()).add(root)
    # conversions proper: used from outside the family (or not at all); the others are their helpers
    top = [b for b in fam if not (callers.get(b.key, set()) - {b.key}) or (callers.get(b.key, set()) - famk)]
    ctx.floor("KeyType conversions (%s)" % cfg, len(top), 1)
    want = {"Null": {"OK(Null)"}, "String": {"OK(String)"}, "Number": {"OK(Number)", "ERR"}, "Bool": {"ERR"}, "Array": {"ERR"}, "Object": {"ERR"}}
    mats = []
    for cb in top:
        m = {}
        for v in facts.variants(VALUE):
            cases = composed_cases(facts, cb, known=lambda pe, adt, _v=v: _v if (adt == VALUE and strip_refs(pe) == ("arg", 1)) else None)
            key = "%s: %s key (%s)" % (cb.key.split("::", 1)[1], v, cfg)
            if cases is None:
                ctx.unread(K + ".key-typing", key, "the conversion has loops or too many paths to summarise", where=cb.where(), fn=cb.key)
                m[v] = None
                continue
            got = set()
            for conds, val in cases:
                got.add(_key_outcome(val, conds, key_adt))
            m[v] = got
            unk = {g for g in got if g.startswith("?")}
            if unk and (got - unk) <= want[v]:
                ctx.unread(K + ".key-typing", key, "a %s key is typed as %s — not a form the rule reads" % (v, sorted(got)), where=cb.where(), fn=cb.key)
                m[v] = None
            else:
                ctx.check(got == want[v], K + ".key-typing", key, "a %s key is typed as %s; expected %s" % (v, "+".join(sorted(got)), "+".join(sorted(want[v]))), where=cb.where(), fn=cb.key, nontrivial=True,
                          sample={"conversion": cb.key, "kind": v, "outcome": sorted(got)})
        mats.append((cb, m))
    if len(mats) >= 2 and all(x is not None for _, m in mats for x in m.values()):
        ctx.check(all(m == mats[0][1] for _, m in mats), K + ".key-siblings", "the KeyType conversions agree (%s)" % cfg, "the conversions from Value and &Value type keys differently", where=top[0].where(), nontrivial=True)


SAME_PAYLOAD = re.compile(r"^std::option::Option::<T>::(ok_or|ok_or_else|copied|cloned|as_ref|as_deref|or|or_else)$|^std::result::Result::<T, E>::(ok|map_err|as_ref|or_else)$|as std::ops::Try>::branch$")


def payload_source(e):
    """The Option/Result-valued expression whose Some/Ok payload `e` (a payload placeholder or a `(x as Some).0`
    projection) is, looking through the plumbing that hands a payload on unchanged (`ok_or_else`, `ok`, `?`, …)."""
    x = strip_refs(e)
    for _ in range(12):
        if x[0] == "payload":
            x = strip_refs(x[2])
        elif x[0] == "field" and x[2] == 0 and x[1][0] == "downcast" and x[1][2] in ("Some", "Ok", "Continue"):
            x = strip_refs(x[1][1])
        elif x[0] == "call" and x[1] and SAME_PAYLOAD.search(x[1]["path"]) and x[2]:
            x = strip_refs(x[2][0])
        else:
            break
    return x


def _key_outcome(val, conds, key_adt):
    v = strip_refs(val)
    if v[0] == "call" and v[1] and "from_residual" in v[1]["path"]:
        return "ERR"
    if v[0] == "agg" and v[1].get("variant") == "Err":
        return "ERR"
    if not (v[0] == "agg" and v[1].get("variant") == "Ok" and v[2]):
        return "?" + show_expr(v)[:60]
    k = strip_refs(v[2][0])
    if k[0] == "agg" and k[1].get("adt") == key_adt:
        var, ops = k[1].get("variant"), k[2]
    elif k[0] == "call" and _is_ctor(k[1]):
        var, ops = k[1]["path"].rsplit("::", 1)[1], k[2]
    else:
        return "?OK(%s)" % show_expr(k)[:60]
    if var == "String":
        own = ops and expr_mentions(ops[0], lambda x: x[0] == "downcast" and x[2] == "String" and strip_refs(x[1]) == ("arg", 1))
        return "OK(String)" if own else "OK(String of %s)" % (show_expr(ops[0])[:50] if ops else "nothing")
    if var == "Number":
        o = strip_refs(ops[0]) if ops else ("none",)
        src = payload_source(o) if o[0] == "payload" else None
        via = src is not None and src[0] == "call" and src[1] and src[1]["path"] == "serde_json::Number::as_i64" and expr_mentions(src[2][0], lambda x: x[0] == "downcast" and x[2] == "Number" and strip_refs(x[1]) == ("arg", 1))
        return "OK(Number)" if via else "OK(Number of %s)" % show_expr(o)[:50]
    return "OK(%s)" % var


def run(ctx):
    ctx.explanation = __doc__
    ctx.rule = "instances = 6 key-typing cases per conversion, index-helper call sites and decision cases, forbidden-call scans of the lookup's reach, default-selection cases, per-case step table of the path walk; non-trivial = decision cases / def-use"
    ctx.trusted = ["str::chars / Vec<char> indexing is by Unicode scalar value", "serde_json::Map::get is exact-key lookup"]
    cfgs = ["default"] if ctx.tier == "quick" else ["default", "python", "wasm"]
    for cfg in cfgs:
        facts = ctx.facts(cfg)
        roles = Roles(facts)
        lookup, DP, KP, key_adt = lookup_role(ctx, facts, roles)
        DATA = ("arg", DP)
        items = facts.items
        # ---------------- K1
        key_typing(ctx, facts, roles, key_adt, cfg, "K1")

        # ---------------- K2
        helpers = [b for b in facts.fns() if b.kind == "fn" and len(items.get(b.key, {}).get("inputs", [])) == 2 and items[b.key]["inputs"][1] == "i64" and items[b.key]["inputs"][0].startswith("&[") and items[b.key]["output"].startswith("std::option::Option<&")]
        ctx.check(len(helpers) == 1, "K2.one-helper", "one negative-index helper (slice, i64) → Option (%s)" % cfg, "%d index helpers" % len(helpers), where=lookup.where(), nontrivial=True)
        if len(helpers) != 1:
            continue
        helper = helpers[0]
        lu = Unit(roles, lookup.key, extended=True, stop=[helper.key])
        sites = lu.calls_to(helper.key)
        ctx.floor("index helper call sites (%s)" % cfg, len(sites), 1)
        for s in sites:
            ty = (callee_of(s.term).get("full") or "")
            sl = strip_refs(s.body.xtrace(s.term["args"][0]))
            if "::<char>" in ty:
                good = expr_mentions(sl, lambda x: x[0] == "call" and x[1] and x[1]["path"].endswith("::collect") and expr_mentions(x, lambda y: y[0] == "call" and y[1] and y[1]["path"] == "core::str::<impl str>::chars"))
                ctx.check(good, "K2.string-by-chars", "string indexed through Vec<char> from chars() (%s, %s)" % (s.where(), cfg), "the character slice handed to the helper is %s" % show_expr(sl)[:120], where=s.where(), fn=s.body.key, nontrivial=True)
            else:
                good = expr_mentions(sl, lambda x: x[0] == "downcast" and x[2] == "Array")
                ctx.check(good, "K2.array-payload", "array indexed on its own payload (%s, %s)" % (s.where(), cfg), "the slice handed to the helper is %s" % show_expr(sl)[:120], where=s.where(), fn=s.body.key, nontrivial=True)
        for s in lu.calls(lambda c: not c["local"]):
            p = callee_path(s.term)
            if BYTE_OPS.search(p):
                ctx.fail("K2.no-bytes", "%s|%s" % (s.body.key.split("::", 1)[1], p.rsplit("::", 1)[1]), "byte-based string operation %s in the lookup: strings must be indexed by Unicode character" % p, where=s.where(), fn=s.body.key)
            if DIRECT_INDEX.search(p):
                ctx.fail("K2.no-direct-index", "%s|%s" % (s.body.key.split("::", 1)[1], p.rsplit("::", 1)[1]), "positional access %s bypasses the negative-index helper" % p, where=s.where(), fn=s.body.key)
            if MAP_ITER.search(p):
                ctx.fail("K5.no-entry-scan", "%s|%s" % (s.body.key.split("::", 1)[1], p.rsplit("::", 1)[1]), "the lookup uses %s: parts of the data not named by the path can influence the result" % p, where=s.where(), fn=s.body.key)
        ctx.ok("K2.scan", "lookup reach scanned for byte operations / direct indexing / entry scans (%d bodies, %s)" % (len(lu.bodies), cfg), nontrivial=True, sample={"bodies": sorted(b.key for b in lu.bodies)})
        # helper internals, read off its decision cases (rules/optnorm.py): whatever the spelling (`?`, and_then, match,
        # named booleans), every case either yields nothing or reads the slice it measured at
        #     |idx|                 when idx >= 0
        #     len(slice) - |idx|    when idx <  0   (checked: nothing when that would be negative)
        from . import optnorm, pathsum
        hc = optnorm.decision_cases(facts, helper)
        if hc is None:
            ctx.unread("K2.helper-branches", "index helper (%s)" % cfg, "the index helper has loops or too many paths to summarise", where=helper.where(), fn=helper.key)
        else:
            bad, forms = [], set()

            def mentions_call(e, rx):
                return expr_mentions(e, lambda y: y[0] == "call" and y[1] is not None and re.search(rx, y[1]["path"]) is not None)

            def expand(e, depth=0):
                """payload placeholders → the expression they are the payload of (so that |idx| and len - |idx| show)."""
                if not isinstance(e, tuple) or depth > 12:
                    return e
                if e[0] == "payload":
                    return ("payload", e[1], expand(e[2], depth + 1))
                return tuple([expand(y, depth + 1) if isinstance(y, tuple) else y for y in x] if isinstance(x, list) else (expand(x, depth + 1) if isinstance(x, tuple) else x) for x in e)
            for conds, v, pth in hc:
                sign = None
                for k, val in conds.items():
                    if k[0] == "cmp" and k[1] == "Lt" and k[2] == "(arg 2)" and k[3] == "c:0":
                        sign = "neg" if val else "nonneg"
                    elif k[0] == "cmp" and k[1] == "Lt" and k[2] == "c:-1" and k[3] == "(arg 2)":
                        sign = "nonneg" if val else "neg"         # -1 < idx
                    elif k[0] == "cmp" and "(arg 2)" in (k[2], k[3]):
                        sign = "wrong:%s" % (k,)
                    elif k[0] == "pure" and "is_negative" in k[1] and "(arg 2)" in k[1]:
                        sign = "neg" if val else "nonneg"
                v = strip_refs(v)
                if (v[0] == "call" and v[1] and "from_residual" in v[1]["path"]) or (v[0] == "agg" and v[1].get("variant") == "None"):
                    continue
                if v[0] == "agg" and v[1].get("variant") == "Some" and v[2]:
                    v = strip_refs(v[2][0])
                if not (v[0] == "call" and v[1] and re.search(r"^core::slice::<impl \[T\]>::get$|Index<", v[1]["path"]) and strip_refs(v[2][0]) == ("arg", 1)) and not (v[0] == "payload" and mentions_call(v[2], r"^core::slice::<impl \[T\]>::get$")):
                    bad.append("%s: returns %s" % (sign, show_expr(v)[:70]))
                    continue
                idx = expand(v[2][1] if v[0] == "call" else v[2])
                has_abs = mentions_call(idx, r"<impl i64>::(unsigned_abs|abs)$")
                has_sub = mentions_call(idx, r"<impl usize>::(checked_sub|saturating_sub|wrapping_sub)$") or expr_mentions(idx, lambda y: y[0] == "binop" and str(y[1]).startswith("Sub"))
                sub_of_len = expr_mentions(idx, lambda y: y[0] == "call" and y[1] is not None and y[1]["path"] == "core::slice::<impl [T]>::len" and strip_refs(y[2][0]) == ("arg", 1))
                if sign == "nonneg" and has_abs and not has_sub:
                    forms.add("nonneg")
                elif sign == "neg" and has_abs and has_sub and sub_of_len:
                    forms.add("neg")
                else:
                    bad.append("under %s the slice is read at %s" % (sign, show_expr(idx)[:90]))
            ctx.check(not bad and forms == {"nonneg", "neg"}, "K2.helper-branches", "idx >= 0 reads at |idx|, idx < 0 reads at len - |idx| — on every case of the helper (%s)" % cfg,
                      "; ".join(bad[:3]) if bad else "the helper has no case for %s indexes" % sorted({"nonneg", "neg"} - forms), where=helper.where(), fn=helper.key, nontrivial=True,
                      sample={"cases": len(hc), "forms": sorted(forms)})

        # ---------------- K3 / K4 on var
        vb, ve = roles.fn_of("var")
        vu = Unit(roles, vb.key)
        lk = vu.calls_to(lookup.key)
        ctx.check(len(lk) == 1, "K3.one-lookup", "var performs one lookup (%s)" % cfg, "%d lookups" % len(lk), where=vb.where(), fn=vb.key)
        if len(lk) == 1:
            s = lk[0]
            # the decision cases of var (rules/optnorm.py: `match`, `if let`, unwrap_or_else, map_or … in one form):
            #   lookup found something      → exactly that value
            #   lookup found nothing        → null, or a clone of operand 1
            #   no lookup on the path       → a clone of the entire data (operand-less form) or an error
            from . import optnorm
            cases = optnorm.decision_cases(facts, vb)
            sel = match_form = None
            if cases is None:
                ctx.unread("K3.default-on-none", "var (%s)" % cfg, "var has loops or too many paths to summarise", where=vb.where(), fn=vb.key)
            else:
                bad, kinds = [], set()
                for conds, v, pth in cases:
                    st = None
                    lkey = None
                    for k, val in conds.items():
                        if k[0] == "variant" and k[1].startswith(lookup.key + "@"):
                            st, lkey = val, k[1]
                    v = strip_refs(v)
                    if v[0] == "call" and v[1] and "from_residual" in v[1]["path"]:
                        continue
                    if v[0] == "agg" and v[1].get("variant") == "Err":
                        continue
                    inner = strip_refs(v[2][0]) if (v[0] == "agg" and v[1].get("variant") == "Ok" and v[2]) else None
                    if inner is None:
                        bad.append("returns %s" % show_expr(v)[:80])
                        continue
                    is_null = (inner[0] == "const" and "item" in inner[1] and items.get(inner[1]["item"], {}).get("ty") == VALUE) or (inner[0] == "agg" and inner[1].get("adt") == VALUE and inner[1].get("variant") == "Null")
                    is_clone = inner[0] == "call" and inner[1] and inner[1]["path"] == CLONE
                    if st == "Some":
                        if inner[0] == "payload" and inner[1] == lkey:
                            kinds.add("found")
                        else:
                            bad.append("lookup found a value but var returns %s" % show_expr(inner)[:80])
                    elif st == "None":
                        if is_null:
                            kinds.add("null-const")
                        elif is_clone and (operand_index(strip_refs(inner[2][0])) == 1 or _abs_operand(vb, inner[2][0]) == 1):
                            kinds.add("operand1")
                        else:
                            bad.append("lookup found nothing and var returns %s" % show_expr(inner)[:80])
                    else:
                        if is_clone and strip_refs(inner[2][0]) == ("arg", 1):
                            kinds.add("whole-data")
                        else:
                            bad.append("without a lookup var returns %s" % show_expr(inner)[:80])
                ctx.check(not bad and "found" in kinds, "K3.default-on-none", "var returns the found value, the default only when the lookup is None (%s)" % cfg,
                          "; ".join(bad[:3]) if bad else "no case returns the found value", where=vb.where(), fn=vb.key, nontrivial=True, sample={"cases": len(cases), "forms": sorted(kinds)})
                ctx.check({"null-const", "operand1"} <= kinds or bad, "K3.default-value", "the default is null or a clone of operand 1 (%s)" % cfg, "default alternatives: %s" % sorted(kinds - {"found", "whole-data"}), where=vb.where(), fn=vb.key, nontrivial=True)
            # never inspects the found value
            insp = []
            for b in vu.bodies:
                for bi, si, st in b.stmts():
                    if st["k"] == "Assign" and st["rv"]["k"] == "Discriminant" and st["rv"].get("adt") == VALUE:
                        e = strip_refs(b.xtrace({"k": "Copy", "place": st["rv"]["place"]})) if False else strip_refs(b._trace_place(st["rv"]["place"], 0, frozenset()))
                        if expr_mentions(e, lambda x: x[0] == "call" and x[1] and x[1].get("key") == lookup.key):
                            insp.append((b, bi, si))
                for bi, t in b.calls():
                    p = callee_path(t) or ""
                    if re.search(r"serde_json::Value::(is_null|as_\w+|is_\w+)$|Option::<T>::(filter|and_then|is_some_and|xor|zip)$", p):
                        a0 = b.trace(t["args"][0])
                        if expr_mentions(a0, lambda x: x[0] == "call" and x[1] and x[1].get("key") == lookup.key):
                            insp.append((b, bi, None))
            for b, bi, si in insp:
                ctx.fail("K3.inspects-found", "var|%s" % b.where(bi), "var inspects the looked-up value (a present null would be treated like an absent key)", where=b.where(bi, si) if si is not None else b.where(bi), fn=b.key)
            if not insp:
                ctx.ok("K3.inspects-found", "var never inspects the found value (%s)" % cfg, nontrivial=True)
        # whole-data forms
        whole = []
        for b in [vb, lookup] + [x for x in lu.bodies if x.kind == "fn" and x.key not in (lookup.key,)]:
            for bi, t in b.calls():
                if callee_path(t) == CLONE:
                    a = strip_refs(b.trace(t["args"][0]))
                    if a == ("arg", 1) and items.get(b.key, {}).get("inputs", [""])[0] == "&serde_json::Value":
                        whole.append((b.key, bi))
        ctx.check(len(whole) >= 3, "K3.whole-data", "operand-less var, the null key and the empty string return a clone of the entire data (%s)" % cfg, "only %d whole-data clone sites (%s)" % (len(whole), whole), where=vb.where(), fn=vb.key, nontrivial=True,
                  sample={"sites": whole})
        # Null key → Some(data.clone()) in the lookup (specialise on the key kind)
        blocks, dec = lookup.specialize(lambda e, a: "Null" if a == key_adt else None)
        with lookup.restricted(blocks):
            r = strip_refs(lookup.trace(0))
        good = r[0] == "agg" and r[1].get("variant") == "Some" and strip_refs(r[2][0])[0] == "call" and strip_refs(r[2][0])[1]["path"] == CLONE and strip_refs(strip_refs(r[2][0])[2][0]) == ("arg", 1)
        ctx.check(good, "K3.null-key", "a null key yields Some(entire data) (%s)" % cfg, "a null key yields %s" % show_expr(r)[:100], where=lookup.where(), fn=lookup.key, nontrivial=True)
        # K4
        _, s1res = P.analyse(roles)
        dirty = [sk for sk, verdict, how in s1res if verdict == "dirty" and (sk.body.key in vu.keys or sk.body.key in lu.keys)]
        for sk in dirty:
            ctx.fail("K4.default-inert", "var|%s" % sk.ident(), "var parses a computed value (provenance %s): the default or the data would be executed as a rule" % sorted(sk.tags), where=sk.body.where(sk.bi), fn=sk.body.key)
        if not dirty:
            ctx.ok("K4.default-inert", "nothing in var or the lookup parses a value (%s)" % cfg, nontrivial=True)

        # ---------------- K5 the dotted-path walk
        walkers = [b for b in lu.bodies if b.kind == "fn" and b.key != lookup.key and items.get(b.key, {}).get("output") == "std::option::Option<serde_json::Value>"]
        ctx.check(len(walkers) == 1, "K5.walker", "one dotted-path walker (%s)" % cfg, "%d candidates" % len(walkers), where=lookup.where())
        if len(walkers) == 1:
            w = walkers[0]
            r = strip_refs(w.trace(0))
            cands = [strip_refs(x) for x in r[2]] if r[0] == "phi" else [r]
            kinds = []
            fold = None
            for c in cands:
                if c[0] == "agg" and c[1].get("variant") == "None":
                    kinds.append("None")
                elif c[0] == "agg" and c[1].get("variant") == "Some" and strip_refs(c[2][0])[0] == "call" and strip_refs(c[2][0])[1]["path"] == CLONE:
                    kinds.append("Some(data)")
                elif c[0] == "call" and c[1] and re.search(r"Iterator(>)?::(fold|try_fold)$", c[1]["path"]):
                    kinds.append("fold")
                    fold = c
                else:
                    kinds.append("other:" + show_expr(c)[:60])
            if fold is None:
                lf = walker_loop_form(ctx, facts, roles, w, helper, cfg)
                if lf:
                    continue
            ctx.check(sorted(kinds) == ["None", "Some(data)", "fold"], "K5.walk-is-the-result", "the walker returns the entire data (empty key), None (scalar data) or exactly the fold over the segments (%s)" % cfg,
                      "the walker's results are %s — a lookup that failed along the path must stay absent (no fallback)" % kinds, where=w.where(), fn=w.key, nontrivial=True, sample={"results": kinds})
            if fold is not None:
                it = fold[2][0]
                split = expr_mentions(it, lambda x: x[0] == "call" and x[1] and x[1]["local"] and items.get(x[1]["key"], {}).get("output") == "std::vec::Vec<std::string::String>")
                ctx.check(split, "K5.split", "segments come from the escape-aware splitter (%s)" % cfg, "the fold iterates %s" % show_expr(it)[:100], where=w.where(), fn=w.key)
                split_transducer(ctx, facts, w, it, cfg)
                seed = strip_refs(fold[2][1])
                ctx.check(seed[0] == "agg" and seed[1].get("variant") == "Some", "K5.seed", "the walk starts at the entire data (%s)" % cfg, "fold seed %s" % show_expr(seed)[:80], where=w.where(), fn=w.key)
                clos = strip_refs(fold[2][2])
                if clos[0] == "agg" and clos[1].get("agg") == "Closure":
                    step_matrix(ctx, facts, roles, facts.body(clos[1]["closure"]), helper, cfg)


def _abs_operand(body, e):
    """Index of the operand e denotes, through split_first / skip / slicing (rules/operands.py)."""
    from . import operands as OD
    ap = None
    for l in range(1, body.arg_count + 1):
        if "std::vec::Vec<&" in body.local_ty(l):
            ap = l
    if ap is None:
        return None
    e = strip_refs(e)
    while e[0] == "payload":
        src = strip_refs(e[2])
        e = ("field", ("downcast", src, "Some"), 0)
    return OD.absolute_index(OD.describe(body, e, ap))


def operand_index(o):
    """Index n when expression o is the n-th element of an operand vector: v[n], v.get(n)?, v.first()? — else None."""
    o = strip_payload(strip_refs(o))
    while o[0] == "payload":          # normalised `(x as Some).0` (rules/optnorm.py)
        o = strip_payload(strip_refs(o[2]))
    if o[0] != "call" or not o[1]:
        return None
    p = o[1]["path"]
    if p.endswith("Index<I>>::index") or re.search(r"^core::slice::<impl \[T\]>::get$|^std::vec::Vec::<T, A>::get$", p):
        i = strip_refs(o[2][1])
        return const_value(i[1]) if i[0] == "const" else None
    if re.search(r"^core::slice::<impl \[T\]>::first$", p):
        return 0
    return None


def split_transducer(ctx, facts, w, it, cfg):
    """K6 — the splitter is the escape transducer the property states (rules/splitter.py)."""
    from .splitter import Transducer, expected
    items = facts.items
    found = []
    expr_mentions(it, lambda x: found.append(x) or False if (x[0] == "call" and x[1] and x[1]["local"] and items.get(x[1]["key"], {}).get("output") == "std::vec::Vec<std::string::String>") else False)
    if not found:
        return
    call = found[0]
    sb = facts.body(call[1]["key"])
    ins = items[sb.key].get("inputs", [])
    chars = [i + 1 for i, t in enumerate(ins) if t == "char"]
    strs = [i + 1 for i, t in enumerate(ins) if t == "&str"]
    ctx.need(len(chars) == 1 and len(strs) == 1, "splitter signature (&str, char) → Vec<String> not recognised: %s" % ins)
    darg = chars[0]
    # the walker splits at '.'
    d = strip_refs(call[2][darg - 1])
    ctx.check(d[0] == "const" and const_value(d[1]) == ".", "K6.delimiter", "the path is split at '.' (%s)" % cfg, "the walker splits at %s" % show_expr(d), where=w.where(), fn=w.key, nontrivial=True)
    src = strip_refs(call[2][strs[0] - 1])
    ctx.check(expr_mentions(src, lambda x: x == ("arg", 2)) and not expr_mentions(src, lambda x: x[0] == "call" and x[1] and not re.search(r"as_ref$|as_str$|deref$|borrow$", x[1]["path"])), "K6.whole-key", "the whole key text is split (%s)" % cfg, "the walker splits %s" % show_expr(src)[:80], where=w.where(), fn=w.key)
    from .engine import Inconclusive as _Inc
    try:
        tr = Transducer(sb)
    except _Inc as e_:
        # a splitter that is not a one-flag loop over the characters: nothing is claimed about it
        ctx.unread("K6.transducer", "splitter (%s)" % cfg, "the splitter is written in a form the transducer reader does not read (%s)" % e_, where=sb.where(), fn=sb.key)
        return
    ie = tr.iter_expr
    plain = not expr_mentions(ie, lambda x: x[0] == "call" and x[1] and not re.search(r"(::chars|IntoIterator>::into_iter|::by_ref)$", x[1]["path"]))
    ctx.check(tr.next_path.startswith("<std::str::Chars") and plain and expr_mentions(ie, lambda x: x == ("arg", strs[0])), "K6.by-character", "the splitter walks the characters of its input in order (%s)" % cfg,
              "the splitter iterates %s via %s" % (show_expr(ie)[:100], tr.next_path), where=sb.where(), fn=sb.key, nontrivial=True)
    ctx.check(tr.flag_init == {False}, "K6.initial-state", "the escape flag starts cleared (%s)" % cfg, "the escape flag is initialised with %s" % sorted(map(str, tr.flag_init)), where=sb.where(), fn=sb.key, nontrivial=True)
    classes = {}
    for decisions, effects, flagw in tr.paths:
        c = tr.classify(decisions, darg)
        if c == "infeasible":
            continue
        flag, bs, dl, opaque = c
        want = expected(flag, bs, dl)
        label = {(True,): "escaped character"}.get((flag,)) if flag else ("backslash" if bs else ("delimiter" if dl else "ordinary character")) if want else "undecided(flag=%s, backslash=%s, delimiter=%s)" % (flag, bs, dl)
        pushes = [e[1] for e in effects if e[0] == "push"]
        emits = [e for e in effects if e[0] == "emit"]
        clears = [e for e in effects if e[0] == "clear"]
        others = [e for e in effects if e[0] in ("call", "shrink", "leaves")]
        final = flagw[-1] if flagw else flag
        got = (pushes, len(emits), final)
        key = label
        if want is None:
            ctx.fail("K6.transducer", "%s|path with undecided class" % sb.key.split("::", 1)[1], "an iteration path of the splitter does not determine (escape flag, backslash?, delimiter?): %s with effects %s" % (label, effects), where=sb.where(), fn=sb.key)
            continue
        ok = got == want and not others and not opaque
        if want[1] == 1:
            ok = ok and len(clears) == 1 and emits[0][1] is not None and emits[0][1][0] in ("clone", "taken") and emits[0][1][1] == clears[0][-1]
        else:
            ok = ok and not clears
        classes.setdefault(key, []).append(ok)
        if not ok:
            ctx.fail("K6.transducer", "%s|%s" % (sb.key.split("::", 1)[1], key),
                     "splitter, %s: pushes %s, emits %d segment(s), clears %d, leaves the flag %s%s%s; the property demands pushes %s, %d emitted, flag %s" % (key, pushes, len(emits), len(clears), final,
                     (", under extra conditions %s" % opaque) if opaque else "", (", also %s" % others) if others else "", want[0], want[1], want[2]), where=sb.where(), fn=sb.key)
    for key in ("escaped character", "backslash", "delimiter", "ordinary character"):
        if key not in classes:
            ctx.fail("K6.transducer", "%s|%s missing" % (sb.key.split("::", 1)[1], key), "the splitter has no iteration path for the case: %s" % key, where=sb.where(), fn=sb.key)
        elif all(classes[key]):
            ctx.ok("K6.transducer", "splitter, %s: %d path(s) as the property states (%s)" % (key, len(classes[key]), cfg), nontrivial=True)
    ctx.count("splitter iteration paths (%s)" % cfg, len(tr.paths))
    ctx.floor("splitter iteration paths (%s)" % cfg, len(tr.paths), 4)
    ctx.check(any(e[1] is not None and e[1][0] == "moved" or (e[1] is not None and e[1][0] in ("clone", "taken")) for e in tr.tail_emits), "K6.last-segment", "the pending segment is emitted after the loop (%s)" % cfg, "no emission of the pending segment after the loop", where=sb.where(), fn=sb.key)


def walker_loop_form(ctx, facts, roles, w, helper, cfg):
    """The dotted-path walk written as a loop: `let mut cur = data.clone(); for seg in split(key) { cur = step(cur, seg)?; } Some(cur)`.
    Returns True when the shape was recognised and judged."""
    from . import panic as PN
    items = facts.items
    loops = PN.loops_of(w)
    if len(loops) != 1:
        return False
    h, bl, srcs = loops[0]
    nbi = [bi for bi in sorted(bl) if w.blocks[bi]["term"]["k"] == "Call" and (callee_path(w.blocks[bi]["term"]) or "").endswith("::next")]
    if len(nbi) != 1:
        return False
    it = w.trace(w.blocks[nbi[0]]["term"]["args"][0])
    found = []
    expr_mentions(it, lambda x: found.append(x) or False if (x[0] == "call" and x[1] and x[1]["local"] and items.get(x[1]["key"], {}).get("output") == "std::vec::Vec<std::string::String>") else False)
    if not found:
        return False
    # the current value: the Value-typed local switched on inside the loop that is defined both before and inside it
    cur = None
    for sb in sorted(bl):
        tt = w.blocks[sb]["term"]
        if tt["k"] == "SwitchInt":
            e = w.trace(tt["discr"])
            if e[0] == "discr" and e[2] == VALUE:
                x = strip_refs(e[1])
                if x[0] == "phi":
                    cur = x[1]
    if cur is None:
        return False
    defs = w.defs().get(cur, [])
    seeds = [d for d in defs if d[1] not in bl]
    steps = [d for d in defs if d[1] in bl]
    seed_ok = len(seeds) == 1 and strip_refs(w._trace_def(seeds[0], 0, frozenset()))[0] == "call" and strip_refs(w._trace_def(seeds[0], 0, frozenset()))[1]["path"] == CLONE and strip_refs(strip_refs(w._trace_def(seeds[0], 0, frozenset()))[2][0]) == ("arg", 1)
    ctx.check(seed_ok, "K5.seed", "the walk starts at the entire data (%s)" % cfg, "the walk's current value starts as %s" % [show_expr(w._trace_def(d, 0, frozenset()))[:60] for d in seeds], where=w.where(), fn=w.key)
    # inside the loop the current value is only replaced by the payload of the step's Option (`cur = next?`)
    step_ok = bool(steps)
    for d in steps:
        ex = strip_refs(w._trace_def(d, 0, frozenset()))
        step_ok = step_ok and ex[0] == "field" and ex[1][0] == "downcast" and ex[1][2] in ("Some", "Continue")
    # results: Some(data) [empty key], None [scalar / absent step via `?`], Some(cur) after the loop
    r = strip_refs(w.trace(0))
    cands = [strip_refs(x) for x in r[2]] if r[0] == "phi" else [r]
    kinds = []
    for c in cands:
        if c[0] == "agg" and c[1].get("variant") == "None":
            kinds.append("None")
        elif c[0] == "call" and c[1] and "from_residual" in c[1]["path"]:
            kinds.append("None")
        elif c[0] == "agg" and c[1].get("variant") == "Some":
            v = strip_refs(c[2][0])
            if v[0] == "call" and v[1]["path"] == CLONE and strip_refs(v[2][0]) == ("arg", 1):
                kinds.append("Some(data)")
            elif v[0] == "phi" and v[1] == cur:
                kinds.append("Some(current)")
            else:
                kinds.append("other:" + show_expr(v)[:50])
        else:
            kinds.append("other:" + show_expr(c)[:50])
    ctx.check(step_ok and set(kinds) == {"None", "Some(data)", "Some(current)"}, "K5.walk-is-the-result", "the walker returns the entire data (empty key), None (scalar data / absent step) or the value the loop over the segments ends on (%s)" % cfg,
              "the walker's results are %s (current value replaced only by the step's payload: %s) — a lookup that failed along the path must stay absent" % (sorted(set(kinds)), step_ok), where=w.where(), fn=w.key, nontrivial=True)
    ctx.ok("K5.split", "segments come from the escape-aware splitter (%s)" % cfg)
    split_transducer(ctx, facts, w, it, cfg)
    step_matrix(ctx, facts, roles, w, helper, cfg, is_cur=lambda e: strip_refs(e)[0] == "phi" and strip_refs(e)[1] == cur)
    return True


def step_matrix(ctx, facts, roles, cb, helper, cfg, is_cur=None):
    """Per kind of the current value: which access the step performs."""
    def _is_cur(e):
        e = strip_refs(e)
        return expr_mentions(e, lambda x: x[0] == "arg" and x[1] == 2) or expr_mentions(e, lambda x: x[0] == "call" and x[1] and "Try>::branch" in x[1]["path"])
    is_cur = is_cur or _is_cur
    for v in facts.variants(VALUE):
        restrict = P.specialise_unit(roles, cb.key, lambda e, a, _v=v: _v if (a == VALUE and is_cur(e)) else None)
        blocks = restrict[cb.key]
        paths = []
        for k, bl in restrict.items():
            b = facts.body(k)
            for bi in sorted(bl):
                t = b.blocks[bi]["term"]
                if t["k"] == "Call" and callee_of(t):
                    paths.append((callee_of(t).get("key") if callee_of(t)["local"] else callee_of(t)["path"]))
        has_get = any(p.startswith("serde_json::Map::<") and p.endswith("::get") for p in paths)
        has_helper = helper.key in paths
        has_parse = any(p == "core::str::<impl str>::parse" for p in paths)
        has_chars = "core::str::<impl str>::chars" in paths
        got = "MAPGET" if has_get and not has_helper else ("INDEX(chars)" if has_helper and has_chars and has_parse else ("INDEX" if has_helper and has_parse and not has_chars else ("NONE" if not has_get and not has_helper else "MIXED")))
        want = {"Object": "MAPGET", "Array": "INDEX", "String": "INDEX(chars)"}.get(v, "NONE")
        ctx.check(got == want, "K5.step", "path step on a %s (%s)" % (v, cfg), "a path step on a %s performs %s; expected %s" % (v, got, want), where=cb.where(), fn=cb.key, nontrivial=True, sample={"current": v, "access": got})
