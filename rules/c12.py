#!/usr/bin/env python3
"""C12 — missing / missing_some report exactly the keys that var cannot find.

  K1  one notion of absence: the functions bound to var, missing and missing_some
      touch the data only by handing it to the shared lookup (role: the function
      (&Value, KeyType) → Option<Value>) — plus var's whole-data clone; none of
      them switches on the kind of the data or calls anything else on it; keys
      are converted through the same KeyType gate (TryInto); absence is the
      Option discriminant of the lookup (is_none / unwrap_or / match), nothing else;
  K2  null keys — and only they — are skipped: both KeyType conversions type a
      JSON null as the Null key, a string as a String key carrying the payload, a
      number as an integer key or Err, everything else Err (the matrix shared with
      C11 K1); under KeyType::Null the per-key code neither pushes
      nor counts (variant specialisation of the per-key closures);
  K3  the present counter counts only present keys: the value compared with the
      threshold is the result of a fold whose closure returns either the previous
      count or previous+1, and the +1 is edge-dominated by the 'found' edge of the
      lookup of the current key; every push onto the missing list is dominated
      by the 'not found' edge;
  K4  order and distinctness: pushes append a clone of the key operand element
      (iteration order); missing_some's push is guarded by `!contains(key)`;
  K5  first-operand-array adjustment in missing: when operand 0 is an array its
      elements are the key list, otherwise the operand list itself;
  K6  threshold: missing_some returns the empty array exactly on the edge
      `present >= threshold` and the missing list on the other.

K2–K6 are read on shape-independent representations (DESIGN §2 E2b), on the view of the program in which the private
helpers and methods of the two operators (never the shared lookup) stand at their call sites (`flat_view`):
  * the per-key step — the closure handed to the iterator consumer or one iteration of the loop, whichever holds the
    lookup — is enumerated path by path (`x_step.StepWalker`, one walk per key kind); each path is a row of the table
    key kind × lookup result (None/Some/is_none/is_some atoms on the lookup call) → pushes, contains-guards, count delta;
    K2.null-skipped, K3.push-absent, K3.count-present-only, K3.increment(-by-one), K4.push-key, K4.distinct and the two
    converses K3.absent-reported / K3.present-counted are statements about rows;
  * the present count is either the accumulator the closure returns (delta = result relative to the parameter) or a
    storage cell updated in place — a local or a field of a local struct, resolved through `&mut` temporaries
    (`x_step.cell_of`) — (delta = the constant increments stored on the path);
  * K6: the comparison after the scan, operands classified as count / threshold (an exact u64 reading of operand 0:
    Number::as_u64 or Value::as_u64; as_i64/as_f64 are violations), operator normalised, outcomes = what every path
    from each edge returns (a vector created after the decision is empty, one created before it is the list);
  * K5: the paths of `missing` up to the scan(s): the scanned sequence is operand 0's Array payload (operand
    descriptor fixed(ALL)[0]) or the operand list on paths where operand 0 is known not to be an array / absent; and no
    operand other than operand 0 has its kind examined.
A form that cannot be read (opaque calls on the path, a test on the lookup result that is not None/Some, an unknown
guard) is reported with ctx.unread, never as a violation and never as a pass.
"""
import re
from .core import (callee_of, callee_path, strip_refs, strip_payload, show_expr, const_value, expr_mentions, op_const, edge_dominates, bool_edge, switch_edges_for_variant)
from .engine import Inconclusive
from .roles import Roles
from .opfacts import Unit
from . import prov as P
from . import pathsum, operands, accum, panic as PN
from .x_step import StepWalker, cell_of, reads_cell, cell_writes, initial_operand, overlaps

VALUE = "serde_json::Value"
CLONE = "<serde_json::Value as std::clone::Clone>::clone"
PUSH = "std::vec::Vec::<T, A>::push"
COPY_OF = (CLONE, "<T as std::borrow::ToOwned>::to_owned", "<T as std::clone::Clone>::clone")
# reading a JSON value as an unsigned integer, exactly (None for negative, fractional and non-numbers)
U64_EXACT = ("serde_json::Number::as_u64", "serde_json::Value::as_u64")
U64_WRONG = re.compile(r"^serde_json::(Number|Value)::as_(i64|f64)$")
CMP_SWAP = {"Ge": "Le", "Le": "Ge", "Gt": "Lt", "Lt": "Gt"}
CMP_NEG = {"Ge": "Lt", "Lt": "Ge", "Gt": "Le", "Le": "Gt"}


def lookup_role(roles):
    """The shared lookup, by type: the one function of two parameters — the data (&Value) and a key (KeyType, by value or
    by reference, in either position: a free function or a method of the key) — returning Option<Value>."""
    facts = roles.facts
    c = []
    for b in facts.fns():
        it = facts.items.get(b.key, {})
        ins = it.get("inputs", [])
        if b.kind == "fn" and len(ins) == 2 and it.get("output") == "std::option::Option<serde_json::Value>":
            d = [i for i, t in enumerate(ins) if t == "&serde_json::Value"]
            k = [i for i, t in enumerate(ins) if "KeyType" in t and "Value" not in t]
            if len(d) == 1 and len(k) == 1:
                b.data_param, b.key_param = d[0] + 1, k[0] + 1
                c.append(b)
    if len(c) != 1:
        raise Inconclusive("shared lookup (&Value, KeyType) → Option<Value> not identified (%d candidates)" % len(c))
    return c[0]


def lookup_key_adt(lookup):
    kp = getattr(lookup, "key_param", 2)
    adt = lookup.locals[kp].get("adt")
    if not adt:
        adt = re.sub(r"^&('\w+ )?(mut )?", "", lookup.locals[kp]["ty"]).split("<")[0]
    return adt


def key_typing(ctx, facts, roles, key_adt, cfg, K):
    """Which JSON kinds become which key kinds — one decision table per conversion (from Value, from &Value), read
    from the decision cases of the conversion (match arms, guards, `?`, Option/Result combinators alike) with the
    private helpers the conversions delegate to standing at their call sites."""
    from . import inline, optnorm
    items = facts.items

    def is_conv(f, b):
        return b.kind == "fn" and f.items.get(b.key, {}).get("output", "").startswith("std::result::Result<%s" % key_adt) and f.items[b.key].get("inputs") in (["serde_json::Value"], ["&serde_json::Value"])
    convs = [b for b in facts.fns() if is_conv(facts, b)]
    try:
        path = ctx.fact_paths[(cfg, "jsonlogic_rs", "debug")]
        cands = set(inline.candidates(path))
        helpers = set()
        for cb in convs:
            for x in Unit(roles, cb.key, extended=True).bodies:
                if x.kind == "fn" and x.key in cands:
                    helpers.add(x.key)
        if helpers:
            view = inline.load_view(path, sorted(helpers | set(h for h in ctx.inline_set if h.startswith("jsonlogic_rs::"))))
            vconvs = [b for b in view.fns() if is_conv(view, b)]
            if vconvs:
                facts, convs = view, vconvs
    except Exception:
        pass
    ctx.floor("KeyType conversions (%s)" % cfg, len(convs), 1)
    variants = set(facts.variants(key_adt))

    def outcome(val):
        x = strip_refs(val)
        if x[0] == "agg" and x[1].get("variant") == "Ok" and x[2]:
            k = strip_refs(x[2][0])
            if k[0] == "agg" and k[1].get("adt") == key_adt:
                return "OK(%s)" % k[1].get("variant"), k
            if k[0] == "call" and k[1] is not None and k[1]["path"].rsplit("::", 1)[-1] in variants and key_adt.rsplit("::", 1)[-1] in k[1]["path"]:
                return "OK(%s)" % k[1]["path"].rsplit("::", 1)[-1], k
            return "?", k
        if (x[0] == "agg" and x[1].get("variant") == "Err") or (x[0] == "call" and x[1] is not None and "from_residual" in x[1]["path"]):
            return "ERR", x
        return "?", x
    want = {"Null": "OK(Null)", "String": "OK(String)", "Number": "ERR+OK(Number)+via as_i64", "Bool": "ERR", "Array": "ERR", "Object": "ERR"}
    mats = []
    for cb in convs:
        m = {}
        for v in facts.variants(VALUE):
            cases = optnorm.decision_cases(facts, cb, known=lambda e, adt, _v=v: _v if (adt == VALUE and strip_refs(e) == ("arg", 1)) else None)
            key = "%s: %s key (%s)" % (cb.key.split("::", 1)[1], v, cfg)
            if not cases:
                m[v] = None
                ctx.unread(K + ".key-typing", key, "the conversion's decision cases could not be enumerated (loops or too many paths)", where=cb.where(), fn=cb.key)
                continue
            kinds = set()
            for conds, val, pth in cases:
                o, k = outcome(val)
                kinds.add(o)
                if o == "OK(Number)" and expr_mentions(k, lambda y: y[0] == "call" and y[1] is not None and y[1]["path"] == "serde_json::Number::as_i64"):
                    kinds.add("via as_i64")
                elif o == "OK(Number)" and any("serde_json::Number::as_i64" in str(ck) or "as_i64(" in str(ck) for ck in conds) and expr_mentions(k, lambda y: y[0] == "payload"):
                    kinds.add("via as_i64")
            got = "+".join(sorted(kinds))
            m[v] = got
            if "?" in kinds and all(x2 in want[v].split("+") or x2 == "?" for x2 in kinds):
                ctx.unread(K + ".key-typing", key, "one outcome of the conversion for a %s could not be read as Ok(key kind) or Err" % v, where=cb.where(), fn=cb.key)
                continue
            ctx.check(got == want[v], K + ".key-typing", key, "a %s key is typed as %s; expected %s" % (v, got, want[v]), where=cb.where(), fn=cb.key, nontrivial=True,
                      sample={"conversion": cb.key, "kind": v, "outcome": got})
        mats.append((cb, m))
    if len(mats) >= 2 and all(None not in m.values() for _, m in mats):
        ctx.check(all(m == mats[0][1] for _, m in mats), K + ".key-siblings", "both KeyType conversions agree (%s)" % cfg, "the conversions from Value and &Value type keys differently", where=convs[0].where(), nontrivial=True)


def run(ctx):
    ctx.explanation = __doc__
    ctx.rule = "instances = data-use sites of the three operators, per-key closure facts by key kind, counter/push dominance facts, threshold comparison; non-trivial = provenance, dominance, specialisation"
    ctx.trusted = ["std adaptor models", "Option::is_none / unwrap_or semantics"]
    cfgs = ["default"] if ctx.tier == "quick" else ["default", "python", "wasm"]
    # "the keys that var cannot find": the shared lookup itself must find what is there — its clauses are C11's K2
    # (indexing), K5 (the path walk: a step that is present, even null, is Some) and K6 (the splitter)
    from . import c11 as _c11
    ctx.include("C11", _c11.run, "K1.lookup", keep=lambda c: c.startswith(("K2.", "K5.", "K6.")), what="the lookup shared with var")
    for cfg in cfgs:
        facts = ctx.facts(cfg)
        roles = Roles(facts)
        p = P.Prov(roles).run()
        lookup = lookup_role(roles)
        key_adt = lookup_key_adt(lookup)
        di, ki = lookup.data_param - 1, lookup.key_param - 1
        # K2 (first half): only a JSON null is a null key — the gate the skipping below is keyed on
        key_typing(ctx, facts, roles, key_adt, cfg, "K2")
        units = {}
        for name in ("var", "missing", "missing_some"):
            b, e = roles.fn_of(name)
            ctx.check(e.table.role == "data", "K1.data-table", "%s is a data operator (%s)" % (name, cfg), "%s is in the %s table" % (name, e.table.role), where=b.where(), fn=b.key)
            units[name] = Unit(roles, b.key, extended=True, stop=[lookup.key] + [k for k in facts.bodies if "::js_op::" in k])
        # ---------------- K1
        for name, u in units.items():
            root = u.root
            base = 1 if root.kind == "closure" else 0
            data_param = base + 1
            nuse = 0
            lk = u.calls_to(lookup.key)
            ctx.check(len(lk) >= 1, "K1.shared-lookup", "%s uses the shared lookup (%s)" % (name, cfg), "%s never calls the shared lookup %s" % (name, lookup.key.split("::", 1)[1]), where=root.where(), fn=root.key, nontrivial=True)
            for s in lk:
                dt = p.op_tags(s.body, s.term["args"][di])
                ctx.check(dt == {"DATA"}, "K1.lookup-on-data", "%s looks keys up in the data (%s, %s)" % (name, s.where(), cfg), "lookup applied to a value with provenance %s" % sorted(dt), where=s.where(), fn=s.body.key)
                kx = strip_payload(s.body.xtrace(s.term["args"][ki]))
                via_gate = kx[0] == "call" and kx[1] and kx[1]["path"] in ("<T as std::convert::TryInto<U>>::try_into",) or (kx[0] == "call" and kx[1] and "TryFrom" in kx[1]["path"])
                ctx.check(bool(via_gate), "K1.key-gate", "%s converts keys through the KeyType gate (%s, %s)" % (name, s.where(), cfg), "the key handed to the lookup is %s" % show_expr(kx)[:120], where=s.where(), fn=s.body.key)
            for b in u.bodies:
                for bi, t in b.calls():
                    c = callee_of(t)
                    if c is None:
                        continue
                    for i, a in enumerate(t["args"]):
                        if a["k"] not in ("Copy", "Move"):
                            continue
                        ty = b.local_ty(a["place"]["local"])
                        if "{closure@" in ty or not ty.endswith("serde_json::Value"):
                            continue
                        if "DATA" in p.op_tags(b, a):
                            nuse += 1
                            okc = c.get("key") == lookup.key or c.get("key") in u.keys or (name == "var" and c["path"] == CLONE)
                            ctx.check(okc, "K1.data-use", "%s|%s" % (name, c["path"].split("::<")[0]),
                                      "%s hands the data to %s — a second way of deciding presence/absence besides the shared lookup" % (name, c["path"]), where=b.where(bi), fn=b.key, nontrivial=True)
                for bi, si, st in b.stmts():
                    if st["k"] == "Assign" and st["rv"]["k"] == "Discriminant" and st["rv"].get("adt") == VALUE:
                        pl = st["rv"]["place"]
                        if "DATA" in p.place_tags(b, pl) and "EVAL" not in p.place_tags(b, pl):
                            ctx.fail("K1.data-switch", "%s|switch on data kind" % name, "%s branches on the kind of the data itself instead of delegating to the shared lookup" % name, where=b.where(bi, si), fn=b.key)
            ctx.count("data uses in %s (%s)" % (name, cfg), nuse)

        # ---------------- the per-key step, the count, the threshold and the key list: read on the view of the program
        # in which the private helpers/methods of the two operators (never the shared lookup) stand at their call sites
        vfacts, vroles, inlined = flat_view(ctx, cfg, facts, roles, lookup)
        vlookup = lookup_role(vroles)
        stop = [vlookup.key] + [k for k in vfacts.bodies if "::js_op::" in k]
        if inlined:
            ctx.count("helpers read at their call sites (%s)" % cfg, len(inlined))
        for name in ("missing", "missing_some"):
            b, e = vroles.fn_of(name)
            u = Unit(vroles, b.key, extended=True, stop=stop)
            if not u.calls_to(vlookup.key):
                continue      # K1.shared-lookup has reported it
            count = None
            if name == "missing_some":
                count = threshold_and_outcome(ctx, vfacts, u, cfg)
            per_key(ctx, name, cfg, vfacts, u, vlookup, key_adt, count)
        b, e = vroles.fn_of("missing")
        key_list(ctx, vfacts, Unit(vroles, b.key, extended=True, stop=stop), vlookup, cfg)


def is_key_param(clos, e):
    if e[0] == "carg" or (e[0] == "arg" and e[1] >= 2):
        return True
    # loop form: the item produced by Iterator::next
    x = strip_payload(e)
    return x[0] == "call" and x[1] is not None and x[1]["path"].endswith("::next")


def absence_edges(clos, lookup_bi):
    """(switch block, target when absent, target when present) for the test of the lookup result."""
    from .core import option_guards
    g = option_guards(clos, lambda x: x[0] == "call" and x[3] == lookup_bi)
    if not g:
        return None
    sb, t_some, t_none = g[0]
    return sb, t_none, t_some




# ======================================================================================================================
# Shape-independent readings (DESIGN §2 E2b).  Everything below is read on `flat_view`: the program with the private
# helpers and methods of missing / missing_some standing at their call sites, so that "the per-key step" is one piece of
# loop-free code whether it is written as a fold closure, a loop body, a helper returning an enum or methods of a struct.

def flat_view(ctx, cfg, facts, roles, lookup):
    from . import inline
    try:
        path = ctx.fact_paths[(cfg, "jsonlogic_rs", "debug")]
        cands = set(inline.candidates(path))
        stop = [lookup.key] + [k for k in facts.bodies if "::js_op::" in k]
        helpers = set()
        for name in ("missing", "missing_some"):
            b, e = roles.fn_of(name)
            for x in Unit(roles, b.key, extended=True, stop=stop).bodies:
                if x.kind == "fn" and x.key != b.key and x.key in cands:
                    helpers.add(x.key)
        if not helpers:
            return facts, roles, []
        view = inline.load_view(path, sorted(helpers | set(h for h in ctx.inline_set if h.startswith("jsonlogic_rs::"))))
        vroles = Roles(view)
        lookup_role(vroles)
        for name in ("missing", "missing_some"):
            vroles.fn_of(name)
        return view, vroles, sorted(helpers)
    except Exception:
        return facts, roles, []


class Tally:
    """Per clause: the first violation, the first unread instance, the number of satisfied instances."""

    def __init__(self):
        self.bad, self.unread, self.good = {}, {}, {}

    def fail(self, clause, detail, where):
        self.bad.setdefault(clause, (detail, where))

    def skip(self, clause, detail, where):
        self.unread.setdefault(clause, (detail, where))

    def ok(self, clause):
        self.good[clause] = self.good.get(clause, 0) + 1

    def report(self, ctx, clause, key, fn, need=True):
        if clause in self.bad:
            ctx.fail(clause, key, self.bad[clause][0], where=self.bad[clause][1], fn=fn)
        elif clause in self.unread:
            ctx.unread(clause, key, self.unread[clause][0], where=self.unread[clause][1], fn=fn)
        elif self.good.get(clause) or not need:
            ctx.ok(clause, key, nontrivial=True, sample={"paths": self.good.get(clause, 0)})
        else:
            return False
        return True


def _opaque(facts, lookup, conv_keys, c):
    """A call whose effect on the carried state the path reader does not see: indirect, or a function of the crate."""
    if c is None:
        return True
    k = c.get("key")
    return k is not None and k in facts.bodies and k != lookup.key and k not in conv_keys


def _conv_keys(facts, key_adt):
    return {b.key for b in facts.fns() if facts.items.get(b.key, {}).get("output", "").startswith("std::result::Result<%s" % key_adt)}


def _cmp_of(body, op):
    """(bi, si, rvalue, negated): the ordering comparison whose result the operand holds."""
    neg = False
    for _ in range(12):
        if op["k"] not in ("Copy", "Move") or op["place"]["proj"] or body.is_arg(op["place"]["local"]):
            return None
        ds = body.defs().get(op["place"]["local"], [])
        if len(ds) != 1 or ds[0][0] != "stmt":
            return None
        rv = ds[0][3]
        if rv["k"] == "BinaryOp" and rv["op"] in CMP_SWAP:
            return ds[0][1], ds[0][2], rv, neg
        if rv["k"] == "UnaryOp" and rv["op"] == "Not":
            neg, op = not neg, rv["a"]
        elif rv["k"] == "Use":
            op = rv["op"]
        else:
            return None
    return None


def _mentions_call(e, pred):
    return expr_mentions(e, lambda y: y[0] == "call" and y[1] is not None and pred(y[1]["path"]))


def _is_fold(x):
    return x[0] == "call" and x[1] and accum.FOLD.search(x[1]["path"]) is not None


def threshold_and_outcome(ctx, facts, u, cfg):
    """K6 and the source of the present count.  Returns how the count is carried: {"kind": "fold", "bi"} (the value
    returned by the per-key closure) or {"kind": "cell", "cell"} (updated in place by the per-key step), or None."""
    root = u.root
    base = 1 if root.kind == "closure" else 0
    argsp = base + 2
    loops = PN.loops_of(root)
    inloop = set()
    for (_h, bl, _s) in loops:
        inloop |= bl
    sites = []
    for bi in sorted(root.reachable()):
        tt = root.blocks[bi]["term"]
        if tt["k"] == "SwitchInt" and tt.get("dty") == "bool" and bi not in inloop:
            c = _cmp_of(root, tt["discr"])
            if c is not None and str(c[2].get("opty", "u64"))[:1] in ("u", "i"):
                sites.append((bi, c))
    K = "missing_some compares the present count with the threshold after the scan (%s)" % cfg
    if not sites:
        hidden = [bi for bi, t in root.calls() if callee_of(t) is None or (callee_of(t).get("key") in facts.bodies and "::{closure" not in callee_of(t)["key"] and facts.items.get(callee_of(t)["key"], {}).get("output") in ("bool", "serde_json::Value"))]
        if hidden:
            ctx.unread("K6.threshold-test", K, "the decision is made inside a function that is not read at its call site", where=root.where(hidden[0]), fn=root.key)
        else:
            ctx.fail("K6.threshold-test", K, "no comparison of the present count with the threshold decides the result once the keys have been scanned (the function's code was read completely)", where=root.where(), fn=root.key)
        return None
    ctx.ok("K6.threshold-test", K, nontrivial=True)
    count = None
    for n, (bi, (sbi, ssi, rv, neg)) in enumerate(sites):
        tag = cfg if len(sites) == 1 else "%s, comparison %d" % (cfg, n + 1)
        sides = []
        for o in (rv["a"], rv["b"]):
            e = root.trace(o)
            cell = reads_cell(root, o)
            kind = ("?", e)
            if cell is not None:
                ups = [w for w in cell_writes(root, cell) if len(w[3][1]) >= len(cell[1])]
                init = initial_operand(root, cell) if cell[1] else None
                if cell[1] and not ups and init is not None:
                    e = root.trace(init)
                elif any(w[0] in inloop for w in ups):
                    kind = ("count", {"kind": "cell", "cell": cell, "body": root, "writes": ups, "init": init})
            if kind[0] == "?":
                if _is_fold(strip_payload(e)):
                    kind = ("count", {"kind": "fold", "bi": strip_payload(e)[3], "body": root, "expr": strip_payload(e)})
                elif _mentions_call(e, lambda p: p in U64_EXACT or U64_WRONG.search(p) is not None):
                    kind = ("threshold", e)
                else:
                    kind = ("?", e)
            sides.append(kind)
        op = rv["op"]
        if sides[0][0] == "threshold" or sides[1][0] == "count":
            sides.reverse()
            op = CMP_SWAP[op]
        if neg:
            op = CMP_NEG[op]
        cnt, thr = sides
        # -- the count
        Kc = "the present count is obtained by counting over the keys (%s)" % tag
        if cnt[0] == "count":
            ctx.ok("K3.count-by-fold", Kc, nontrivial=True, sample={"carried": cnt[1]["kind"]})
            count = cnt[1]
            seed = None
            if count["kind"] == "fold":
                seed = accum.seed_value(count["expr"][2][1]) if len(count["expr"][2]) > 1 else None
            else:
                outside = [w for w in count["writes"] if w[0] not in inloop]
                if count["init"] is not None and not outside:
                    seed = accum.seed_value(root.trace(count["init"]))
                elif len(outside) == 1 and outside[0][1] is not None and outside[0][2]["rv"]["k"] == "Use":
                    seed = accum.seed_value(root.trace(outside[0][2]["rv"]["op"]))
            if seed is None:
                ctx.unread("K3.count-seed", "the count starts at zero (%s)" % tag, "the initial value of the count could not be read", where=root.where(bi), fn=root.key)
            else:
                ctx.check(seed == 0, "K3.count-seed", "the count starts at zero (%s)" % tag, "the count starts at %r" % (seed,), where=root.where(bi), fn=root.key, nontrivial=True)
        elif _mentions_call(cnt[1], lambda p: p.endswith("::len")):
            ctx.fail("K3.count-by-fold", Kc, "the value compared with the threshold is %s — computed from list lengths, not by counting the lookups that succeeded (null keys and repeated keys are counted wrongly)" % show_expr(cnt[1])[:140], where=root.where(bi), fn=root.key)
        else:
            ctx.unread("K3.count-by-fold", Kc, "the value compared with the threshold is %s — neither an accumulation over the keys nor a counter updated by the per-key step" % show_expr(cnt[1])[:140], where=root.where(bi), fn=root.key)
        # -- the threshold
        Kt = "the threshold is operand 0 as an unsigned integer (%s)" % tag
        if thr[0] != "threshold":
            ctx.unread("K6.threshold-operand", Kt, "compared against %s" % show_expr(thr[1])[:100], where=root.where(bi), fn=root.key)
        else:
            wrong = []
            expr_mentions(thr[1], lambda y: wrong.append(y[1]["path"]) if (y[0] == "call" and y[1] is not None and U64_WRONG.search(y[1]["path"])) else False)
            recv = []
            expr_mentions(thr[1], lambda y: recv.append(y[2][0]) if (y[0] == "call" and y[1] is not None and y[1]["path"] in U64_EXACT and y[2]) else False)
            if wrong:
                ctx.fail("K6.threshold-operand", Kt, "the threshold is read with %s" % wrong[0], where=root.where(bi), fn=root.key)
            else:
                idx = None
                for r in recv:
                    x = strip_refs(r)
                    while x[0] in ("field", "downcast"):
                        x = strip_refs(x[1])
                    d = operands.describe(root, x, argsp)
                    if d.kind == "fixed" and d.view == ("all",):
                        idx = d.index
                ctx.check(idx in (None, 0), "K6.threshold-operand", Kt, "the threshold is read from operand %r" % (idx,), where=root.where(bi), fn=root.key, nontrivial=idx == 0)
        # -- operator and outcomes
        Ko = "the test is present >= threshold (%s)" % tag
        if cnt[0] != "count" or thr[0] != "threshold":
            ctx.unread("K6.operator", Ko, "the operands of the comparison were not identified", where=root.where(bi), fn=root.key)
            continue
        ctx.check(op in ("Ge", "Lt"), "K6.operator", Ko, "the test is present %s threshold" % {"Gt": ">", "Le": "<="}.get(op, op), where=root.where(bi), fn=root.key, nontrivial=True)
        if op not in ("Ge", "Lt"):
            continue
        # `op` now reads "the switch is taken as true exactly when count `op` threshold"
        met_tg, not_tg = (bool_edge(root, bi, True), bool_edge(root, bi, False)) if op == "Ge" else (bool_edge(root, bi, False), bool_edge(root, bi, True))
        for tg, other, truth, want in ((met_tg, not_tg, True, "empty"), (not_tg, met_tg, False, "missing list")):
            # the value returned on every path that leaves the comparison by this edge (the code after the scan is loop-free)
            wk = pathsum.Walker(root, start=tg, max_paths=400)
            kinds, r = set(), ("?",)
            for pp in wk.paths:
                if pp.truncated or pp.result is None:
                    kinds.add("?")
                    continue
                r = strip_refs(pp.result)
                if r[0] == "agg" and r[1].get("variant") == "Ok" and r[2]:
                    r = strip_refs(r[2][0])
                if r[0] == "agg" and r[1].get("adt") == VALUE and r[1].get("variant") == "Array":
                    inner = strip_refs(r[2][0])
                    # a vector created after the decision is empty; one created before it is the list the scan filled
                    fresh = inner[0] == "call" and inner[1] and re.search(r"::new$", inner[1]["path"]) and isinstance(inner[3], int) and inner[3] in pp.blocks
                    kinds.add("empty" if fresh else "missing list")
                else:
                    kinds.add("?")
            kind = kinds.pop() if (len(kinds) == 1 and not wk.overflow) else "?"
            Kr = "present >= threshold is %s ⇒ %s (%s)" % (truth, want, tag)
            if kind == "?":
                ctx.unread("K6.outcome", Kr, "the value returned on this edge is %s" % show_expr(r)[:100], where=root.where(bi), fn=root.key)
            else:
                ctx.check(kind == want, "K6.outcome", Kr, "when present >= threshold is %s the result is the %s" % (truth, kind), where=root.where(bi), fn=root.key, nontrivial=True)
    return count


def per_key(ctx, name, cfg, facts, u, lookup, key_adt, count):
    """K2/K3/K4: the decision table of one per-key step — key kind × lookup result → (reported?, counted?)."""
    conv = _conv_keys(facts, key_adt)
    lk = u.calls_to(lookup.key)
    for idx, s in enumerate(lk):
        B = s.body
        tag = cfg if len(lk) == 1 else "%s, scan %d" % (cfg, idx + 1)
        pe = u.per_element(s)
        ctx.check(pe is not None, "K3.per-key", "%s looks each key up in per-key code (%s)" % (name, tag), "the lookup is not in per-key code (loop body or closure handed to an iterator consumer)", where=s.where(), fn=B.key)
        if pe is None:
            continue
        loops = [(h, bl) for (h, bl, _s) in PN.loops_of(B) if s.bi in bl]
        if loops:
            start, region = min(loops, key=lambda x: len(x[1]))
            form = "loop"
        elif B.kind == "closure":
            start, region, form = 0, set(range(len(B.blocks))), "closure"
        else:
            ctx.unread("K3.per-key", "%s: the per-key step (%s)" % (name, tag), "the lookup sits in a function that is called from per-key code and is not read at its call site", where=s.where(), fn=B.key)
            continue
        acc = ("arg", 2) if (form == "closure" and B.arg_count == 3) else None
        last = ("arg", B.arg_count)

        def is_elem(e):
            x = strip_refs(e)
            if form == "closure":
                return x == last
            x = strip_payload(x)
            return x[0] == "call" and x[1] is not None and x[1]["path"].endswith("::next") and x[3] in region

        def is_lookup(x):
            x = strip_refs(x)
            while x[0] == "call" and x[1] and re.search(r"Option::<T>::(as_ref|as_deref|as_mut)$", x[1]["path"]) and x[2]:
                x = strip_refs(x[2][0])
            return x[0] == "call" and x[1] is not None and x[1].get("key") == lookup.key

        T = Tally()
        looked = {}
        any_push = any_inc = any_opaque = False
        for v in facts.variants(key_adt):
            w = StepWalker(B, start, region, known=lambda pe_, adt, _v=v: _v if adt == key_adt else None)
            if w.overflow or not w.paths:
                T.skip("K2.null-skipped" if v == "Null" else "K2.other-keys-looked-up", "the per-key step has too many paths to enumerate" if w.overflow else "no path through the per-key step", B.where(start))
                continue
            for p in w.paths:
                where = B.where(p.blocks[-1] if not p.truncated else p.blocks[-2] if len(p.blocks) > 1 else start)
                look = [ev for ev in p.events if ev[1] is not None and ev[1].get("key") == lookup.key]
                pushes = [ev for ev in p.events if ev[1] is not None and ev[1]["path"] == PUSH]
                opaque = [ev for ev in p.events if _opaque(facts, lookup, conv, ev[1])]
                any_opaque = any_opaque or bool(opaque)
                # what the path knows about the lookup result, and the other decisions it takes about the current key
                outcome, guards, foreign = None, [], []
                for key, val in p.order:
                    x = w.exprs.get(key)
                    if x is None:
                        continue
                    if key[0] == "variant" and is_lookup(x):
                        outcome = {"Some": "found", "None": "absent"}.get(val, "other")
                    elif key[0] == "pure" and x[0] == "call" and x[1] and re.search(r"Option::<T>::is_(none|some)$", x[1]["path"]) and x[2] and is_lookup(x[2][0]):
                        outcome = "absent" if (x[1]["path"].endswith("is_none") == bool(val)) else "found"
                    elif expr_mentions(x, lambda y: y[0] == "call" and y[1] is not None and y[1].get("key") == lookup.key):
                        outcome = "other"
                    elif key[0] == "pure" and x[0] == "call" and x[1] and x[1]["path"].endswith("::contains") and len(x[2]) == 2:
                        guards.append((x, val))
                    elif key[0] in ("pure", "site", "expr") and expr_mentions(x, is_elem):
                        foreign.append(x)
                # the count
                delta = None
                if name == "missing_some" and count is not None:
                    if count["kind"] == "fold" and form == "closure" and not p.truncated:
                        delta = _fold_delta(p, acc)
                    elif count["kind"] == "cell" and form == "loop" and B.key == count["body"].key:
                        delta = _cell_delta(B, p, count["cell"])
                done = (form == "closure" and not p.truncated and delta != "err") or (form == "loop" and w.next_element(p))
                if form == "closure" and name == "missing" and not p.truncated:
                    r = strip_refs(p.result) if p.result is not None else ("?",)
                    if (r[0] == "call" and r[1] and "from_residual" in r[1]["path"]) or (r[0] == "agg" and r[1].get("variant") == "Err"):
                        done = False
                if look:
                    looked[v] = True
                # ---- K2: a null key takes no part
                if v == "Null":
                    if look or pushes or (isinstance(delta, int) and delta != 0):
                        T.fail("K2.null-skipped", "under KeyType::Null: push=%s lookup=%s count-increment=%s" % (bool(pushes), bool(look), isinstance(delta, int) and delta != 0), where)
                    elif opaque or (name == "missing_some" and done and delta is None):
                        T.skip("K2.null-skipped", "under KeyType::Null the step calls %s, whose effect is not read" % (opaque[0][1]["path"] if opaque and opaque[0][1] else "a function value") if opaque else "under KeyType::Null the effect of the step on the count could not be read", where)
                    else:
                        T.ok("K2.null-skipped")
                    continue
                # ---- K3/K4: pushes
                for ev in pushes:
                    any_push = True
                    if outcome == "absent":
                        T.ok("K3.push-absent")
                    elif outcome == "other":
                        T.skip("K3.push-absent", "the test made on the lookup result before this push is not one of None/Some/is_none/is_some", where)
                    else:
                        T.fail("K3.push-absent", "a key is reported missing on a path where its lookup %s" % ("returned a value" if outcome == "found" else "was not consulted"), where)
                    val = strip_refs(ev[2][1]) if len(ev[2]) > 1 else ("?",)
                    if val[0] == "call" and val[1] is not None and val[1]["path"] in COPY_OF and val[2] and is_elem(val[2][0]):
                        T.ok("K4.push-key")
                    elif val[0] == "call" and val[2] and len(val[2]) == 1 and is_elem(val[2][0]):
                        T.skip("K4.push-key", "%s pushes %s" % (name, show_expr(val)[:100]), where)
                    else:
                        T.fail("K4.push-key", "%s pushes %s" % (name, show_expr(val)[:100]), where)
                    if name == "missing_some":
                        lst = pathsum.canon(strip_refs(ev[2][0]))
                        mine = [(x, gv) for (x, gv) in guards if is_elem(x[2][1])]
                        if any(gv is False and pathsum.canon(strip_refs(x[2][0])) == lst for (x, gv) in mine):
                            T.ok("K4.distinct")
                        elif mine and all(gv is False for (x, gv) in mine):
                            T.skip("K4.distinct", "the push is guarded by !contains(key) on %s, which could not be identified with the list pushed to" % show_expr(mine[0][0][2][0])[:80], where)
                        elif foreign:
                            T.skip("K4.distinct", "the push is guarded by %s, which is not read" % show_expr(foreign[0])[:100], where)
                        else:
                            T.fail("K4.distinct", "the push is not guarded by !contains(key)", where)
                # ---- K3: the count
                if name == "missing_some":
                    if isinstance(delta, int) and delta != 0:
                        any_inc = True
                        if delta == 1:
                            T.ok("K3.increment-by-one")
                        else:
                            T.fail("K3.increment-by-one", "increment by %s" % delta, where)
                        if outcome == "found":
                            T.ok("K3.count-present-only")
                        elif outcome == "other":
                            T.skip("K3.count-present-only", "the test made on the lookup result before this increment is not one of None/Some/is_none/is_some", where)
                        else:
                            T.fail("K3.count-present-only", "the present count is incremented on a path where the current key's lookup %s (an absent key counted as present)" % ("returned None" if outcome == "absent" else "was not consulted"), where)
                    elif done and delta is None and count is not None:
                        T.skip("K3.count-present-only", "the effect of this path on the count could not be read", where)
                    elif done and delta == 0 and outcome == "found" and not opaque:
                        T.fail("K3.present-counted", "a key whose lookup returned a value leaves the step without being counted", where)
                    elif done and delta == 0 and outcome == "found":
                        T.skip("K3.present-counted", "a found key is handed to %s" % (opaque[0][1]["path"] if opaque[0][1] else "a function value"), where)
                    elif done and outcome == "found":
                        T.ok("K3.present-counted")
                # ---- a key that was not found is reported (or is already in the list)
                if done and outcome == "absent":
                    if pushes or any(gv is True for (_x, gv) in guards):
                        T.ok("K3.absent-reported")
                    elif opaque or foreign:
                        T.skip("K3.absent-reported", "on the not-found path the step calls code that is not read", where)
                    else:
                        T.fail("K3.absent-reported", "a key whose lookup returned None leaves the step without being reported", where)
        fn = B.key
        for v in facts.variants(key_adt):
            if v != "Null":
                ctx.check(bool(looked.get(v)), "K2.other-keys-looked-up", "%s: a %s key is looked up (%s)" % (name, v, tag), "a %s key is not looked up" % v, where=B.where(start), fn=fn)
        T.report(ctx, "K2.null-skipped", "%s: a null key is neither looked up, reported nor counted (%s)" % (name, tag), fn)
        if not any_push and not T.bad.get("K3.push-absent"):
            if any_opaque:
                ctx.unread("K4.push", "%s appends missing keys (%s)" % (name, tag), "no push onto the missing list in the per-key step; it calls functions that are not read at their call sites", where=B.where(start), fn=fn)
            else:
                ctx.fail("K4.push", "%s appends missing keys (%s)" % (name, tag), "no push onto the missing list", where=B.where(start), fn=fn)
        else:
            ctx.ok("K4.push", "%s appends missing keys (%s)" % (name, tag))
            T.report(ctx, "K3.push-absent", "%s: push only when the key was not found (%s)" % (name, tag), fn)
            T.report(ctx, "K4.push-key", "%s pushes a clone of the key operand itself (%s)" % (name, tag), fn)
            if name == "missing_some":
                T.report(ctx, "K4.distinct", "missing_some reports each missing key once (%s)" % tag, fn)
        T.report(ctx, "K3.absent-reported", "%s: a key that is not found is reported (%s)" % (name, tag), fn, need=False)
        if name == "missing_some":
            if count is None:
                ctx.unread("K3.increment", "the per-key step increments the count (%s)" % tag, "how the present count is carried was not identified", where=B.where(start), fn=fn)
                continue
            if not any_inc and "K3.count-present-only" not in T.unread:
                if any_opaque:
                    ctx.unread("K3.increment", "the per-key step increments the count (%s)" % tag, "no increment in the per-key step; it calls functions that are not read at their call sites", where=B.where(start), fn=fn)
                else:
                    ctx.fail("K3.increment", "the per-key step increments the count (%s)" % tag, "no increment of the present count in the per-key step", where=B.where(start), fn=fn)
            elif any_inc:
                ctx.ok("K3.increment", "the per-key step increments the count (%s)" % tag, nontrivial=True)
            T.report(ctx, "K3.increment-by-one", "the count grows by one per present key (%s)" % tag, fn, need=False)
            T.report(ctx, "K3.count-present-only", "the count grows only on the 'found' result of the current key's lookup (%s)" % tag, fn, need=False)
            T.report(ctx, "K3.present-counted", "every key that is found is counted (%s)" % tag, fn, need=False)


def _fold_delta(p, acc):
    """What the closure returns relative to the accumulator it was given: 0, a constant increment, "err", or None."""
    if p.result is None:
        return None
    r = strip_refs(p.result)
    if (r[0] == "call" and r[1] and "from_residual" in r[1]["path"]) or (r[0] == "agg" and r[1].get("variant") == "Err"):
        return "err"
    if r[0] == "agg" and r[1].get("variant") == "Ok" and r[2]:
        r = strip_refs(r[2][0])
    if acc is None:
        return None
    if strip_payload(r) == acc:
        return 0
    x = r
    if x[0] == "field" and x[2] == 0:
        x = strip_refs(x[1])
    if x[0] == "binop" and x[1] in ("Add", "AddWithOverflow", "AddUnchecked"):
        a, b = strip_payload(x[2]), strip_refs(x[3])
        if a == acc and b[0] == "const" and isinstance(const_value(b[1]), int):
            return const_value(b[1])
    return None


def _cell_delta(B, p, cell):
    """Sum of the constant increments the path applies to the cell; None if it stores anything else into it."""
    d = 0
    blocks = p.blocks[:-1] if p.truncated else p.blocks
    for bi in blocks:
        for st in B.blocks[bi]["stmts"]:
            if st["k"] != "Assign":
                continue
            c = cell_of(B, st["place"])
            if c is None or not overlaps(c, cell):
                continue
            inc = _increment(B, st["rv"], cell)
            if inc is None:
                return None
            d += inc
        t = B.blocks[bi]["term"]
        if t["k"] == "Call" and t.get("dest") is not None:
            c = cell_of(B, t["dest"])
            if c is not None and overlaps(c, cell):
                return None
    return d


def _increment(B, rv, cell):
    if rv["k"] == "Use" and rv["op"]["k"] in ("Copy", "Move") and [pr["k"] for pr in rv["op"]["place"]["proj"]] == ["Field"] and rv["op"]["place"]["proj"][0]["i"] == 0:
        ds = B.defs().get(rv["op"]["place"]["local"], [])
        if len(ds) == 1 and ds[0][0] == "stmt":
            rv = ds[0][3]
    if rv["k"] == "BinaryOp" and rv["op"] in ("Add", "AddWithOverflow", "AddUnchecked"):
        c = op_const(rv["b"])
        if reads_cell(B, rv["a"]) == cell and c is not None and isinstance(const_value(c), int):
            return const_value(c)
    return None


def key_list(ctx, facts, u, lookup, cfg):
    """K5: which sequence the keys are taken from — operand 0's elements exactly when operand 0 is an array, the
    operand list otherwise.  Read off the paths of `missing` up to where the scan over the keys starts."""
    root = u.root
    base = 1 if root.kind == "closure" else 0
    argsp = base + 2
    lk = u.calls_to(lookup.key)
    if not lk:
        return      # K1.shared-lookup has reported it
    step_closures = set()
    headers = {}
    for s in lk:
        B = s.body
        if B.key == root.key:
            loops = [(h, bl) for (h, bl, _s) in PN.loops_of(root) if s.bi in bl]
            if loops:
                h, bl = min(loops, key=lambda x: len(x[1]))
                headers[h] = bl
        else:
            k = B.key
            while facts.body(k) is not None and facts.body(k).kind == "closure" and facts.body(k).creator() and facts.body(k).creator()[0].key != root.key:
                k = facts.body(k).creator()[0].key
            step_closures.add(k)
    Ka = "missing takes the key list from operand 0's elements when it is an array (%s)" % cfg
    Ke = "the operand list is the key list only when operand 0 is not an array (%s)" % cfg
    region = set(range(len(root.blocks)))
    for h, bl in headers.items():
        region -= (bl - {h})
    w = StepWalker(root, 0, region)
    scans = []      # (path, source expression)
    for p in w.paths:
        for ev in p.events:
            c = ev[1]
            if c is None or not ev[2]:
                continue
            if c["path"].endswith("::next") and ev[3] in headers:
                scans.append((p, ev[2][0], ev[3]))
            elif any(strip_refs(a)[0] == "agg" and strip_refs(a)[1].get("closure") in step_closures for a in ev[2][1:]):
                scans.append((p, ev[2][0], ev[3]))
    if w.overflow or not scans:
        ctx.unread("K5.adjustment", Ka, "the scan over the keys was not found on the paths of the operator function", where=root.where(), fn=root.key)
        return
    T = Tally()

    def operand0(x):
        d = operands.describe(root, x, argsp)
        if d.kind == "fixed" and d.view == ("all",):
            return d.index
        if d.kind == "elem":
            return "any"
        return None

    for p, src, bi in scans:
        where = root.where(bi)
        arr = []
        expr_mentions(src, lambda y: arr.append(y[1]) if (y[0] == "downcast" and y[2] == "Array") else False)
        # what the path knows about operand 0
        zero_kind, empty, unknown = None, False, []
        for key, val in p.order:
            x = w.exprs.get(key)
            if x is None:
                continue
            if key[0] == "variant":
                i = operand0(x)
                if i == 0:
                    zero_kind = val
                    continue
                xs = strip_refs(x)
                if xs[0] == "call" and xs[1] and re.search(r"::(first|get|split_first)$", xs[1]["path"]) and operands.view_of(xs[2][0], argsp) == ("all",):
                    if val == "None":
                        empty = True
                    continue
            if key[0] == "cmp" and "len(" in (key[2] + key[3]) and ("c:0" in (key[2], key[3])):
                if (key[1] == "Lt" and key[2] == "c:0" and val is False) or (key[1] == "Eq" and val is True):
                    empty = True
                continue
            if expr_mentions(x, lambda y: y == ("arg", argsp)):
                unknown.append(x)
        if arr:
            i = operand0(arr[0])
            if i == 0:
                T.ok("K5.adjustment")
            elif i is None:
                T.skip("K5.adjustment", "the key list is taken from the elements of %s" % show_expr(arr[0])[:80], where)
            else:
                T.fail("K5.adjustment", "the key list is taken from the elements of operand %s" % i, where)
            continue
        v = operands.view_of(src, argsp)
        if v == ("all",):
            not_array = zero_kind is not None and zero_kind != "Array" and not (isinstance(zero_kind, tuple) and "Array" not in zero_kind[1])
            if zero_kind == "Array":
                T.fail("K5.array-elements", "the operand list itself is scanned on a path where operand 0 is an array", where)
            elif not_array or empty:
                T.ok("K5.array-elements")
            elif unknown:
                T.skip("K5.array-elements", "the operand list is scanned under the condition %s, which is not read" % show_expr(unknown[0])[:100], where)
            else:
                T.fail("K5.array-elements", "the operand list is scanned as the key list on a path that does not examine the kind of operand 0", where)
        else:
            T.skip("K5.array-elements", "the scan runs over %s" % show_expr(src)[:100], where)
    if not T.good.get("K5.adjustment") and "K5.adjustment" not in T.bad and "K5.adjustment" not in T.unread:
        if T.unread:
            T.skip("K5.adjustment", "no scan over the elements of operand 0 was read", root.where())
        else:
            T.fail("K5.adjustment", "no path takes the key list from the elements of operand 0", root.where())
    T.report(ctx, "K5.adjustment", Ka, root.key)
    T.report(ctx, "K5.array-elements", Ke, root.key, need=False)
    # the array test is made on operand 0 and on no other operand
    for b in u.bodies:
        for bi in sorted(b.reachable()):
            tt = b.blocks[bi]["term"]
            x = None
            if tt["k"] == "SwitchInt":
                e = b.xtrace(tt["discr"])
                if e[0] == "discr" and e[2] == VALUE:
                    x = e[1]
            elif tt["k"] == "Call" and (callee_path(tt) or "") in ("serde_json::Value::is_array", "serde_json::Value::as_array") and tt["args"]:
                x = b.xtrace(tt["args"][0])
            if x is None:
                continue
            d = operands.describe(b, x, argsp)
            if d.kind == "elem" and d.view == ("all",):
                ctx.fail("K5.adjustment", "missing|kind of every operand", "the kind of every operand (not only operand 0) is examined: an array in any position is treated as a key list", where=b.where(bi), fn=b.key)
