#!/usr/bin/env python3
"""C12 — missing / missing_some report exactly the keys that var cannot find.

  K1  one notion of absence: the functions bound to var, missing and missing_some
      touch the data only by handing it to the shared lookup (role: the function
      (&Value, KeyType) → Option<Value>) — plus var's whole-data clone; none of
      them switches on the kind of the data or calls anything else on it; keys
      are converted through the same KeyType gate (TryInto); absence is the
      Option discriminant of the lookup (is_none / unwrap_or / match), nothing else;
  K2  null keys — and only they — are skipped: both KeyType conversions type a
      JSON null as the Null key, a string as a String key carrying the payload, a
      number as an integer key or Err, everything else Err (the matrix shared with
      C11 K1); under KeyType::Null the per-key code neither pushes
      nor counts (variant specialisation of the per-key closures);
  K3  the present counter counts only present keys: the value compared with the
      threshold is the result of a fold whose closure returns either the previous
      count or previous+1, and the +1 is edge-dominated by the 'found' edge of the
      lookup of the current key; every push onto the missing list is dominated
      by the 'not found' edge;
  K4  order and distinctness: pushes append a clone of the key operand element
      (iteration order); missing_some's push is guarded by `!contains(key)`;
  K5  first-operand-array adjustment in missing: when operand 0 is an array its
      elements are the key list, otherwise the operand list itself;
  K6  threshold: missing_some returns the empty array exactly on the edge
      `present >= threshold` and the missing list on the other.
"""
import re
from .core import (callee_of, callee_path, strip_refs, strip_payload, show_expr, const_value, expr_mentions, op_const, edge_dominates, bool_edge, switch_edges_for_variant)
from .engine import Inconclusive
from .roles import Roles
from .opfacts import Unit
from . import prov as P

VALUE = "serde_json::Value"
CLONE = "<serde_json::Value as std::clone::Clone>::clone"
PUSH = "std::vec::Vec::<T, A>::push"


def lookup_role(roles):
    facts = roles.facts
    c = []
    for b in facts.fns():
        it = facts.items.get(b.key, {})
        if b.kind == "fn" and len(it.get("inputs", [])) == 2 and it["inputs"][0] == "&serde_json::Value" and it.get("output") == "std::option::Option<serde_json::Value>" and "KeyType" in it["inputs"][1]:
            c.append(b)
    if len(c) != 1:
        raise Inconclusive("shared lookup (&Value, KeyType) → Option<Value> not identified (%d candidates)" % len(c))
    return c[0]


def key_typing(ctx, facts, roles, key_adt, cfg, K):
    """Which JSON kinds become which key kinds — the same matrix in both conversions (from Value, from &Value)."""
    items = facts.items
    convs = [b for b in facts.fns() if b.kind == "fn" and items.get(b.key, {}).get("output", "").startswith("std::result::Result<%s" % key_adt) and items[b.key].get("inputs") in (["serde_json::Value"], ["&serde_json::Value"])]
    ctx.floor("KeyType conversions (%s)" % cfg, len(convs), 2)
    mats = []
    for cb in convs:
        m = {}
        u = Unit(roles, cb.key)
        for v in facts.variants(VALUE):
            restrict = P.specialise_unit(roles, cb.key, lambda e, a, _v=v: _v if (a == VALUE and e == ("arg", 1)) else None)
            blocks = restrict[cb.key]
            with cb.restricted(blocks):
                r = strip_refs(cb.trace(0))
            paths = [callee_path(cb.blocks[bi]["term"]) for bi in sorted(blocks) if cb.blocks[bi]["term"]["k"] == "Call" and callee_of(cb.blocks[bi]["term"])]
            cands = [strip_refs(x) for x in r[2]] if r[0] == "phi" else [r]
            kinds = set()
            for c in cands:
                if c[0] == "agg" and c[1].get("variant") == "Ok":
                    k = strip_refs(c[2][0])
                    kinds.add("OK(%s)" % (k[1].get("variant") if k[0] == "agg" else "?"))
                elif c[0] == "agg" and c[1].get("variant") == "Err":
                    kinds.add("ERR")
                elif c[0] == "call" and "from_residual" in c[1]["path"]:
                    kinds.add("ERR")
                else:
                    kinds.add("?")
            if "serde_json::Number::as_i64" in paths:
                kinds.add("via as_i64")
            m[v] = "+".join(sorted(kinds))
        mats.append((cb, m))
        want = {"Null": "OK(Null)", "String": "OK(String)", "Number": "ERR+OK(Number)+via as_i64", "Bool": "ERR", "Array": "ERR", "Object": "ERR"}
        for v, got in m.items():
            ctx.check(got == want[v], K + ".key-typing", "%s: %s key (%s)" % (cb.key.split("::", 1)[1], v, cfg), "a %s key is typed as %s; expected %s" % (v, got, want[v]), where=cb.where(), fn=cb.key, nontrivial=True,
                      sample={"conversion": cb.key, "kind": v, "outcome": got})
    if len(mats) >= 2:
        ctx.check(all(m == mats[0][1] for _, m in mats), K + ".key-siblings", "both KeyType conversions agree (%s)" % cfg, "the conversions from Value and &Value type keys differently", where=convs[0].where(), nontrivial=True)



def run(ctx):
    ctx.explanation = __doc__
    ctx.rule = "instances = data-use sites of the three operators, per-key closure facts by key kind, counter/push dominance facts, threshold comparison; non-trivial = provenance, dominance, specialisation"
    ctx.trusted = ["std adaptor models", "Option::is_none / unwrap_or semantics"]
    cfgs = ["default"] if ctx.tier == "quick" else ["default", "python", "wasm"]
    # "the keys that var cannot find": the shared lookup itself must find what is there — its clauses are C11's K2
    # (indexing), K5 (the path walk: a step that is present, even null, is Some) and K6 (the splitter)
    from . import c11 as _c11
    ctx.include("C11", _c11.run, "K1.lookup", keep=lambda c: c.startswith(("K2.", "K5.", "K6.")), what="the lookup shared with var")
    for cfg in cfgs:
        facts = ctx.facts(cfg)
        roles = Roles(facts)
        p = P.Prov(roles).run()
        lookup = lookup_role(roles)
        key_adt = lookup.locals[2]["adt"]
        # K2 (first half): only a JSON null is a null key — the gate the skipping below is keyed on
        key_typing(ctx, facts, roles, key_adt, cfg, "K2")
        units = {}
        for name in ("var", "missing", "missing_some"):
            b, e = roles.fn_of(name)
            ctx.check(e.table.role == "data", "K1.data-table", "%s is a data operator (%s)" % (name, cfg), "%s is in the %s table" % (name, e.table.role), where=b.where(), fn=b.key)
            units[name] = Unit(roles, b.key, extended=True, stop=[lookup.key] + [k for k in facts.bodies if "::js_op::" in k])
        # ---------------- K1
        for name, u in units.items():
            root = u.root
            base = 1 if root.kind == "closure" else 0
            data_param = base + 1
            nuse = 0
            lk = u.calls_to(lookup.key)
            ctx.check(len(lk) >= 1, "K1.shared-lookup", "%s uses the shared lookup (%s)" % (name, cfg), "%s never calls the shared lookup %s" % (name, lookup.key.split("::", 1)[1]), where=root.where(), fn=root.key, nontrivial=True)
            for s in lk:
                dt = p.op_tags(s.body, s.term["args"][0])
                ctx.check(dt == {"DATA"}, "K1.lookup-on-data", "%s looks keys up in the data (%s, %s)" % (name, s.where(), cfg), "lookup applied to a value with provenance %s" % sorted(dt), where=s.where(), fn=s.body.key)
                kx = strip_payload(s.body.xtrace(s.term["args"][1]))
                via_gate = kx[0] == "call" and kx[1] and kx[1]["path"] in ("<T as std::convert::TryInto<U>>::try_into",) or (kx[0] == "call" and kx[1] and "TryFrom" in kx[1]["path"])
                ctx.check(bool(via_gate), "K1.key-gate", "%s converts keys through the KeyType gate (%s, %s)" % (name, s.where(), cfg), "the key handed to the lookup is %s" % show_expr(kx)[:120], where=s.where(), fn=s.body.key)
            for b in u.bodies:
                for bi, t in b.calls():
                    c = callee_of(t)
                    if c is None:
                        continue
                    for i, a in enumerate(t["args"]):
                        if a["k"] not in ("Copy", "Move"):
                            continue
                        ty = b.local_ty(a["place"]["local"])
                        if "{closure@" in ty or not ty.endswith("serde_json::Value"):
                            continue
                        if "DATA" in p.op_tags(b, a):
                            nuse += 1
                            okc = c.get("key") == lookup.key or c.get("key") in u.keys or (name == "var" and c["path"] == CLONE)
                            ctx.check(okc, "K1.data-use", "%s|%s" % (name, c["path"].split("::<")[0]),
                                      "%s hands the data to %s — a second way of deciding presence/absence besides the shared lookup" % (name, c["path"]), where=b.where(bi), fn=b.key, nontrivial=True)
                for bi, si, st in b.stmts():
                    if st["k"] == "Assign" and st["rv"]["k"] == "Discriminant" and st["rv"].get("adt") == VALUE:
                        pl = st["rv"]["place"]
                        if "DATA" in p.place_tags(b, pl) and "EVAL" not in p.place_tags(b, pl):
                            ctx.fail("K1.data-switch", "%s|switch on data kind" % name, "%s branches on the kind of the data itself instead of delegating to the shared lookup" % name, where=b.where(bi, si), fn=b.key)
            ctx.count("data uses in %s (%s)" % (name, cfg), nuse)

        # ---------------- per-key closures of missing / missing_some
        for name in ("missing", "missing_some"):
            u = units[name]
            root = u.root
            lk = u.calls_to(lookup.key)
            if not lk:
                continue
            s = lk[0]
            clos = s.body
            ctx.check(u.per_element(s) is not None, "K3.per-key", "%s looks each key up in per-key code (%s)" % (name, cfg), "the lookup is not in per-key code (loop body or closure handed to an iterator consumer)", where=s.where(), fn=clos.key)
            # found / not-found edges of the lookup result
            edges = absence_edges(clos, s.bi)
            ctx.check(edges is not None, "K1.absence-test", "%s tests absence by the lookup's Option discriminant (%s)" % (name, cfg), "no is_none/is_some/discriminant test of the lookup result", where=s.where(), fn=clos.key, nontrivial=True)
            if edges is None:
                continue
            sb, absent_tgt, present_tgt = edges
            pushes = [x for x in u.calls_path(r"^std::vec::Vec::<T, A>::push$") if x.body.key == clos.key]
            ctx.check(len(pushes) >= 1, "K4.push", "%s appends missing keys (%s)" % (name, cfg), "no push onto the missing list", where=clos.where(), fn=clos.key)
            for x in pushes:
                ctx.check(edge_dominates(clos, sb, absent_tgt, x.bi), "K3.push-absent", "%s: push only when the key was not found (%s)" % (name, cfg),
                          "a key is reported missing on a path where its lookup did not return None", where=x.where(), fn=clos.key, nontrivial=True)
                v = strip_refs(clos.xtrace(x.term["args"][1]))
                elem = v[0] == "call" and v[1] and v[1]["path"] == CLONE and is_key_param(clos, strip_refs(v[2][0]))
                ctx.check(bool(elem), "K4.push-key", "%s pushes a clone of the key operand itself (%s)" % (name, cfg), "%s pushes %s" % (name, show_expr(v)[:100]), where=x.where(), fn=clos.key, nontrivial=True)
                if name == "missing_some":
                    guarded = False
                    for cb in clos.reachable():
                        tt = clos.blocks[cb]["term"]
                        if tt["k"] == "SwitchInt":
                            e = strip_refs(clos.trace(tt["discr"]))
                            if e[0] == "call" and e[1] and e[1]["path"].endswith("::contains") and edge_dominates(clos, cb, bool_edge(clos, cb, False), x.bi):
                                guarded = True
                    ctx.check(guarded, "K4.distinct", "missing_some reports each missing key once (%s)" % cfg, "the push is not guarded by !contains(key)", where=x.where(), fn=clos.key, nontrivial=True)
            # ---- K2 null keys
            for v in facts.variants(key_adt):
                def assume(e, adt, _v=v):
                    if adt == key_adt:
                        return _v
                    return None
                blocks, dec = clos.specialize(assume)
                if v == "Null":
                    has_push = any(x.bi in blocks for x in pushes)
                    has_lookup = s.bi in blocks
                    incs = [bi for bi in blocks if clos.blocks[bi]["term"]["k"] == "Assert" and clos.blocks[bi]["term"]["msg"] == "Overflow"]
                    ctx.check(not has_push and not has_lookup and not incs, "K2.null-skipped", "%s: a null key is neither looked up, reported nor counted (%s)" % (name, cfg),
                              "under KeyType::Null: push=%s lookup=%s count-increment=%s" % (has_push, has_lookup, bool(incs)), where=clos.where(), fn=clos.key, nontrivial=True)
                else:
                    ctx.check(s.bi in blocks, "K2.other-keys-looked-up", "%s: a %s key is looked up (%s)" % (name, v, cfg), "a %s key is not looked up" % v, where=clos.where(), fn=clos.key)
            # ---- K3 counter (missing_some)
            if name == "missing_some":
                counter(ctx, facts, roles, u, clos, sb, absent_tgt, present_tgt, cfg)

        # ---------------- K5 first-operand-array adjustment
        u = units["missing"]
        root = u.root
        base = 1 if root.kind == "closure" else 0
        argsp = base + 2
        adj = None
        for bi in root.reachable():
            tt = root.blocks[bi]["term"]
            if tt["k"] == "SwitchInt":
                e = root.trace(tt["discr"])
                if e[0] == "discr" and e[2] == VALUE:
                    x = strip_refs(e[1])
                    if x[0] == "call" and x[1] and x[1]["path"].endswith("Index<I>>::index") and strip_refs(x[2][0]) == ("arg", argsp):
                        i = strip_refs(x[2][1])
                        if i[0] == "const" and const_value(i[1]) == 0:
                            adj = bi
        ctx.check(adj is not None, "K5.adjustment", "missing switches on the kind of operand 0 (%s)" % cfg, "no switch on operand 0's kind", where=root.where(), fn=root.key, nontrivial=True)
        if adj is not None:
            arr = switch_edges_for_variant(root, adj, "Array")
            ok = False
            if arr and arr[1]:
                # on the Array edge the iterated list derives from the array payload; elsewhere from the operand list
                region = root.reachable(arr[0])
                with root.restricted(region | root.reachable(0) - root.reachable(adj) | {adj}):
                    pass
                for bi, si, st in root.stmts():
                    if bi in region and st["k"] == "Assign" and edge_dominates(root, adj, arr[0], bi):
                        ex = root.trace(st["place"]["local"]) if not st["place"]["proj"] else None
                        if ex is not None and expr_mentions(root._trace_def(("stmt", bi, si, st["rv"], False), 0, frozenset()), lambda x: x[0] == "downcast" and x[2] == "Array"):
                            ok = True
                for bi, t in root.calls():
                    if edge_dominates(root, adj, arr[0], bi) and (callee_path(t) or "").endswith("::collect"):
                        if expr_mentions(root.trace(t["args"][0]), lambda x: x[0] == "downcast" and x[2] == "Array"):
                            ok = True
            ctx.check(ok, "K5.array-elements", "an array as first operand supplies the key list (%s)" % cfg, "the Array edge does not take the key list from the array's elements", where=root.where(adj), fn=root.key, nontrivial=True)


def is_key_param(clos, e):
    if e[0] == "carg" or (e[0] == "arg" and e[1] >= 2):
        return True
    # loop form: the item produced by Iterator::next
    x = strip_payload(e)
    return x[0] == "call" and x[1] is not None and x[1]["path"].endswith("::next")


def absence_edges(clos, lookup_bi):
    """(switch block, target when absent, target when present) for the test of the lookup result."""
    from .core import option_guards
    g = option_guards(clos, lambda x: x[0] == "call" and x[3] == lookup_bi)
    if not g:
        return None
    sb, t_some, t_none = g[0]
    return sb, t_none, t_some


def counter(ctx, facts, roles, u, clos, sb, absent_tgt, present_tgt, cfg):
    root = u.root
    # threshold comparison in the root
    cmp_site = None
    for bi in root.reachable():
        tt = root.blocks[bi]["term"]
        if tt["k"] != "SwitchInt" or tt.get("dty") != "bool":
            continue
        e = strip_refs(root.trace(tt["discr"]))
        if e[0] == "binop" and e[1] in ("Ge", "Le", "Gt", "Lt") and e[4] in ("u64", "usize", "i64"):
            cmp_site = (bi, e)
    ctx.check(cmp_site is not None, "K6.threshold-test", "missing_some compares the present count with the threshold (%s)" % cfg, "no integer comparison deciding the result", where=root.where(), fn=root.key, nontrivial=True)
    if cmp_site is None:
        return
    bi, e = cmp_site
    a, b = strip_payload(e[2]), strip_payload(e[3])

    def is_fold(x):
        return x[0] == "call" and x[1] and re.search(r"Iterator(>)?::(fold|try_fold)$", x[1]["path"]) is not None

    def is_threshold(x):
        return expr_mentions(x, lambda y: y[0] == "call" and y[1] and y[1]["path"] == "serde_json::Number::as_u64")

    op = e[1]
    if is_fold(b) and is_threshold(a):
        a, b = b, a
        op = {"Ge": "Le", "Le": "Ge", "Gt": "Lt", "Lt": "Gt"}[op]
    def is_counter_local(x):
        # loop form: a local defined only by the constant 0 and by itself + 1
        if x[0] != "phi":
            return False
        ok = True
        for d in x[2]:
            d = strip_refs(d)
            if d[0] == "const" and const_value(d[1]) == 0:
                continue
            if d[0] == "field" and d[1][0] in ("binop",) and d[1][1].startswith("Add"):
                continue
            if d[0] == "binop" and d[1].startswith("Add"):
                continue
            ok = False
        return ok

    ctx.check(is_fold(a) or is_counter_local(a), "K3.count-by-fold", "the present count is the result of folding over the keys (%s)" % cfg,
              "the value compared with the threshold is %s — not obtained by counting the lookups that succeeded" % show_expr(a)[:140], where=root.where(bi), fn=root.key, nontrivial=True)
    ctx.check(is_threshold(b), "K6.threshold-operand", "the threshold is operand 0 as an unsigned integer (%s)" % cfg, "compared against %s" % show_expr(b)[:100], where=root.where(bi), fn=root.key)
    ctx.check(op == "Ge", "K6.operator", "the test is present >= threshold (%s)" % cfg, "the test is present %s threshold" % op, where=root.where(bi), fn=root.key, nontrivial=True)
    # outcomes
    for truth, want in ((True, "empty"), (False, "missing list")):
        tg = bool_edge(root, bi, truth)
        other = bool_edge(root, bi, not truth)
        region = root.reachable(tg) - root.reachable(other)
        with root.restricted(region | {tg}):
            r = strip_refs(root.trace(0))
        kind = "?"
        if r[0] == "agg" and r[1].get("variant") == "Ok":
            v = strip_refs(r[2][0])
            if v[0] == "agg" and v[1].get("adt") == VALUE and v[1].get("variant") == "Array":
                inner = strip_refs(v[2][0])
                if inner[0] == "call" and inner[1] and re.search(r"Vec::<T>::new$", inner[1]["path"]):
                    kind = "empty"
                else:
                    kind = "missing list"
        ctx.check(kind == want, "K6.outcome", "present >= threshold is %s ⇒ %s (%s)" % (truth, want, cfg), "when present >= threshold is %s the result is the %s" % (truth, kind), where=root.where(bi), fn=root.key, nontrivial=True)
    # the fold closure: +1 only under the found edge
    incs = []
    for cb in clos.reachable():
        for si, st in enumerate(clos.blocks[cb]["stmts"]):
            if st["k"] == "Assign" and st["rv"]["k"] == "BinaryOp" and st["rv"]["op"] in ("Add", "AddWithOverflow", "AddUnchecked"):
                incs.append((cb, si, st))
    ctx.check(len(incs) >= 1, "K3.increment", "the per-key closure increments the count (%s)" % cfg, "no increment of the present count in the per-key closure", where=clos.where(), fn=clos.key, nontrivial=True)
    for cb, si, st in incs:
        one = strip_refs(clos.trace(st["rv"]["b"]))
        ctx.check(one[0] == "const" and const_value(one[1]) == 1, "K3.increment-by-one", "the count grows by one per present key (%s)" % cfg, "increment by %s" % show_expr(one), where=clos.where(cb, si), fn=clos.key)
        ctx.check(edge_dominates(clos, sb, present_tgt, cb), "K3.count-present-only", "the increment is dominated by the 'found' edge of the current key's lookup (%s)" % cfg,
                  "the present count is incremented on a path where the current key's lookup returned None (an absent key counted as present)", where=clos.where(cb, si), fn=clos.key, nontrivial=True,
                  sample={"increment_block": cb, "absence_switch": sb, "found_edge_target": present_tgt})
