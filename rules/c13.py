#!/usr/bin/env python3
"""C13 — map, filter and reduce: standard higher-order semantics and scoping.

  K1  collection handling, by kind of the *evaluated* collection (variant
      specialisation over Evaluated::{New,Raw} × the six JSON kinds, 12 cases per
      operator): Array → the per-element iteration runs over the array's
      elements; Null → it runs over an empty vector; every other kind → the
      iteration is unreachable and the function returns Err; identical in the
      three operators (sibling agreement);
  K2  evaluated once: the collection operand (and reduce's initial value) is
      parsed and evaluated exactly once, against the outer data, outside the
      per-element code; the expression operand is parsed once, outside it;
  K3  scoping (R-PROV S2): the data handed to the per-element evaluation never
      carries outer-data provenance; in map/filter it is the iteration element; in
      reduce it is a map built in place with exactly two insertions under the
      constant keys "current" and "accumulator";
  K4  shape: map's result is collect(map(iter)) of the per-element results — no
      filtering/reordering adaptor; filter pushes the iteration element itself,
      only under the truthy edge of the shared truthiness function; reduce is a
      left fold whose closure result is the next accumulator, seeded with the
      evaluated initial value; no element of the collection is ever parsed (C04).
Not decided: results on nested expressions (value-level).
"""
import re
from .core import (callee_of, callee_path, strip_refs, strip_payload, show_expr, const_value, expr_mentions, op_const, edge_dominates, bool_edge)
from .engine import Inconclusive
from .roles import Roles
from .opfacts import Unit
from . import prov as P
from . import table as T

VALUE = "serde_json::Value"
REORDER = re.compile(r"(Iterator::|Iterator>::)(rev|filter|filter_map|skip|take|step_by|skip_while|take_while|rfold|chain|zip|cycle|flat_map|flatten|dedup|peekable)$|::(sort\w*|reverse|dedup\w*|retain|truncate|swap_remove|remove|drain|split_off)$")


def find_collection_eval(roles, p, u, operand=0):
    """The evaluate call whose receiver is parsed from operand `operand` (tag RULE#n), outside per-element code."""
    out = []
    for s in u.calls_to(roles.parsed_evaluate):
        s2 = p.s2.get((s.body.key, s.bi))
        if s2 and s2.extra["receiver"] == {"RULE#%d" % operand}:
            out.append((s, s2))
    return out


def per_element_sites(roles, p, u, operand=1):
    out = []
    for s in u.calls_to(roles.parsed_evaluate):
        s2 = p.s2.get((s.body.key, s.bi))
        if s2 and "RULE#%d" % operand in s2.extra["receiver"] and u.per_element(s):
            out.append((s, s2))
    return out


def adaptor_of(u, site):
    """(block in root, term, closure body) of the iterator consumer in the root function that
    receives the closure containing `site`; for loop-form per-element code the block/terminator
    of the loop's `Iterator::next` call and the root body itself."""
    if site.body.key == u.root.key:
        from . import panic as PN
        root = u.root
        for (h, blocks, srcs) in PN.loops_of(root):
            if site.bi in blocks:
                for bi in sorted(blocks):
                    t = root.blocks[bi]["term"]
                    if t["k"] == "Call" and (callee_path(t) or "").endswith("::next"):
                        return bi, t, root
        return None
    cur = site.body
    while cur.kind == "closure" and cur.creator() and cur.creator()[0].key != u.root.key:
        cur = cur.creator()[0]
    if cur.kind != "closure":
        return None
    root = u.root
    for bi, t in root.calls():
        for a in t["args"]:
            e = strip_refs(root.trace(a))
            if e[0] == "agg" and e[1].get("closure") == cur.key:
                return bi, t, cur
    return None


def collection_matrix(ctx, roles, u, coll_site, adaptor_bi, name, cfg):
    """Outcome per (Evaluated variant, JSON kind) of the evaluated collection."""
    root = u.root
    facts = roles.facts
    ev_adt = roles.evaluated_adt
    # expression of the evaluated collection
    def is_coll(e):
        e = strip_payload(e)
        return e[0] == "call" and e[3] == coll_site.bi and e[1].get("key") == roles.parsed_evaluate

    res = {}
    for ev in facts.variants(ev_adt):
        for v in facts.variants(VALUE):
            def assume(e, adt, _ev=ev, _v=v):
                if adt == ev_adt and is_coll(e):
                    return _ev
                if adt == VALUE:
                    x = strip_refs(e)
                    if x[0] == "field" and x[1][0] == "downcast" and x[1][2] == _ev and is_coll(x[1][1]):
                        return _v
                return None
            restrict = P.specialise_unit(roles, root.key, assume)
            blocks = restrict[root.key]
            if adaptor_bi in blocks:
                with root.restricted(blocks):
                    recv = root.trace(root.blocks[adaptor_bi]["term"]["args"][0])
                from_payload = expr_mentions(recv, lambda x: x[0] == "downcast" and x[2] == "Array")
                empty = (expr_mentions(recv, lambda x: x[0] == "call" and x[1] and re.search(r"Vec::<T>::new$|Vec::<T>::with_capacity$|^std::iter::empty$|Default>::default$", x[1]["path"]) is not None)
                         or expr_mentions(recv, lambda x: x[0] == "agg" and x[1].get("agg") == "Array" and not x[2])) and not from_payload      # Vec::new(), vec![], &[], iter::empty()
                res[(ev, v)] = "ITER(elements)" if from_payload else ("ITER(empty)" if empty else "ITER(?)")
            else:
                with root.restricted(blocks):
                    r = strip_refs(root.trace(0))
                cands = r[2] if r[0] == "phi" else [r]
                errs = [x for x in cands if strip_refs(x)[0] == "agg" and strip_refs(x)[1].get("variant") == "Err"]
                res[(ev, v)] = "ERR" if errs and len(errs) == len([x for x in cands if not (strip_refs(x)[0] == "call" and "from_residual" in (strip_refs(x)[1] or {}).get("path", ""))]) else "OTHER(%s)" % show_expr(r)[:60]
    return res


def local_reach(roles, key):
    """Bodies reachable from `key` without going through the interpreter (parser / evaluators)."""
    cg, _ = roles.facts.callgraph()
    stop = set(roles.sinks) | set(roles.evaluators)
    seen = set()
    st = [key]
    while st:
        k = st.pop()
        if k in seen or k in stop:
            continue
        seen.add(k)
        st.extend(cg.get(k, ()))
    return seen


def is_element(body, e, clos, param):
    """Is expression e the iteration element (closure parameter, or the payload of the loop's next())?"""
    e = strip_refs(e)
    if e == ("carg", clos.key, param) or (clos.kind == "closure" and e == ("arg", param)):
        return True
    x = strip_payload(e)
    return x[0] == "call" and x[1] is not None and x[1]["path"].endswith("::next")


def empty_shortcuts(b, roles, cs, name, init_sites):
    """Edges (switch block, target) taken only when the evaluated collection is empty and under which
    the function returns exactly what iterating over nothing returns: an empty array (map, filter),
    the evaluated initial value (reduce).  Such an early return is not a bypass of the iteration."""
    out = set()

    def from_coll(e):
        return expr_mentions(e, lambda x: x[0] == "call" and x[1] and x[1].get("key") == roles.parsed_evaluate and x[3] == cs.bi)

    init_bis = {s.bi for s, _ in init_sites}
    for sb in sorted(b.reachable()):
        tt = b.blocks[sb]["term"]
        if tt["k"] != "SwitchInt" or tt.get("dty") != "bool":
            continue
        e = strip_refs(b.trace(tt["discr"]))
        truth, subj = None, None
        if e[0] == "call" and e[1] and e[1]["path"].endswith("::is_empty"):
            truth, subj = True, e[2][0]
        elif e[0] == "binop" and e[1] in ("Eq", "Ne"):
            x, y = strip_refs(e[2]), strip_refs(e[3])
            for pp, qq in ((x, y), (y, x)):
                if pp[0] == "call" and pp[1] and pp[1]["path"].endswith("::len") and qq[0] == "const" and const_value(qq[1]) == 0:
                    truth, subj = (e[1] == "Eq"), pp[2][0]
        if truth is None or not from_coll(subj):
            continue
        tg, other = bool_edge(b, sb, truth), bool_edge(b, sb, not truth)
        if tg == other:
            continue
        only = (b.reachable(tg) - b.reachable(other)) | {tg}
        ancestors = {n for n in b.reachable() if sb in b.reachable(n)} - only
        with b.restricted(only | ancestors):
            r = strip_refs(b.trace(0))
        if not (r[0] == "agg" and r[1].get("variant") == "Ok" and r[2]):
            continue
        v = strip_refs(r[2][0])
        if name in ("map", "filter"):
            good = v[0] == "agg" and v[1].get("variant") == "Array" and strip_refs(v[2][0])[0] == "call" and re.search(r"Vec::<T>::new$", strip_refs(v[2][0])[1]["path"]) is not None
        else:
            x = v
            while x[0] == "call" and x[1] and (x[1].get("key") == roles.conv.key or roles.conv.key in {y.get("key") for y in x[1].get("fwd") or []}):
                x = strip_payload(x[2][0])
            good = x[0] == "call" and x[1] and x[1].get("key") == roles.parsed_evaluate and x[3] in init_bis
        if good:
            out.add((sb, tg))
    return out


EXPECT = {"Array": "ITER(elements)", "Null": "ITER(empty)"}


def run(ctx):
    ctx.explanation = __doc__
    ctx.rule = "instances = 3 operators × (12 collection cases, evaluation sites with provenance, shape facts); non-trivial = variant specialisation, provenance, dominance"
    ctx.trusted = ["std adaptor models of rules/prov.py", "C06 for the truthiness table", "C04 for 'no element is parsed'"]
    from . import manifest as _MF
    _MF.same_library_clause(ctx, "K4.number-model")
    cfgs = ["default"] if ctx.tier == "quick" else ["default", "python", "wasm"]
    for cfg in cfgs:
        facts = ctx.facts(cfg)
        roles = Roles(facts)
        p = P.Prov(roles).run()
        from .c06 import truthy_role, forwarders
        truthy = truthy_role(roles)
        tkeys = {truthy.key} | forwarders(roles, truthy)
        matrices = {}
        for name in ("map", "filter", "reduce"):
            b, e = roles.fn_of(name)
            u = Unit(roles, b.key)
            ctx.check(e.table.role == "lazy", "K1.lazy", "%s is a lazy operator (%s)" % (name, cfg), "%s is in the %s table" % (name, e.table.role), where=b.where(), fn=b.key)
            colls = find_collection_eval(roles, p, u, 0)
            ctx.check(len(colls) == 1, "K2.collection-once", "%s evaluates its collection operand exactly once (%s)" % (name, cfg), "%d evaluations of operand 0" % len(colls), where=b.where(), fn=b.key, nontrivial=True)
            if len(colls) != 1:
                continue
            cs, cs2 = colls[0]
            ctx.check(cs.body.key == b.key and not u.per_element(cs) and cs2.tags == {"DATA"}, "K2.collection-outer", "%s evaluates the collection against the outer data, outside the iteration (%s)" % (name, cfg),
                      "collection evaluated with data %s (per-element: %s)" % (sorted(cs2.tags), u.per_element(cs)), where=cs.where(), fn=cs.body.key, nontrivial=True)
            pes = per_element_sites(roles, p, u, 1)
            ctx.check(len(pes) == 1, "K2.expression-site", "%s evaluates the expression at one per-element site (%s)" % (name, cfg), "%d per-element evaluation sites" % len(pes), where=b.where(), fn=b.key, nontrivial=True)
            if len(pes) != 1:
                continue
            ps, ps2 = pes[0]
            stray = [s for s in u.calls_to(roles.parsed_evaluate) if "RULE#1" in (p.s2.get((s.body.key, s.bi)).extra["receiver"] if p.s2.get((s.body.key, s.bi)) else ()) and not u.per_element(s)]
            ctx.check(not stray, "K2.expression-only-per-element", "%s evaluates the expression only inside the iteration (%s)" % (name, cfg),
                      "%s also evaluates the expression outside the iteration (%s): its value for one element (or for other data) stands in for others" % (name, ", ".join(x.where() for x in stray)), where=b.where(), fn=b.key, nontrivial=True)
            # parses: one per operand, outside the per-element code
            parses = [s for s in u.calls(lambda c: c.get("key") in roles.sinks)]
            n_ops = 3 if name == "reduce" else 2
            outside = [s for s in parses if not u.per_element(s)]
            ctx.check(len(parses) == n_ops and len(outside) == n_ops, "K2.parse-once", "%s parses each operand once, outside the iteration (%s)" % (name, cfg),
                      "%d parser calls (%d outside the per-element code); expected %d" % (len(parses), len(outside), n_ops), where=b.where(), fn=b.key, nontrivial=True)
            if name == "reduce":
                inits = find_collection_eval(roles, p, u, 2)
                ctx.check(len(inits) == 1 and inits[0][1].tags == {"DATA"} and not u.per_element(inits[0][0]), "K2.initial-once", "reduce evaluates the initial value once, against the outer data (%s)" % cfg,
                          "%d evaluations of operand 2" % len(inits), where=b.where(), fn=b.key, nontrivial=True)
            # ---- K3 scoping
            ctx.check("DATA" not in ps2.tags and ps2.tags, "K3.scope", "%s: per-element data carries no outer-data provenance (%s)" % (name, cfg),
                      "the expression is evaluated against data with provenance %s — outer data is visible inside %s" % (sorted(ps2.tags), name), where=ps.where(), fn=ps.body.key, nontrivial=True,
                      sample={"operator": name, "data_tags": sorted(ps2.tags)})
            ad = adaptor_of(u, ps)
            ctx.need(ad is not None, "%s: iterator consumer of the per-element closure not found" % name)
            abi, aterm, clos = ad
            apath = callee_path(aterm) or ""
            darg = strip_refs(ps.body.xtrace(ps.term["args"][1]))
            if name in ("map", "filter"):
                elem_param = 2 if name == "map" else 3
                good = is_element(ps.body, darg, clos, elem_param)
                ctx.check(good, "K3.element-is-data", "%s: the element itself is the data (%s)" % (name, cfg), "per-element data is %s" % show_expr(darg), where=ps.where(), fn=ps.body.key, nontrivial=True)
            else:
                inserts = [s for s in u.calls_path(r"^serde_json::Map::<.*>::insert$") if s.body.key == clos.key]
                keys = []
                vals = []
                for s in inserts:
                    k = strip_refs(s.body.trace(s.term["args"][1]))
                    kk = None
                    if k[0] == "call" and k[2]:
                        k0 = strip_refs(k[2][0])
                        kk = const_value(k0[1]) if k0[0] == "const" else None
                    keys.append(kk)
                    vals.append(strip_refs(s.body.xtrace(s.term["args"][2])))
                ctx.check(sorted(k or "?" for k in keys) == ["accumulator", "current"], "K3.reduce-context", "reduce's context has exactly the keys current and accumulator (%s)" % cfg,
                          "context keys inserted: %s" % keys, where=clos.where(), fn=clos.key, nontrivial=True, sample={"keys": keys})
                is_obj = darg[0] == "agg" and darg[1].get("adt") == VALUE and darg[1].get("variant") == "Object"
                fresh = is_obj and expr_mentions(darg, lambda x: x[0] == "call" and x[1] and re.search(r"Map::<.*>::(new|with_capacity)$", x[1]["path"]) is not None)
                ctx.check(bool(fresh), "K3.reduce-fresh", "reduce's context is a map built in place (%s)" % cfg, "reduce evaluates against %s" % show_expr(darg)[:160], where=ps.where(), fn=ps.body.key, nontrivial=True)
                if len(keys) == 2 and None not in keys:
                    kv = dict(zip(keys, vals))
                    cur_ok = is_element(clos, kv["current"], clos, 3)
                    acc_ok = strip_payload(kv["accumulator"]) == ("carg", clos.key, 2) or clos.kind != "closure"
                    ctx.check(cur_ok and acc_ok, "K3.reduce-binding", "current ← element, accumulator ← running value (%s)" % cfg,
                              "current ← %s, accumulator ← %s" % (show_expr(kv["current"]), show_expr(kv["accumulator"])), where=clos.where(), fn=clos.key, nontrivial=True)
            # ---- K1 matrix
            m = collection_matrix(ctx, roles, u, cs, abi, name, cfg)
            matrices[name] = m
            for (ev, v), got in sorted(m.items()):
                want = EXPECT.get(v, "ERR")
                ctx.check(got == want, "K1.collection", "%s: %s(%s) → %s (%s)" % (name, ev, v, want, cfg),
                          "%s treats a collection that evaluates to %s (%s) as %s; expected %s" % (name, v, ev, got, want), where=b.where(), fn=b.key, nontrivial=True,
                          sample={"operator": name, "evaluated": ev, "kind": v, "outcome": got} if v in ("Array", "Null", "String") and ev == "New" else None)
            # ---- K4 every successful result comes out of the iteration
            shortcuts = empty_shortcuts(b, roles, cs, name, find_collection_eval(roles, p, u, 2) if name == "reduce" else [])
            seen, st = set(), [0]
            while st:
                n = st.pop()
                if n in seen or n == abi:
                    continue
                seen.add(n)
                st.extend(x for x in b.succs(n) if (n, x) not in shortcuts)
            rets = [n for n in seen if b.blocks[n]["term"]["k"] == "Return"]
            bypass = []
            if rets:
                with b.restricted(seen):
                    r = strip_refs(b.trace(0))
                cands = [strip_refs(x) for x in r[2]] if r[0] == "phi" else [r]
                for c in cands:
                    is_err = (c[0] == "agg" and c[1].get("variant") == "Err") or (c[0] == "call" and c[1] and "from_residual" in c[1]["path"])
                    if not is_err:
                        bypass.append(show_expr(c)[:100])
            ctx.check(not bypass, "K4.result-through-iteration", "%s: every path that bypasses the iteration returns an error (%s)" % (name, cfg),
                      "%s can return %s without iterating over the collection" % (name, bypass), where=b.where(), fn=b.key, nontrivial=True)
            # ---- K4 shape
            bad_ad = [callee_path(s.term) for s in u.calls_path(REORDER.pattern)]
            ctx.check(not bad_ad, "K4.no-reorder", "%s uses no filtering/reordering/truncating adaptor (%s)" % (name, cfg), "%s applies %s to the collection or its results" % (name, bad_ad), where=b.where(), fn=b.key, nontrivial=True)
            loop_form = clos.kind != "closure"
            if loop_form:
                ctx.notes.append("%s: per-element code is a loop; adaptor-shape clauses (map-shape / fold) are not applicable and were skipped" % name)
            if name == "map" and not loop_form:
                ctx.check(apath.endswith("::map"), "K4.map-shape", "map: per-element closure is handed to Iterator::map (%s)" % cfg, "handed to %s" % apath, where=b.where(abi), fn=b.key)
                r = strip_refs(b.trace(0))
                cands = [strip_refs(x) for x in r[2]] if r[0] == "phi" else [r]
                good = any(c[0] == "call" and c[1] and c[1]["path"] == "std::result::Result::<T, E>::map" and strip_refs(c[2][0])[0] == "call" and strip_refs(c[2][0])[1]["path"].endswith("::collect") for c in cands)
                ctx.check(good, "K4.map-result", "map returns Value::Array(collect(per-element results)) (%s)" % cfg, "map's result is %s" % show_expr(r)[:200], where=b.where(), fn=b.key, nontrivial=True)
            if name == "filter":
                pushes = [s for s in u.calls_path(r"^std::vec::Vec::<T, A>::push$") if s.body.key == clos.key]
                ctx.check(len(pushes) == 1, "K4.filter-push", "filter has one push per element (%s)" % cfg, "%d pushes in the per-element closure" % len(pushes), where=clos.where(), fn=clos.key)
                for s in pushes:
                    val = strip_refs(s.body.xtrace(s.term["args"][1]))
                    ctx.check(is_element(s.body, val, clos, 3), "K4.filter-element", "filter pushes the element itself (%s)" % cfg, "filter pushes %s" % show_expr(val), where=s.where(), fn=clos.key, nontrivial=True)
                    # under the truthy edge
                    ok = False
                    for sb in clos.reachable():
                        tt = clos.blocks[sb]["term"]
                        if tt["k"] != "SwitchInt":
                            continue
                        e = strip_refs(clos.trace(tt["discr"]))
                        if e[0] == "call" and e[1] and e[1].get("key") in tkeys:
                            arg = strip_payload(clos.trace(clos.blocks[e[3]]["term"]["args"][0]))
                            from_pred = arg[0] == "call" and arg[3] == ps.bi
                            if edge_dominates(clos, sb, bool_edge(clos, sb, True), s.bi) and from_pred:
                                ok = True
                    ctx.check(ok, "K4.filter-truthy", "the push is under the truthy edge of the shared truthiness of the predicate's value (%s)" % cfg,
                              "the push is not guarded by truthy(predicate value) == true", where=s.where(), fn=clos.key, nontrivial=True)
            if name == "reduce" and not loop_form:
                ctx.check(re.search(r"Iterator(>)?::(fold|try_fold)$", apath) is not None, "K4.reduce-fold", "reduce is a left fold (%s)" % cfg, "per-element closure handed to %s" % apath, where=b.where(abi), fn=b.key, nontrivial=True)
                init = strip_refs(b.trace(aterm["args"][1]))
                seeded = expr_mentions(init, lambda x: x[0] == "call" and x[1] and x[1].get("key") == roles.parsed_evaluate)
                ctx.check(seeded, "K4.reduce-seed", "the fold is seeded with the evaluated initial value (%s)" % cfg, "fold seed is %s" % show_expr(init)[:120], where=b.where(abi), fn=b.key, nontrivial=True)
                r = strip_refs(clos.trace(0))
                cands = [strip_refs(x) for x in r[2]] if r[0] == "phi" else [r]
                nxt = any(expr_mentions(c, lambda x: x[0] == "call" and x[1] and x[1].get("key") == roles.parsed_evaluate) for c in cands)
                ctx.check(nxt, "K4.reduce-next", "the closure's result (the evaluated expression) is the next accumulator (%s)" % cfg, "closure returns %s" % show_expr(r)[:120], where=clos.where(), fn=clos.key)
        # ---- K4: elements are data — no parse of a computed value anywhere below the three operators
        _, s1res = P.analyse(roles)
        for name in ("map", "filter", "reduce"):
            b, e = roles.fn_of(name)
            reach = local_reach(roles, b.key)
            dirty = [sk for sk, verdict, how in s1res if verdict == "dirty" and sk.body.key in reach]
            for sk in dirty:
                ctx.fail("K4.elements-inert", "%s|%s" % (name, sk.ident()), "%s hands a computed value (provenance %s) to the parser: elements of the collection would be executed as rules instead of being passed on unchanged" % (name, sorted(sk.tags)), where=sk.body.where(sk.bi), fn=sk.body.key)
            if not dirty:
                ctx.ok("K4.elements-inert", "%s: nothing below it parses a computed value (%s)" % (name, cfg), nontrivial=True)
        if len(matrices) == 3:
            same = matrices["map"] == matrices["filter"] == matrices["reduce"]
            ctx.check(same, "K1.siblings", "map/filter/reduce treat the collection identically (%s)" % cfg, "the three collection matrices differ", where="", nontrivial=True)
