#!/usr/bin/env python3
"""C13 — map, filter and reduce: standard higher-order semantics and scoping.

  K1  collection handling, by kind of the *evaluated* collection (Evaluated::{New,Raw} × the six JSON kinds, 12 cases
      per operator), read on the PATH SUMMARIES of the operator's function with the kind fixed (`known` hook of
      rules/pathsum.py, on the Evaluated value or on its conversion to a plain Value): Array → the paths that reach the
      iteration iterate over the Array payload; Null → over a vector built empty; every other kind → no path reaches the
      iteration and every path returns Err; identical in the three operators (sibling agreement).  Nothing depends on
      how the match is spelled; a decision hidden in a private helper is read on the helper-inlined view (inline-safe);
      a receiver the reader cannot classify is UNDECIDED, an iteration reachable for an error kind is a violation;
  K2  evaluated once: the collection operand (and reduce's initial value) is parsed and evaluated exactly once,
      against the outer data, outside the per-element code; the expression operand is parsed once, outside it
      (provenance of the evaluation sites of the operator's extended unit: function, closures, helper functions);
  K3  scoping (R-PROV S2): the data handed to the per-element evaluation never carries outer-data provenance; in
      map/filter it is the iteration element; in reduce it is a map built in place with exactly two insertions under
      the constant keys "current" and "accumulator";
  K4  shape: map's result is collect(map(iter)) of the per-element results — no filtering/reordering adaptor; filter
      is read on the PER-ELEMENT OUTCOME TABLE (path summaries of one element's processing — closure handed to
      fold / try_fold / filter_map / filter / for_each, or one iteration of a loop): every path KEEPs (push, Some(..),
      true), DROPs, or ends in an ERROR; a KEEP path adds exactly one value, the element itself, and lies under
      truthy(value of the expression) == true of the shared truthiness function, a DROP path under == false (read
      from call-site atoms or from Option/Result combinator chains in case normal form); reduce is a left fold whose
      closure result on every non-error path is the evaluated expression, seeded with the evaluated initial value;
      no element of the collection is ever parsed (C04).
  Per-element clauses are not read through a helper function that holds the per-element evaluation: they are
  UNDECIDED on the program as written and decided on the view with the helper inlined at its call site.
Not decided: results on nested expressions (value-level).
"""
import re
from .core import (callee_of, callee_path, strip_refs, strip_payload, show_expr, const_value, expr_mentions, op_const, edge_dominates, bool_edge)
from .engine import Inconclusive
from .roles import Roles
from .opfacts import Unit
from . import prov as P
from . import table as T
from . import pathsum, optnorm

VALUE = "serde_json::Value"
REORDER = re.compile(r"(Iterator::|Iterator>::)(rev|filter|filter_map|skip|take|step_by|skip_while|take_while|rfold|chain|zip|cycle|flat_map|flatten|dedup|peekable)$|::(sort\w*|reverse|dedup\w*|retain|truncate|swap_remove|remove|drain|split_off)$")


def find_collection_eval(roles, p, u, operand=0):
    """The evaluate call whose receiver is parsed from operand `operand` (tag RULE#n), outside per-element code."""
    out = []
    for s in u.calls_to(roles.parsed_evaluate):
        s2 = p.s2.get((s.body.key, s.bi))
        if s2 and s2.extra["receiver"] == {"RULE#%d" % operand}:
            out.append((s, s2))
    return out


def per_element_sites(roles, p, u, operand=1):
    out = []
    for s in u.calls_to(roles.parsed_evaluate):
        s2 = p.s2.get((s.body.key, s.bi))
        if s2 and "RULE#%d" % operand in s2.extra["receiver"] and u.per_element(s):
            out.append((s, s2))
    return out


def adaptor_of(u, site):
    """(block in root, term, closure body) of the iterator consumer in the root function that
    receives the closure containing `site`; for loop-form per-element code the block/terminator
    of the loop's `Iterator::next` call and the root body itself."""
    if site.body.key == u.root.key:
        from . import panic as PN
        root = u.root
        for (h, blocks, srcs) in PN.loops_of(root):
            if site.bi in blocks:
                for bi in sorted(blocks):
                    t = root.blocks[bi]["term"]
                    if t["k"] == "Call" and (callee_path(t) or "").endswith("::next"):
                        return bi, t, root
        return None
    cur = site.body
    while cur.kind == "closure" and cur.creator() and cur.creator()[0].key != u.root.key:
        cur = cur.creator()[0]
    if cur.kind != "closure":
        return None
    root = u.root
    for bi, t in root.calls():
        for a in t["args"]:
            e = strip_refs(root.trace(a))
            if e[0] == "agg" and e[1].get("closure") == cur.key:
                return bi, t, cur
    return None


EMPTY_SRC = re.compile(r"Vec::<T>::new$|Vec::<T>::with_capacity$|^std::iter::empty$|Default>::default$")


def _is_err_result(r):
    r = strip_refs(r) if r is not None else None
    return r is not None and ((r[0] == "agg" and r[1].get("variant") == "Err") or (r[0] == "call" and r[1] is not None and "from_residual" in r[1].get("path", "")))


def collection_matrix2(roles, u, coll_site, adaptor_bi):
    """K1 on path summaries.  For every (Evaluated variant, JSON kind) of the evaluated collection: the set of
    outcomes of the paths of the operator's function on which the collection was evaluated successfully, with the
    kind fixed (`known` hook of the path walker — the match may be spelled as nested patterns, guards, if-let chains,
    on the Evaluated value or on its conversion to a plain Value):
        ITER(elements) the path reaches the iteration and iterates over the Array payload of the collection
        ITER(empty)    … over a vector built empty          ITER(?)  … over something the reader cannot classify
        ERR            the path returns an error without reaching the iteration
        OK(..)         the path returns successfully without reaching the iteration       ?  not readable (loop)
    Returns {(ev, kind): (set of outcomes, opaque)}; opaque = a reaching/deciding path is conditioned on the result
    of a local function applied to the collection (a helper whose decision the walker cannot see)."""
    root = u.root
    facts = roles.facts
    ev_adt = roles.evaluated_adt

    def is_coll(e):
        e = strip_payload(e)
        return e[0] == "call" and e[3] == coll_site.bi and e[1] is not None and e[1].get("key") == roles.parsed_evaluate

    def is_conv(x):
        return x[0] == "call" and x[1] and x[2] and (x[1].get("key") == roles.conv.key or roles.conv.key in {y.get("key") for y in x[1].get("fwd") or []})

    def mentions_coll(e):
        return expr_mentions(e, lambda x: x[0] == "call" and x[1] is not None and x[1].get("key") == roles.parsed_evaluate and x[3] == coll_site.bi)

    res = {}
    for ev in facts.variants(ev_adt):
        for v in facts.variants(VALUE):
            def assume(e, adt, _ev=ev, _v=v):
                if adt == ev_adt and is_coll(e):
                    return _ev
                if adt == VALUE:
                    x = strip_refs(e)
                    if x[0] == "field" and x[1][0] == "downcast" and x[1][2] == _ev and is_coll(x[1][1]):
                        return _v
                    if is_conv(x) and is_coll(x[2][0]):       # Value::from(evaluated collection) is the same JSON value
                        return _v
                return None
            w = pathsum.summarize(root, known=assume, max_paths=4000)
            outs, opaque = set(), False
            if w.overflow or not w.paths:
                res[(ev, v)] = ({"?"}, False)
                continue
            for p in w.paths:
                if coll_site.bi not in p.blocks:
                    continue
                failed = False
                for key, val in p.order:
                    if key[0] == "variant" and val in ("Err", "Break"):
                        x = w.exprs.get(key)
                        if x is not None and strip_refs(x)[0] == "call" and is_coll(x):
                            failed = True
                if failed:
                    continue
                # a decision taken by a local function on the collection value
                for key, val in p.order:
                    x = w.exprs.get(key)
                    if key[0] == "site":
                        evs = [e for e in p.events if e[3] == key[1]]
                        if evs and any(mentions_coll(a) for a in evs[0][2]):
                            opaque = True
                    elif x is not None and expr_mentions(x, lambda y: y[0] == "call" and y[1] is not None and y[1].get("local") and y[1].get("key") != roles.parsed_evaluate and any(mentions_coll(a) for a in y[2])):
                        opaque = True
                if adaptor_bi in p.blocks:
                    evs = [e for e in p.events if e[3] == adaptor_bi]
                    recv = evs[0][2][0] if evs and evs[0][2] else None
                    if recv is None:
                        outs.add("ITER(?)")
                        continue
                    from_payload = expr_mentions(recv, lambda x: x[0] == "downcast" and x[2] == "Array" and mentions_coll(x[1]))
                    empty = (expr_mentions(recv, lambda x: x[0] == "call" and x[1] and EMPTY_SRC.search(x[1]["path"]) is not None)
                             or expr_mentions(recv, lambda x: x[0] == "agg" and x[1].get("agg") == "Array" and not x[2])) and not from_payload and not mentions_coll(recv)
                    outs.add("ITER(elements)" if from_payload else ("ITER(empty)" if empty else "ITER(?)"))
                elif p.truncated:
                    outs.add("?")
                elif _is_err_result(p.result):
                    outs.add("ERR")
                else:
                    outs.add("OK(%s)" % show_expr(p.result)[:60] if p.result is not None else "?")
            res[(ev, v)] = (outs, opaque)
    return res


def local_reach(roles, key):
    """Bodies reachable from `key` without going through the interpreter (parser / evaluators)."""
    cg, _ = roles.facts.callgraph()
    stop = set(roles.sinks) | set(roles.evaluators)
    seen = set()
    st = [key]
    while st:
        k = st.pop()
        if k in seen or k in stop:
            continue
        seen.add(k)
        st.extend(cg.get(k, ()))
    return seen


def is_element(body, e, clos, param):
    """Is expression e the iteration element (closure parameter, or the payload of the loop's next())?"""
    e = strip_refs(e)
    if e == ("carg", clos.key, param) or (clos.kind == "closure" and e == ("arg", param)):
        return True
    x = strip_payload(e)
    return x[0] == "call" and x[1] is not None and x[1]["path"].endswith("::next")


def empty_shortcuts(b, roles, cs, name, init_sites):
    """Edges (switch block, target) taken only when the evaluated collection is empty and under which
    the function returns exactly what iterating over nothing returns: an empty array (map, filter),
    the evaluated initial value (reduce).  Such an early return is not a bypass of the iteration."""
    out = set()

    def from_coll(e):
        return expr_mentions(e, lambda x: x[0] == "call" and x[1] and x[1].get("key") == roles.parsed_evaluate and x[3] == cs.bi)

    init_bis = {s.bi for s, _ in init_sites}
    for sb in sorted(b.reachable()):
        tt = b.blocks[sb]["term"]
        if tt["k"] != "SwitchInt" or tt.get("dty") != "bool":
            continue
        e = strip_refs(b.trace(tt["discr"]))
        truth, subj = None, None
        if e[0] == "call" and e[1] and e[1]["path"].endswith("::is_empty"):
            truth, subj = True, e[2][0]
        elif e[0] == "binop" and e[1] in ("Eq", "Ne"):
            x, y = strip_refs(e[2]), strip_refs(e[3])
            for pp, qq in ((x, y), (y, x)):
                if pp[0] == "call" and pp[1] and pp[1]["path"].endswith("::len") and qq[0] == "const" and const_value(qq[1]) == 0:
                    truth, subj = (e[1] == "Eq"), pp[2][0]
        if truth is None or not from_coll(subj):
            continue
        tg, other = bool_edge(b, sb, truth), bool_edge(b, sb, not truth)
        if tg == other:
            continue
        only = (b.reachable(tg) - b.reachable(other)) | {tg}
        ancestors = {n for n in b.reachable() if sb in b.reachable(n)} - only
        with b.restricted(only | ancestors):
            r = strip_refs(b.trace(0))
        if not (r[0] == "agg" and r[1].get("variant") == "Ok" and r[2]):
            continue
        v = strip_refs(r[2][0])
        if name in ("map", "filter"):
            good = v[0] == "agg" and v[1].get("variant") == "Array" and strip_refs(v[2][0])[0] == "call" and re.search(r"Vec::<T>::new$", strip_refs(v[2][0])[1]["path"]) is not None
        else:
            x = v
            while x[0] == "call" and x[1] and (x[1].get("key") == roles.conv.key or roles.conv.key in {y.get("key") for y in x[1].get("fwd") or []}):
                x = strip_payload(x[2][0])
            good = x[0] == "call" and x[1] and x[1].get("key") == roles.parsed_evaluate and x[3] in init_bis
        if good:
            out.add((sb, tg))
    return out


class _Walker(pathsum.Walker):
    """Path walker that also remembers the expression of its boolean atoms (the shared walker records it for variant
    atoms only)."""

    def classify(self, e, t):
        out = pathsum.Walker.classify(self, e, t)
        x = strip_refs(e)
        while x[0] == "unop" and x[1] == "Not":
            x = strip_refs(x[2])
        if x[0] == "cast" and strip_refs(x[2])[0] in ("binop", "call", "const"):
            x = strip_refs(x[2])
        for (tg, key, val) in out:
            if key is not None and key[0] in ("expr", "pure", "site") and key not in self.exprs:
                self.exprs[key] = x
        return out


class PerElement:
    """The per-element code of an operator, however it is spelled: a closure handed to an iterator adaptor, or the
    body of a loop over the collection.  `paths()` are the path summaries of ONE element's processing:
    closure → every path of the closure; loop → every path from the loop header to the back edge (truncated) or out."""

    def __init__(self, u, abi, aterm, code):
        self.u, self.abi, self.aterm, self.code = u, abi, aterm, code
        self.loop = code.kind != "closure"
        apath = callee_path(aterm) or ""
        self.adaptor = "loop" if self.loop else apath.rsplit("::", 1)[-1]
        self.apath = apath
        # closure parameters: (accumulator, element) for the folds, (element) for the others
        self.acc_param, self.elem_param = (2, 3) if self.adaptor in ("fold", "try_fold", "rfold", "try_rfold") else (None, 2)
        self.header = None
        if self.loop:
            from . import panic as PN
            for (h, blocks, srcs) in PN.loops_of(code):
                if abi in blocks and (self.header is None or len(blocks) < self._n):
                    self.header, self._n = h, len(blocks)
        self._w = None

    def walker(self):
        if self._w is None:
            self._w = _Walker(self.code, start=(self.header if self.loop else 0), max_paths=1500)
        return self._w

    def readable(self):
        w = self.walker()
        if w.overflow or not w.paths:
            return False
        if not self.loop and any(p.truncated for p in w.paths):
            return False          # a loop inside the per-element closure
        return True

    def is_elem(self, e):
        e = strip_refs(e)
        if not self.loop:
            return e == ("arg", self.elem_param) or e == ("carg", self.code.key, self.elem_param)
        x = strip_payload(e)
        return x[0] == "call" and x[1] is not None and x[1]["path"].endswith("::next") and x[3] == self.abi

    def is_acc(self, e):
        e = strip_payload(e)
        return self.acc_param is not None and (e == ("arg", self.acc_param) or e == ("carg", self.code.key, self.acc_param))

    def exhausted(self, w, p):
        """loop form: the path on which the iterator says there is no further element"""
        if not self.loop:
            return False
        for key, val in p.order:
            if key[0] == "variant" and val == "None":
                x = strip_refs(w.exprs.get(key) or ("?",))
                if x[0] == "call" and x[1] is not None and x[1]["path"].endswith("::next") and x[3] == self.abi:
                    return True
        return False


def _err_like(r):
    """Is the per-element result an error outcome: Err(..), `?`'s residual, Some(Err(..)), Break(..)"""
    if r is None:
        return False
    x = strip_refs(r)
    if _is_err_result(x):
        return True
    if x[0] == "agg" and x[1].get("variant") in ("Some", "Break", "Continue") and x[2]:
        return x[1].get("variant") == "Break" or _err_like(x[2][0])
    return False


def truth_facts(facts, w, p, tkeys, is_pred):
    """What the path knows about the truthiness of the predicate's value: ([(polarity)], unknown atoms).
    A fact is an atom `truthy(v) = b` where truthy is the shared truthiness function (or a forwarder of it) and v is
    the value of the per-element evaluation of the expression — read from a call-site atom, or from the payload of an
    Option/Result combinator chain brought to case normal form (`evaluate(..).map(|v| truthy(&v))` then `Ok(true)`)."""
    known, unknown = [], []

    def truthy_call(x):
        x = strip_refs(x)
        return x[0] == "call" and x[1] is not None and x[1].get("key") in tkeys and x[2] and is_pred(x[2][0])

    for key, val in p.order:
        if key[0] == "variant":
            continue              # Ok/Err, Some/None of the evaluation, of the accumulator, of the iterator: not a keep/drop decision by itself
        if key[0] == "site":
            evs = [e for e in p.events if e[3] == key[1]]
            if evs and truthy_call(("call", evs[0][1], evs[0][2], evs[0][3])):
                known.append(bool(val))
            else:
                unknown.append(key)
            continue
        x = w.exprs.get(key)
        done = False
        if x is not None:
            x = strip_refs(x)
            if truthy_call(x):
                known.append(bool(val)); done = True
            elif x[0] == "field" and x[2] == 0 and isinstance(x[1], tuple) and x[1][0] == "downcast" and x[1][2] in ("Ok", "Some", "Continue"):
                cs_ = optnorm.cases_expr(facts, x[1][1])
                vals = []
                for conds, v in cs_ or []:
                    v = strip_refs(v)
                    if v[0] == "agg" and v[1].get("variant") in ("Ok", "Some", "Continue") and v[2]:
                        vals.append(strip_refs(v[2][0]))
                neg = False
                if vals and all(v[0] == "unop" and v[1] == "Not" for v in vals):      # `.map(|v| !truthy(&v))`
                    neg, vals = True, [strip_refs(v[2]) for v in vals]
                if vals and all(truthy_call(v) for v in vals):
                    known.append(bool(val) != neg); done = True
        if not done:
            unknown.append(key)
    return known, unknown


def filter_outcomes(facts, pe):
    """[(outcome, kept values, path)] per path of one element's processing:
       KEEP  the element (a value) is added to the result — pushed onto the accumulated vector (fold / loop / for_each),
             returned as Some(..) (filter_map), returned as true (filter)
       DROP  the path goes on to the next element without adding anything
       ERROR the path ends the operator with an error          END  loop form: no further element
       UNREAD anything else"""
    w = pe.walker()
    out = []
    for p in w.paths:
        if pe.exhausted(w, p):
            out.append(("END", [], p))
            continue
        pushes = [e for e in p.events if e[1] is not None and re.search(r"^std::vec::Vec::<T, A>::push$|VecDeque::<T, A>::push_back$", e[1]["path"])]
        kept = [strip_refs(e[2][1]) for e in pushes if len(e[2]) > 1]
        r = strip_refs(p.result) if p.result is not None else None
        if pe.loop:
            if p.truncated:
                out.append(("KEEP" if kept else "DROP", kept, p))
            elif _is_err_result(r):
                out.append(("ERROR", [], p))
            else:
                out.append(("UNREAD", [], p))
            continue
        if _err_like(r):
            out.append(("ERROR", [], p))
        elif pe.adaptor == "filter_map":
            if r is not None and r[0] == "agg" and r[1].get("variant") == "None":
                out.append(("DROP", [], p))
            elif r is not None and r[0] == "agg" and r[1].get("variant") == "Some" and r[2]:
                x = strip_refs(r[2][0])
                if x[0] == "agg" and x[1].get("variant") == "Ok" and x[2]:
                    x = strip_refs(x[2][0])
                out.append(("KEEP", [x] + kept, p))
            else:
                out.append(("UNREAD", [], p))
        elif pe.adaptor == "filter":
            v = const_value(r[1]) if (r is not None and r[0] == "const") else None
            if isinstance(v, bool):
                out.append(("KEEP" if v else "DROP", ([("arg", pe.elem_param)] if v else []) + kept, p))
            else:
                out.append(("UNREAD", [], p))
        elif pe.adaptor in ("fold", "try_fold", "for_each", "try_for_each"):
            out.append(("KEEP" if kept else "DROP", kept, p))
        else:
            out.append(("UNREAD", [], p))
    return w, out


EXPECT = {"Array": "ITER(elements)", "Null": "ITER(empty)"}
INLINE_SAFE = [r"^K1\.(collection|siblings)$"]


def per_element_code(u, site):
    """(block in root, terminator, code body, helper chain) of the iteration that runs `site` once per element.
    When the site sits in a helper function that is called once per element, the iteration is looked up from the
    helper's call site and the chain names the helpers passed through."""
    chain = []
    cur = site
    for _ in range(4):
        ad = adaptor_of(u, cur)
        if ad is not None:
            return ad + (chain,)
        owner = cur.body
        while owner.kind == "closure" and owner.creator():
            owner = owner.creator()[0]
        if owner.key == u.root.key or owner.kind != "fn":
            return None
        callers = [s for s in u.calls(lambda c, _k=owner.key: c.get("key") == _k) if u.per_element(s)]
        if len(callers) != 1:
            return None
        chain.append(owner.key)
        cur = callers[0]
    return None


def run(ctx):
    ctx.explanation = __doc__
    ctx.rule = "instances = 3 operators × (12 collection cases on path summaries, evaluation sites with provenance, per-element outcome tables, shape facts); non-trivial = kind-specialised path summaries, provenance, dominance"
    ctx.trusted = ["std adaptor models of rules/prov.py", "C06 for the truthiness table", "C04 for 'no element is parsed'"]
    from . import manifest as _MF
    _MF.same_library_clause(ctx, "K4.number-model")
    cfgs = ["default"] if ctx.tier == "quick" else ["default", "python", "wasm"]
    for cfg in cfgs:
        facts = ctx.facts(cfg)
        roles = Roles(facts)
        p = P.Prov(roles).run()
        from .c06 import truthy_role, forwarders
        truthy = truthy_role(roles)
        tkeys = {truthy.key} | forwarders(roles, truthy)
        # the lazy operation evaluator (src/op/mod.rs) through which map / filter / reduce are run hands (data, operands)
        # to the operator once and returns its result as a new value, with no exit of its own: what the operators
        # return is a function of their operands alone
        from .c04 import operator_receives_operand_list
        operator_receives_operand_list(ctx, facts, roles, roles.fn_of("map")[1].table, cfg, "K5")
        matrices = {}
        for name in ("map", "filter", "reduce"):
            b, e = roles.fn_of(name)
            # the operator's code = its function, its closures and the helper functions it reaches without going
            # through the interpreter: an evaluation moved into a helper is still an evaluation of the operator
            u = Unit(roles, b.key, extended=True)
            u0 = Unit(roles, b.key)
            ctx.check(e.table.role == "lazy", "K1.lazy", "%s is a lazy operator (%s)" % (name, cfg), "%s is in the %s table" % (name, e.table.role), where=b.where(), fn=b.key)
            colls = find_collection_eval(roles, p, u, 0)
            ctx.check(len(colls) == 1, "K2.collection-once", "%s evaluates its collection operand exactly once (%s)" % (name, cfg), "%d evaluations of operand 0" % len(colls), where=b.where(), fn=b.key, nontrivial=True)
            if len(colls) != 1:
                continue
            cs, cs2 = colls[0]
            ctx.check(not u.per_element(cs) and cs2.tags == {"DATA"}, "K2.collection-outer", "%s evaluates the collection against the outer data, outside the iteration (%s)" % (name, cfg),
                      "collection evaluated with data %s (per-element: %s)" % (sorted(cs2.tags), u.per_element(cs)), where=cs.where(), fn=cs.body.key, nontrivial=True)
            pes = per_element_sites(roles, p, u, 1)
            ctx.check(len(pes) == 1, "K2.expression-site", "%s evaluates the expression at one per-element site (%s)" % (name, cfg), "%d per-element evaluation sites" % len(pes), where=b.where(), fn=b.key, nontrivial=True)
            if len(pes) != 1:
                continue
            ps, ps2 = pes[0]
            stray = [s for s in u.calls_to(roles.parsed_evaluate) if "RULE#1" in (p.s2.get((s.body.key, s.bi)).extra["receiver"] if p.s2.get((s.body.key, s.bi)) else ()) and not u.per_element(s)]
            ctx.check(not stray, "K2.expression-only-per-element", "%s evaluates the expression only inside the iteration (%s)" % (name, cfg),
                      "%s also evaluates the expression outside the iteration (%s): its value for one element (or for other data) stands in for others" % (name, ", ".join(x.where() for x in stray)), where=b.where(), fn=b.key, nontrivial=True)
            # parses: one per operand, outside the per-element code
            parses = [s for s in u.calls(lambda c: c.get("key") in roles.sinks)]
            n_ops = 3 if name == "reduce" else 2
            outside = [s for s in parses if not u.per_element(s)]
            ctx.check(len(parses) == n_ops and len(outside) == n_ops, "K2.parse-once", "%s parses each operand once, outside the iteration (%s)" % (name, cfg),
                      "%d parser calls (%d outside the per-element code); expected %d" % (len(parses), len(outside), n_ops), where=b.where(), fn=b.key, nontrivial=True)
            if name == "reduce":
                inits = find_collection_eval(roles, p, u, 2)
                ctx.check(len(inits) == 1 and inits[0][1].tags == {"DATA"} and not u.per_element(inits[0][0]), "K2.initial-once", "reduce evaluates the initial value once, against the outer data (%s)" % cfg,
                          "%d evaluations of operand 2" % len(inits), where=b.where(), fn=b.key, nontrivial=True)
            # ---- K3 scoping (provenance: holds wherever the evaluation sits)
            ctx.check("DATA" not in ps2.tags and ps2.tags, "K3.scope", "%s: per-element data carries no outer-data provenance (%s)" % (name, cfg),
                      "the expression is evaluated against data with provenance %s — outer data is visible inside %s" % (sorted(ps2.tags), name), where=ps.where(), fn=ps.body.key, nontrivial=True,
                      sample={"operator": name, "data_tags": sorted(ps2.tags)})
            ad = per_element_code(u, ps)
            ctx.need(ad is not None, "%s: iterator consumer of the per-element closure not found" % name)
            abi, aterm, clos, chain = ad
            pe = PerElement(u, abi, aterm, clos)
            apath = pe.apath
            loop_form = pe.loop
            # Clauses about what one element's processing does are read on the per-element code.  When the evaluation
            # sits in a helper function called from it, the code as written is not read (the helper-inlined views are).
            in_helper = bool(chain)

            def unread_shape(clause, key):
                ctx.unread(clause, key, "%s's per-element evaluation sits in the helper function %s; the clause is read on the view of the program with the helper at its call site" % (name, ", ".join(chain)), where=ps.where(), fn=clos.key)

            darg = strip_refs(ps.body.xtrace(ps.term["args"][1]))
            if name in ("map", "filter"):
                k_ = "%s: the element itself is the data (%s)" % (name, cfg)
                if in_helper:
                    unread_shape("K3.element-is-data", k_)
                else:
                    ctx.check(pe.is_elem(darg), "K3.element-is-data", k_, "per-element data is %s" % show_expr(darg), where=ps.where(), fn=ps.body.key, nontrivial=True)
            elif in_helper:
                for cl, k_ in (("K3.reduce-context", "reduce's context has exactly the keys current and accumulator (%s)" % cfg), ("K3.reduce-fresh", "reduce's context is a map built in place (%s)" % cfg), ("K3.reduce-binding", "current ← element, accumulator ← running value (%s)" % cfg)):
                    unread_shape(cl, k_)
            else:
                inserts = [s for s in u.calls_path(r"^serde_json::Map::<.*>::insert$") if s.body.key == clos.key]
                keys = []
                vals = []
                for s in inserts:
                    k = strip_refs(s.body.trace(s.term["args"][1]))
                    kk = None
                    if k[0] == "call" and k[2]:
                        k0 = strip_refs(k[2][0])
                        kk = const_value(k0[1]) if k0[0] == "const" else None
                    keys.append(kk)
                    vals.append(strip_refs(s.body.xtrace(s.term["args"][2])))
                ctx.check(sorted(k or "?" for k in keys) == ["accumulator", "current"], "K3.reduce-context", "reduce's context has exactly the keys current and accumulator (%s)" % cfg,
                          "context keys inserted: %s" % keys, where=clos.where(), fn=clos.key, nontrivial=True, sample={"keys": keys})
                is_obj = darg[0] == "agg" and darg[1].get("adt") == VALUE and darg[1].get("variant") == "Object"
                fresh = is_obj and expr_mentions(darg, lambda x: x[0] == "call" and x[1] and re.search(r"Map::<.*>::(new|with_capacity)$", x[1]["path"]) is not None)
                ctx.check(bool(fresh), "K3.reduce-fresh", "reduce's context is a map built in place (%s)" % cfg, "reduce evaluates against %s" % show_expr(darg)[:160], where=ps.where(), fn=ps.body.key, nontrivial=True)
                if len(keys) == 2 and None not in keys:
                    kv = dict(zip(keys, vals))
                    cur_ok = is_element(clos, kv["current"], clos, pe.elem_param)
                    acc_ok = strip_payload(kv["accumulator"]) == ("carg", clos.key, pe.acc_param) or clos.kind != "closure"
                    ctx.check(cur_ok and acc_ok, "K3.reduce-binding", "current ← element, accumulator ← running value (%s)" % cfg,
                              "current ← %s, accumulator ← %s" % (show_expr(kv["current"]), show_expr(kv["accumulator"])), where=clos.where(), fn=clos.key, nontrivial=True)
            # ---- K1 matrix: the outcomes of the function's paths with the kind of the evaluated collection fixed
            if cs.body.key != b.key:
                ctx.unread("K1.collection", "%s: collection matrix (%s)" % (name, cfg), "%s evaluates its collection inside the helper function %s; the matrix is read on the view of the program with the helper at its call site" % (name, cs.body.key), where=cs.where(), fn=b.key)
            else:
                m = collection_matrix2(roles, u, cs, abi)
                matrices[name] = {}
                for (ev, v), (outs, opaque) in sorted(m.items()):
                    want = EXPECT.get(v, "ERR")
                    key = "%s: %s(%s) → %s (%s)" % (name, ev, v, want, cfg)
                    allowed = {want, "ERR"}
                    # a successful return that bypasses the iteration (e.g. an early return on an empty array) is judged by
                    # K4.result-through-iteration; here it is wrong only for a kind that must be an error
                    wrong = sorted(o for o in outs if (o not in allowed and o not in ("?", "ITER(?)") and not (o.startswith("OK(") and want != "ERR")) or (o == "ITER(?)" and want == "ERR"))
                    got = "+".join(sorted(o for o in outs if o != "ERR" and not (o.startswith("OK(") and want != "ERR"))) or ("ERR" if outs else "unreachable")
                    matrices[name][(ev, v)] = got
                    if wrong:
                        ctx.fail("K1.collection", key, "%s treats a collection that evaluates to %s (%s) as %s; expected %s%s" % (name, v, ev, got, want, " — the outcome is decided by a function applied to the collection, not by its kind alone" if opaque else ""), where=b.where(), fn=b.key)
                    elif "?" in outs or "ITER(?)" in outs or want not in outs:
                        ctx.unread("K1.collection", key, "%s: outcome for a collection that evaluates to %s (%s) read as %s — not a form the reader can classify" % (name, v, ev, got), where=b.where(), fn=b.key)
                    else:
                        ctx.ok("K1.collection", key, nontrivial=True, sample={"operator": name, "evaluated": ev, "kind": v, "outcome": got} if v in ("Array", "Null", "String") and ev == "New" else None)
            # ---- K4 every successful result comes out of the iteration
            shortcuts = empty_shortcuts(b, roles, cs, name, find_collection_eval(roles, p, u, 2) if name == "reduce" else [])
            seen, st = set(), [0]
            while st:
                n = st.pop()
                if n in seen or n == abi:
                    continue
                seen.add(n)
                st.extend(x for x in b.succs(n) if (n, x) not in shortcuts)
            rets = [n for n in seen if b.blocks[n]["term"]["k"] == "Return"]
            bypass = []
            if rets:
                with b.restricted(seen):
                    r = strip_refs(b.trace(0))
                cands = [strip_refs(x) for x in r[2]] if r[0] == "phi" else [r]
                for c in cands:
                    is_err = (c[0] == "agg" and c[1].get("variant") == "Err") or (c[0] == "call" and c[1] and "from_residual" in c[1]["path"])
                    if not is_err:
                        bypass.append(show_expr(c)[:100])
            ctx.check(not bypass, "K4.result-through-iteration", "%s: every path that bypasses the iteration returns an error (%s)" % (name, cfg),
                      "%s can return %s without iterating over the collection" % (name, bypass), where=b.where(), fn=b.key, nontrivial=True)
            # ---- K4 shape: no adaptor filters / reorders / truncates the elements — other than the consumer of the
            # per-element code itself, whose keep/drop decisions are read path by path below (filter only)
            own = (b.key, abi) if (name == "filter" and pe.adaptor in ("filter", "filter_map")) else None
            scan = list(u0.calls_path(REORDER.pattern)) + [s for s in u.calls_path(REORDER.pattern) if s.body.key in chain]
            bad_ad = [callee_path(s.term) for s in scan if (s.body.key, s.bi) != own]
            ctx.check(not bad_ad, "K4.no-reorder", "%s uses no filtering/reordering/truncating adaptor (%s)" % (name, cfg), "%s applies %s to the collection or its results" % (name, bad_ad), where=b.where(), fn=b.key, nontrivial=True)
            if loop_form:
                ctx.notes.append("%s: per-element code is a loop; adaptor-shape clauses (map-shape / fold) are not applicable and were skipped" % name)
            if name == "map" and not loop_form:
                ctx.check(apath.endswith("::map"), "K4.map-shape", "map: per-element closure is handed to Iterator::map (%s)" % cfg, "handed to %s" % apath, where=b.where(abi), fn=b.key)
                r = strip_refs(b.trace(0))
                cands = [strip_refs(x) for x in r[2]] if r[0] == "phi" else [r]
                good = any(c[0] == "call" and c[1] and c[1]["path"] == "std::result::Result::<T, E>::map" and strip_refs(c[2][0])[0] == "call" and strip_refs(c[2][0])[1]["path"].endswith("::collect") for c in cands)
                ctx.check(good, "K4.map-result", "map returns Value::Array(collect(per-element results)) (%s)" % cfg, "map's result is %s" % show_expr(r)[:200], where=b.where(), fn=b.key, nontrivial=True)
            if name == "filter":
                filter_shape(ctx, facts, roles, pe, ps, tkeys, cfg, in_helper, unread_shape)
            if name == "reduce" and not loop_form:
                ctx.check(re.search(r"Iterator(>)?::(fold|try_fold)$", apath) is not None, "K4.reduce-fold", "reduce is a left fold (%s)" % cfg, "per-element closure handed to %s" % apath, where=b.where(abi), fn=b.key, nontrivial=True)
                init = strip_refs(b.trace(aterm["args"][1]))
                seeded = expr_mentions(init, lambda x: x[0] == "call" and x[1] and x[1].get("key") == roles.parsed_evaluate)
                ctx.check(seeded, "K4.reduce-seed", "the fold is seeded with the evaluated initial value (%s)" % cfg, "fold seed is %s" % show_expr(init)[:120], where=b.where(abi), fn=b.key, nontrivial=True)
                reduce_next(ctx, roles, pe, ps, cfg, in_helper, unread_shape)
        # ---- K4: elements are data — no parse of a computed value anywhere below the three operators
        _, s1res = P.analyse(roles)
        for name in ("map", "filter", "reduce"):
            b, e = roles.fn_of(name)
            reach = local_reach(roles, b.key)
            dirty = [sk for sk, verdict, how in s1res if verdict == "dirty" and sk.body.key in reach]
            for sk in dirty:
                ctx.fail("K4.elements-inert", "%s|%s" % (name, sk.ident()), "%s hands a computed value (provenance %s) to the parser: elements of the collection would be executed as rules instead of being passed on unchanged" % (name, sorted(sk.tags)), where=sk.body.where(sk.bi), fn=sk.body.key)
            if not dirty:
                ctx.ok("K4.elements-inert", "%s: nothing below it parses a computed value (%s)" % (name, cfg), nontrivial=True)
        if len(matrices) == 3:
            same = matrices["map"] == matrices["filter"] == matrices["reduce"]
            ctx.check(same, "K1.siblings", "map/filter/reduce treat the collection identically (%s)" % cfg, "the three collection matrices differ", where="", nontrivial=True)


def reduce_next(ctx, roles, pe, ps, cfg, in_helper, unread_shape):
    """K4.reduce-next on the path summaries of the per-element closure: on every path that does not end in an error
    the closure's result — the next accumulator — is the value of the per-element evaluation of the expression."""
    clos = pe.code
    key = "the closure's result (the evaluated expression) is the next accumulator (%s)" % cfg
    if in_helper:
        return unread_shape("K4.reduce-next", key)
    if not pe.readable():
        return ctx.unread("K4.reduce-next", key, "the per-element closure has loops or too many paths", where=clos.where(), fn=clos.key)

    def from_eval(x):
        return expr_mentions(x, lambda y: y[0] == "call" and y[1] is not None and y[1].get("key") == roles.parsed_evaluate and y[3] == ps.bi)

    w = pe.walker()
    bad, opaque, good = [], [], 0
    for p_ in w.paths:
        r = p_.result
        if r is None or (_is_err_result(r) and not from_eval(r)):
            continue
        if from_eval(r):
            good += 1
        elif expr_mentions(r, lambda y: y[0] == "call" and y[1] is not None and y[1].get("local") and y[1].get("key") != roles.parsed_evaluate):
            opaque.append(show_expr(r)[:120])
        else:
            bad.append(show_expr(r)[:120])
    if bad:
        ctx.fail("K4.reduce-next", key, "closure returns %s — not the value of the expression for this element" % bad, where=clos.where(), fn=clos.key)
    elif opaque or not good:
        ctx.unread("K4.reduce-next", key, "closure returns %s: produced by a local function the reader does not look into" % (opaque or "nothing readable"), where=clos.where(), fn=clos.key)
    else:
        ctx.ok("K4.reduce-next", key)


def filter_shape(ctx, facts, roles, pe, ps, tkeys, cfg, in_helper, unread_shape):
    """K4 for filter on the per-element outcome table (path summaries of one element's processing): the paths that
    KEEP add exactly one value, that value is the element itself, and they are exactly the paths on which the shared
    truthiness function says true of the expression's value; the paths that DROP are those on which it says false."""
    clos = pe.code
    k_push = "filter keeps the element at most once per element, on some path (%s)" % cfg
    k_elem = "filter keeps the element itself (%s)" % cfg
    k_truth = "an element is kept exactly under truthy(predicate's value) of the shared truthiness (%s)" % cfg
    if in_helper:
        for cl, k in (("K4.filter-push", k_push), ("K4.filter-element", k_elem), ("K4.filter-truthy", k_truth)):
            unread_shape(cl, k)
        return
    if not pe.readable():
        for cl, k in (("K4.filter-push", k_push), ("K4.filter-element", k_elem), ("K4.filter-truthy", k_truth)):
            ctx.unread(cl, k, "filter's per-element code has inner loops or too many paths", where=clos.where(), fn=clos.key)
        return
    w, outs = filter_outcomes(facts, pe)
    keeps = [o for o in outs if o[0] == "KEEP"]
    drops = [o for o in outs if o[0] == "DROP"]
    unread = [o for o in outs if o[0] == "UNREAD"]
    where = clos.where()
    # one value per KEEP path
    multi = [len(o[1]) for o in keeps if len(o[1]) != 1]
    if multi:
        ctx.fail("K4.filter-push", k_push, "a path of filter's per-element code adds %s values to the result" % multi, where=where, fn=clos.key)
    elif not keeps and not unread:
        ctx.fail("K4.filter-push", k_push, "no path of filter's per-element code (%s) adds the element to the result" % pe.adaptor, where=where, fn=clos.key)
    elif not keeps or unread:
        ctx.unread("K4.filter-push", k_push, "filter's per-element code (%s) has %d path(s) whose effect on the result the reader cannot classify" % (pe.adaptor, len(unread)), where=where, fn=clos.key)
    else:
        ctx.ok("K4.filter-push", k_push, nontrivial=True, sample={"form": pe.adaptor, "paths": {k: len([o for o in outs if o[0] == k]) for k in ("KEEP", "DROP", "ERROR", "END")}})
    # the value kept
    notelem = [show_expr(v)[:80] for o in keeps for v in o[1] if not pe.is_elem(v)]
    if notelem:
        ctx.fail("K4.filter-element", k_elem, "filter keeps %s instead of the element" % notelem, where=where, fn=clos.key)
    elif keeps:
        ctx.ok("K4.filter-element", k_elem, nontrivial=True)

    # kept exactly when truthy
    def is_pred(x):
        x = strip_payload(x)
        while True:
            if x[0] == "payload":
                x = strip_payload(x[2])
            elif x[0] == "call" and x[1] is not None and x[2] and (x[1].get("key") == roles.conv.key or roles.conv.key in {y.get("key") for y in x[1].get("fwd") or []}):
                x = strip_payload(x[2][0])
            else:
                break
        return x[0] == "call" and x[1] is not None and x[1].get("key") == roles.parsed_evaluate and x[3] == ps.bi and ps.body.key == clos.key

    wrong, undecided = [], []
    for kind, want in (("KEEP", True), ("DROP", False)):
        for o in (keeps if want else drops):
            known, unknown = truth_facts(facts, w, o[2], tkeys, is_pred)
            if known and all(k == want for k in known):
                continue
            if known:
                wrong.append("%s under truthy(predicate) == %s" % ("keeps the element" if want else "drops the element", str(known[0]).lower()))
            elif unknown:
                undecided.append("%s under %s" % (kind, ", ".join(str(k[0]) for k in unknown)))
            else:
                wrong.append("%s on a path that does not consult truthy(predicate's value)" % ("keeps the element" if want else "drops the element"))
    if wrong:
        ctx.fail("K4.filter-truthy", k_truth, "filter %s" % "; ".join(sorted(set(wrong))), where=where, fn=clos.key)
    elif undecided or not keeps:
        ctx.unread("K4.filter-truthy", k_truth, "the keep/drop decision is taken on conditions the reader cannot relate to the truthiness of the predicate: %s" % "; ".join(sorted(set(undecided)) or ["no keeping path read"]), where=where, fn=clos.key)
    else:
        ctx.ok("K4.filter-truthy", k_truth, nontrivial=True)
