#!/usr/bin/env python3
"""C14 — all / some / none are bounded quantifiers with short-circuit; none = not some.

  K1  none is the exact negation of some: the function bound to `none` calls the
      function bound to `some` once, with its own (data, operands) in order, and
      maps Bool(b) to Bool(not b) — no other path to a boolean;
  K2  collection normalisation, decided by variant specialisation over
      (kind of the literal operand) × (kind it evaluates to, when it is an object,
      i.e. an operation): Array → iterate its elements; String → iterate its
      characters (str::chars — never bytes, UTF-16 units or byte offsets); Null →
      iterate nothing; Bool/Number/(literal) Object → Err; only an Object operand
      is evaluated first; identical in `all` and `some`;
  K3  empty is false: a length-zero test on the normalised collection dominates
      the iteration and returns the constant false — in both functions;
  K4  in order, short-circuit: the collection is walked front to back with no
      reversing / skipping / truncating adaptor; every site that evaluates the predicate per element either
      sits under a short-circuiting std consumer or in a closure with a success
      path that evaluates nothing; the fold is seeded with true (all) / false
      (some) and the 'decided' path returns false (all) / true (some);
  K5  who is rule text: elements are parsed only when they are elements of the
      literal array operand (C04's S1 analysis, discharged by case split);
  K6  the predicate's verdict is taken through the shared truthiness (C06).
Not decided: duality laws as value statements beyond these shapes.
"""
import re
from .core import (callee_of, callee_path, strip_refs, strip_payload, show_expr, const_value, expr_mentions, op_const, edge_dominates, bool_edge)
from .engine import Inconclusive
from .roles import Roles
from .opfacts import Unit, path_avoiding, const_under_edge
from . import prov as P
from .c13 import find_collection_eval, per_element_sites, adaptor_of, local_reach

VALUE = "serde_json::Value"
SHORT_CIRCUIT = re.compile(r"(Iterator::|Iterator>::)(any|all|find|position|try_fold|try_for_each|find_map|rposition)$")
BAD_SPLIT = re.compile(r"^core::str::<impl str>::(bytes|as_bytes|encode_utf16|char_indices|split\w*|lines|matches|into_bytes)$|^std::string::String::(as_bytes|into_bytes)$")
INDEX_PATH = "<std::vec::Vec<T, A> as std::ops::Index<I>>::index"


def ext_reach(facts, body, blocks, exclude=()):
    """External callee paths reachable from the calls in `blocks` of `body` (through local helpers)."""
    out = set()
    roots = []
    for bi in blocks:
        t = body.blocks[bi]["term"]
        if t["k"] == "Call" and callee_of(t):
            c = callee_of(t)
            if c["local"]:
                if c["key"] not in exclude:
                    roots.append(c["key"])
            else:
                out.add(c["path"])
        for s in body.blocks[bi]["stmts"]:
            if s["k"] == "Assign" and s["rv"]["k"] == "Aggregate" and s["rv"].get("closure"):
                roots.append(s["rv"]["closure"])
    cg, ext = facts.callgraph()
    for k in facts.reach(roots):
        out |= ext.get(k, set())
    return out


def matrix(roles, u, coll_sites, adaptor_bi, pred_sites=()):
    root = u.root
    facts = roles.facts
    raw_elems = {}

    def is_operand0(e):
        e = strip_refs(e)
        if e[0] == "call" and e[1] and e[1]["path"] == INDEX_PATH:
            i = strip_refs(e[2][1])
            return i[0] == "const" and const_value(i[1]) == 0
        return False

    coll_bis = {s.bi for s, _ in coll_sites}

    def is_coll_call(x):
        return x[0] == "call" and x[1] and x[1].get("key") == roles.parsed_evaluate and x[3] in coll_bis

    def mentions_coll(e):
        return expr_mentions(e, is_coll_call)

    def unfaithful(e, out):
        """Calls between expression e and the collection's evaluation other than the faithful
        Evaluated → Value conversion, `?`, clone and deref: the value they return need not have the
        kind the collection evaluated to."""
        if not isinstance(e, tuple) or is_coll_call(e):
            return
        if e[0] == "call" and e[1]:
            inner = [a for a in e[2] if mentions_coll(a)]
            if inner:
                c = e[1]
                fwd = {x.get("key") for x in c.get("fwd") or []}
                ok = c.get("key") == roles.conv.key or roles.conv.key in fwd or re.search(r"as std::ops::Try>::branch$|as std::clone::Clone>::clone$|as std::ops::Deref>::deref$|as std::borrow::Borrow<.*>>::borrow$|as std::convert::AsRef<.*>>::as_ref$", c["path"]) is not None
                if not ok:
                    out.add(c["path"])
                for a in inner:
                    unfaithful(a, out)
            return
        for x in e[1:]:
            if isinstance(x, tuple):
                unfaithful(x, out)
            elif isinstance(x, list):
                for y in x:
                    if isinstance(y, tuple):
                        unfaithful(y, out)

    lossy = set()

    res = {}
    kinds = facts.variants(VALUE)
    cases = [(o, None) for o in kinds if o != "Object"] + [("Object", v) for v in kinds]
    for (o, v) in cases:
        eff = o if o != "Object" else v

        def assume(e, adt, _o=o, _eff=eff):
            if adt != VALUE:
                return None
            if is_operand0(e):
                return _o
            if e[0] in ("phi",) and (mentions_coll(e) or any(is_operand0(x) for x in e[2])):
                return _eff
            if mentions_coll(e) and e[0] != "phi":
                bad = set()
                unfaithful(e, bad)
                if bad:
                    lossy.update(bad)
                    return None
                return _eff
            return None

        restrict = P.specialise_unit(roles, root.key, assume)
        blocks = restrict[root.key]
        evaluated = any(s.bi in blocks for s, _ in coll_sites)
        if o in ("Array", "Object") and eff in ("Array", "String"):
            # can an element reach the predicate's evaluation without being parsed and evaluated first?
            for ps in pred_sites:
                pb = ps.body
                within = restrict.get(pb.key, set())
                if ps.bi not in within:
                    continue
                start = 0
                if pb.key == root.key:
                    # loop-form per-element code: one iteration starts at the loop's next()
                    ad = adaptor_of(u, ps)
                    if ad is None:
                        continue
                    start = ad[0]
                seen, st = set(), [start]
                while st:
                    n = st.pop()
                    if n in seen or n not in within:
                        continue
                    seen.add(n)
                    t = pb.blocks[n]["term"]
                    c = callee_of(t) if t["k"] == "Call" else None
                    if c is not None and c.get("key") in roles.sinks and n != start:
                        continue
                    st.extend(pb.succs(n))
                raw_elems[(o, v)] = raw_elems.get((o, v), False) or (ps.bi in seen)
        if adaptor_bi in blocks:
            with root.restricted(blocks):
                recv = root.trace(root.blocks[adaptor_bi]["term"]["args"][0])
            ext = ext_reach(facts, root, blocks - root.reachable(adaptor_bi), exclude=set(roles.sinks) | set(roles.evaluators))
            if expr_mentions(recv, lambda x: x[0] == "downcast" and x[2] == "Array"):
                kind = "ITER(elements)"
            elif expr_mentions(recv, lambda x: x[0] == "downcast" and x[2] == "String") or any("str" in p and p.endswith("::chars") for p in ext):
                bad = sorted(p for p in ext if BAD_SPLIT.search(p))
                has_chars = "core::str::<impl str>::chars" in ext
                kind = "ITER(chars)" if has_chars and not bad else "ITER(string split by %s)" % (bad or "?")
            elif expr_mentions(recv, lambda x: x[0] == "call" and x[1] and re.search(r"Vec::<T>::(new|with_capacity)$", x[1]["path"]) is not None):
                kind = "ITER(empty)"
            else:
                # a helper may build the items: classify by what it reaches
                bad = sorted(p for p in ext if BAD_SPLIT.search(p))
                kind = "ITER(string split by %s)" % bad if bad else "ITER(?)"
        else:
            with root.restricted(blocks):
                r = strip_refs(root.trace(0))
            cands = [strip_refs(x) for x in r[2]] if r[0] == "phi" else [r]
            non_res = [x for x in cands if not (x[0] == "call" and "from_residual" in (x[1] or {}).get("path", ""))]
            if non_res and all(x[0] == "agg" and x[1].get("variant") == "Err" for x in non_res):
                kind = "ERR"
            else:
                kind = "OTHER(%s)" % show_expr(r)[:60]
        res[(o, v)] = (kind, evaluated)
    return res, lossy, raw_elems


def expected(o, v):
    eff = o if o != "Object" else v
    return {"Array": "ITER(elements)", "String": "ITER(chars)", "Null": "ITER(empty)"}.get(eff, "ERR")


def run(ctx):
    ctx.explanation = __doc__
    ctx.rule = "instances = negation facts, 11 collection cases × 2 operators, emptiness/short-circuit path facts, provenance sinks; non-trivial = specialisation, dominance, path existence"
    ctx.trusted = ["std adaptor models", "C06 (truthiness table)", "str::chars iterates Unicode scalar values"]
    from . import manifest as _MF
    _MF.same_library_clause(ctx, "K6.number-model")
    cfgs = ["default"] if ctx.tier == "quick" else ["default", "python", "wasm"]
    for cfg in cfgs:
        facts = ctx.facts(cfg)
        roles = Roles(facts)
        p = P.Prov(roles).run()
        from .c06 import truthy_role, forwarders
        truthy = truthy_role(roles)
        tkeys = {truthy.key} | forwarders(roles, truthy)
        some_b, some_e = roles.fn_of("some")
        all_b, all_e = roles.fn_of("all")
        none_b, none_e = roles.fn_of("none")
        # ---------------- K1
        u_none = Unit(roles, none_b.key)
        calls = u_none.calls_to(some_b.key)
        ctx.check(len(calls) == 1 and calls[0].body.key == none_b.key, "K1.calls-some", "none calls some exactly once (%s)" % cfg, "%d calls of the function bound to `some`" % len(calls), where=none_b.where(), fn=none_b.key, nontrivial=True)
        if len(calls) == 1:
            s = calls[0]
            base = 0
            args = [strip_refs(none_b.trace(a)) for a in s.term["args"]]
            ctx.check(args == [("arg", 1), ("arg", 2)], "K1.same-operands", "none passes its own (data, operands) in order (%s)" % cfg, "some is called with %s" % [show_expr(a) for a in args], where=s.where(), fn=none_b.key, nontrivial=True)
            other = [callee_path(x.term) for x in u_none.calls(lambda c: c["local"] and c.get("key") != some_b.key)]
            ctx.check(not other, "K1.nothing-else", "none computes nothing itself (%s)" % cfg, "none also calls %s" % other, where=none_b.where(), fn=none_b.key)
            # Bool(b) → Bool(!b)
            found = False
            for b in u_none.bodies:
                for bi, si, st in b.stmts():
                    if st["k"] == "Assign" and st["rv"]["k"] == "Aggregate" and st["rv"].get("adt") == VALUE and st["rv"].get("variant") == "Bool":
                        e = strip_refs(b.xtrace(st["rv"]["ops"][0]))
                        if e[0] == "unop" and e[1] == "Not":
                            inner = strip_refs(e[2])
                            if inner[0] == "field" and inner[1][0] == "downcast" and inner[1][2] == "Bool":
                                found = True
                        else:
                            found = found and False
                            ctx.fail("K1.negation", "none|Bool(%s)" % show_expr(e)[:40], "none builds a boolean that is not the negation of some's boolean: %s" % show_expr(e), where=b.where(bi, si), fn=b.key)
            ctx.check(found, "K1.negation", "none returns Bool(not b) for some's Bool(b) (%s)" % cfg, "no Bool(!b) construction found in none", where=none_b.where(), fn=none_b.key, nontrivial=True)
        ctx.check(some_e.num == none_e.num == all_e.num, "K1.arity", "all/some/none share the arity (%s)" % cfg, "arities differ", where=none_b.where())

        # ---------------- per operator
        mats = {}
        _, s1res = P.analyse(roles)
        for name, b, seed_want, decided_want in (("all", all_b, True, False), ("some", some_b, False, True)):
            u = Unit(roles, b.key)
            colls = find_collection_eval(roles, p, u, 0)
            ctx.check(len(colls) == 1 and not u.per_element(colls[0][0]) and colls[0][1].tags == {"DATA"}, "K2.collection-eval", "%s evaluates an operation operand once, against the outer data (%s)" % (name, cfg),
                      "%d evaluations of operand 0 outside the iteration" % len(colls), where=b.where(), fn=b.key, nontrivial=True)
            from .c13 import REORDER
            bad_ad = [callee_path(s.term) for s in u.calls_path(REORDER.pattern)]
            ctx.check(not bad_ad, "K4.in-order", "%s walks the collection front to back, every element (no reversing / skipping / truncating adaptor) (%s)" % (name, cfg),
                      "%s applies %s to the collection: the first deciding element is no longer the first in order" % (name, bad_ad), where=b.where(), fn=b.key, nontrivial=True)
            pes = per_element_sites(roles, p, u, 1)
            ctx.check(len(pes) >= 1, "K4.predicate-site", "%s evaluates the predicate per element (%s)" % (name, cfg), "no per-element predicate evaluation", where=b.where(), fn=b.key)
            if not pes or not colls:
                continue
            # what each per-element evaluation is evaluated against
            for sx in u.calls_to(roles.parsed_evaluate):
                s2 = p.s2.get((sx.body.key, sx.bi))
                if not s2 or not u.per_element(sx):
                    continue
                recv = s2.extra["receiver"]
                if "RULE#1" in recv:
                    ctx.check("DATA" not in s2.tags and s2.tags, "K5.predicate-sees-element", "%s: the predicate is evaluated against the element, not the outer data (%s)" % (name, cfg),
                              "%s evaluates the predicate against a value with provenance %s" % (name, sorted(s2.tags)), where=sx.where(), fn=sx.body.key, nontrivial=True)
                elif "RULE#0" in recv:
                    ctx.check(set(s2.tags) == {"DATA"}, "K5.elements-against-outer-data", "%s: an element written as an expression is evaluated against the outer data (%s)" % (name, cfg),
                              "%s evaluates a literal element against a value with provenance %s instead of the outer data" % (name, sorted(s2.tags)), where=sx.where(), fn=sx.body.key, nontrivial=True)
            # the fold (first per-element site in a non-short-circuit consumer defines the adaptor for the matrix)
            adaptors = []
            for ps, ps2 in pes:
                ad = adaptor_of(u, ps)
                ctx.need(ad is not None, "%s: consumer of a per-element closure not found" % name)
                abi, aterm, clos = ad
                apath = callee_path(aterm) or ""
                adaptors.append((ps, abi, aterm, clos, apath))
                if SHORT_CIRCUIT.search(apath):
                    ctx.ok("K4.short-circuit", "%s: predicate under short-circuiting %s (%s)" % (name, apath.rsplit("::", 1)[-1], cfg), nontrivial=True)
                else:
                    is_blocked = lambda t: (callee_of(t) is not None and (callee_of(t).get("key") in roles.evaluators or callee_of(t).get("key") in roles.sinks)) or "from_residual" in (callee_path(t) or "")
                    inner = ps.body
                    skip = path_avoiding(inner, is_blocked)
                    ctx.check(skip, "K4.short-circuit", "%s: predicate site %s is skippable once decided (%s)" % (name, ps.where(), cfg),
                              "%s evaluates the predicate for every element (consumer %s, no path that skips the evaluation): an error or a log after the deciding element still happens" % (name, apath.rsplit("::", 2)[-1]),
                              where=ps.where(), fn=ps.body.key, nontrivial=True)
                    if skip and re.search(r"Iterator(>)?::fold$", apath):
                        seed = strip_refs(b.trace(aterm["args"][1]))
                        sv = None
                        if seed[0] == "agg" and seed[1].get("variant") == "Ok":
                            x = strip_refs(seed[2][0])
                            sv = const_value(x[1]) if x[0] == "const" else None
                        ctx.check(sv is seed_want, "K4.seed", "%s: fold seeded with %s (%s)" % (name, seed_want, cfg), "fold seed is %s" % show_expr(seed), where=b.where(abi), fn=b.key, nontrivial=True)
                        # the decided path returns the constant
                        dec = None
                        for sb in inner.reachable():
                            tt = inner.blocks[sb]["term"]
                            if tt["k"] == "SwitchInt" and tt.get("dty") == "bool":
                                for truth in (True, False):
                                    tg = bool_edge(inner, sb, truth)
                                    region = inner.reachable(tg) - inner.reachable(bool_edge(inner, sb, not truth))
                                    if region and not any(inner.blocks[x]["term"]["k"] == "Call" and is_blocked(inner.blocks[x]["term"]) for x in region):
                                        c = const_under_edge(inner, sb, truth)
                                        if isinstance(c, bool):
                                            dec = c
                        ctx.check(dec is decided_want, "K4.decided-constant", "%s: the decided path returns %s (%s)" % (name, decided_want, cfg), "the decided path returns %s" % dec, where=inner.where(), fn=inner.key, nontrivial=True)
                # verdict through truthy
                tcalls = [s for s in Unit(roles, ps.body.key).calls(lambda c: c.get("key") in tkeys)] or [s for s in u.calls(lambda c: c.get("key") in tkeys) if s.body.key.startswith(clos.key)]
                ctx.check(bool(tcalls), "K6.truthy", "%s: verdict at %s through the shared truthiness (%s)" % (name, ps.where(), cfg), "the predicate's value is not passed to the shared truthiness function", where=ps.where(), fn=ps.body.key)
            main = [a for a in adaptors if not SHORT_CIRCUIT.search(a[4])] or adaptors
            abi = main[0][1]
            # ---------------- K3 empty is false
            empt = None
            for sb in b.reachable():
                tt = b.blocks[sb]["term"]
                if tt["k"] != "SwitchInt" or tt.get("dty") != "bool":
                    continue
                e = strip_refs(b.trace(tt["discr"]))
                is_len0 = False
                truth_when_empty = True
                if e[0] == "binop" and e[1] in ("Eq", "Ne"):
                    x, y = strip_refs(e[2]), strip_refs(e[3])
                    for pp, qq in ((x, y), (y, x)):
                        if pp[0] == "call" and pp[1] and pp[1]["path"].endswith("::len") and qq[0] == "const" and const_value(qq[1]) == 0:
                            is_len0 = True
                            truth_when_empty = e[1] == "Eq"
                elif e[0] == "call" and e[1] and e[1]["path"].endswith("::is_empty"):
                    is_len0 = True
                if is_len0:
                    tg = bool_edge(b, sb, truth_when_empty)
                    ne = bool_edge(b, sb, not truth_when_empty)
                    c = const_under_edge(b, sb, truth_when_empty)
                    if edge_dominates(b, sb, ne, abi):
                        empt = (sb, c)
            ctx.check(empt is not None and empt[1] is False, "K3.empty-false", "%s: an empty collection returns false before the iteration (%s)" % (name, cfg),
                      "no dominating emptiness test returning the constant false (found %s)" % (empt,), where=b.where(), fn=b.key, nontrivial=True, sample={"operator": name, "test_block": empt[0] if empt else None})
            # ---------------- K2 matrix
            m, lossy, raw_elems = matrix(roles, u, colls, abi, [ps for ps, _ in pes])
            mats[name] = m
            ctx.floor("%s: cases in which elements reach the predicate (%s)" % (name, cfg), len(raw_elems), 3)
            for (o, v), raw in sorted(raw_elems.items(), key=lambda kv: (kv[0][0], kv[0][1] or "")):
                label = "%s%s" % (o, ("→" + v) if v else "")
                want_raw = o != "Array"
                ctx.check(raw == want_raw, "K5.literal-elements-evaluated", "%s: elements of %s reach the predicate %s (%s)" % (name, label, "as they are" if want_raw else "only after being evaluated against the outer data", cfg),
                          ("%s: an element of the literal array can reach the predicate without having been parsed and evaluated" % name) if not want_raw else ("%s: an element of a computed collection cannot reach the predicate as it is" % name),
                          where=b.where(), fn=b.key, nontrivial=True)
            ctx.check(roles.conv_faithful, "K2.conversion-faithful", "%s: the conversion of an evaluated value hands on the value itself (%s)" % (name, cfg),
                      "the crate's Evaluated → Value conversion does not return the payload unchanged for every variant: what the collection evaluated to is not what is normalised", where=roles.conv.where(), fn=roles.conv.key, nontrivial=True)
            ctx.check(not lossy, "K2.collection-unchanged", "%s: the evaluated collection reaches the kind test through the faithful conversion only (%s)" % (name, cfg),
                      "%s passes the evaluated collection through %s before looking at its kind: what it evaluated to is no longer what is normalised" % (name, sorted(lossy)), where=b.where(), fn=b.key, nontrivial=True)
            for (o, v), (got, evaluated) in sorted(m.items(), key=lambda kv: (kv[0][0], kv[0][1] or "")):
                want = expected(o, v)
                label = "%s%s" % (o, ("→" + v) if v else "")
                ctx.check(got == want, "K2.collection", "%s: %s ⇒ %s (%s)" % (name, label, want, cfg),
                          "%s treats a collection operand of kind %s as %s; expected %s" % (name, label, got, want), where=b.where(), fn=b.key, nontrivial=True,
                          sample={"operator": name, "operand": label, "outcome": got} if label in ("Array", "String", "Null", "Object→String", "Number") else None)
                ctx.check(evaluated == (o == "Object"), "K2.evaluate-only-operations", "%s: %s operand %s evaluated first (%s)" % (name, label, "is" if o == "Object" else "is not", cfg),
                          "operand of kind %s: evaluated first = %s" % (o, evaluated), where=b.where(), fn=b.key)
            # ---------------- K5
            reach = local_reach(roles, b.key)
            dirty = [sk for sk, verdict, how in s1res if verdict == "dirty" and sk.body.key in reach]
            for sk in dirty:
                ctx.fail("K5.rule-text", "%s|%s" % (name, sk.ident()), "%s parses a value with provenance %s as a rule: elements of a computed collection (or characters) are executed" % (name, sorted(sk.tags)), where=sk.body.where(sk.bi), fn=sk.body.key)
            if not dirty:
                ctx.ok("K5.rule-text", "%s: only elements of the literal array are parsed (%s)" % (name, cfg), nontrivial=True)
        if len(mats) == 2:
            ctx.check(mats["all"] == mats["some"], "K2.siblings", "all and some normalise the collection identically (%s)" % cfg, "the two collection matrices differ", where="", nontrivial=True)
