#!/usr/bin/env python3
"""C14 — all / some / none are bounded quantifiers with short-circuit; none = not some.

  K1  none is the exact negation of some: the function bound to `none` calls the
      function bound to `some` once, with its own (data, operands) in order, and
      maps Bool(b) to Bool(not b) — no other path to a boolean;
  K2  collection normalisation, decided by variant specialisation over
      (kind of the literal operand) × (kind it evaluates to, when it is an object,
      i.e. an operation): Array → iterate its elements; String → iterate its
      characters (str::chars — never bytes, UTF-16 units or byte offsets); Null →
      iterate nothing; Bool/Number/(literal) Object → Err; only an Object operand
      is evaluated first; identical in `all` and `some`;
  K3  empty is false: a length-zero test on the normalised collection dominates
      the iteration and returns the constant false — in both functions;
  K4  in order, short-circuit: the collection is walked front to back with no
      reversing / skipping / truncating adaptor; every site that evaluates the predicate per element either
      sits under a short-circuiting std consumer or in a closure with a success
      path that evaluates nothing; the fold is seeded with true (all) / false
      (some) and the 'decided' path returns false (all) / true (some);
  K5  who is rule text: elements are parsed only when they are elements of the
      literal array operand (C04's S1 analysis, discharged by case split);
  K6  the predicate's verdict is taken through the shared truthiness (C06).
Not decided: duality laws as value statements beyond these shapes.

Readers (DESIGN §2 E2b): K1 is read from the decision cases of `none` (and of `some` when both delegate to a shared
core), on the program as written.  K2 and K3 are read from path summaries of the operator function under each kind case;
only the literal operand and the value its evaluation returned get a kind, both looked at through value-preserving
plumbing (`?`, the faithful conversion, clone, deref, Cow).  K4 reads a fold by its seed and decided constant, a loop by
the paths of one iteration (verdict on exit / on going on / at exhaustion), a lazy adaptor by what consumes it, and the
closure handed to any / all / find_map by its decision cases.  K5 follows a function value chosen per case.  K6 also
asks that every per-element verdict that is not the decided constant is truthy(predicate(element)).  When the
function bound to an operator delegates the iteration to private helpers, the same clauses are read on the view of the
program with those helpers inlined at their call sites (rules/inline.py).
"""
import re
from .core import (callee_of, callee_path, strip_refs, strip_payload, show_expr, const_value, expr_mentions, op_const, edge_dominates, bool_edge)
from .engine import Inconclusive
from .roles import Roles
from .opfacts import Unit, path_avoiding, const_under_edge
from . import prov as P
from . import pathsum, optnorm
from . import panic as PN

# Clauses stated on provenance / path summaries / decision cases: they mean the same thing when a private helper's
# code stands at its call site (rules/inline.py).  K1.nothing-else and K2.collection-unchanged ask "which functions
# are called" and are NOT listed.
INLINE_SAFE = [r"^K2\.collection-eval$", r"^K4\.predicate-site$"]

VALUE = "serde_json::Value"
SHORT_CIRCUIT = re.compile(r"(Iterator::|Iterator>::)(any|all|find|position|try_fold|try_for_each|find_map|rposition)$")
BAD_SPLIT = re.compile(r"^core::str::<impl str>::(bytes|as_bytes|encode_utf16|char_indices|split\w*|lines|matches|into_bytes)$|^std::string::String::(as_bytes|into_bytes)$")
INDEX_PATH = "<std::vec::Vec<T, A> as std::ops::Index<I>>::index"
REORDER = re.compile(r"(Iterator::|Iterator>::)(rev|filter|filter_map|skip|take|step_by|skip_while|take_while|rfold|chain|zip|cycle|flat_map|flatten|dedup|peekable)$|::(sort\w*|reverse|dedup\w*|retain|truncate|swap_remove|remove|drain|split_off)$")
LAZY = re.compile(r"(Iterator::|Iterator>::)(map|inspect|by_ref|copied|cloned|enumerate|fuse|map_while)$|IntoIterator>::into_iter$")
# plumbing that hands a value on unchanged (besides references): `?`, clone, deref/borrow of an owning wrapper
FAITHFUL = re.compile(r"as std::ops::Try>::branch$|as std::clone::Clone>::clone$|as std::ops::Deref>::deref$|as std::borrow::Borrow<.*>>::borrow$|as std::convert::AsRef<.*>>::as_ref$|^std::borrow::Cow::<.*>::(into_owned|to_mut)$|as std::borrow::ToOwned>::to_owned$")
READ_ONLY = re.compile(r"::(len|is_empty|capacity|iter|as_slice|first|last|get|contains|as_ptr|reserve|reserve_exact|shrink_to_fit)$|as std::ops::Deref>::deref$|as std::clone::Clone>::clone$|as std::convert::AsRef<.*>>::as_ref$|as std::borrow::Borrow<.*>>::borrow$|IntoIterator>::into_iter$")
# serde_json's kind accessors: Some exactly for a value of that kind (as_f64 / as_i64 / as_u64 are not: they depend on the number)
FIRST_ELEMENT_TEST = re.compile(r"^[\w:{}#<>, ]*::(is_none|is_some)\((?:\(ref )?[\w:{}#<>, ]*::(?:first|last)\(")
KIND_ACCESSOR = {"serde_json::Value::as_null": "Null", "serde_json::Value::as_bool": "Bool", "serde_json::Value::as_number": "Number",
                 "serde_json::Value::as_str": "String", "serde_json::Value::as_array": "Array", "serde_json::Value::as_object": "Object"}
EMPTY_CTOR = re.compile(r"Vec::<T>::(new|with_capacity)$|^std::iter::empty$|Default>::default$")


def find_collection_eval(roles, p, u, operand=0):
    """The evaluate calls whose receiver is parsed from operand `operand` (provenance tag RULE#n)."""
    out = []
    for s in u.calls_to(roles.parsed_evaluate):
        s2 = p.s2.get((s.body.key, s.bi))
        if s2 and s2.extra["receiver"] == {"RULE#%d" % operand}:
            out.append((s, s2))
    return out


def per_element_sites(roles, p, u, operand=1):
    out = []
    for s in u.calls_to(roles.parsed_evaluate):
        s2 = p.s2.get((s.body.key, s.bi))
        if s2 and "RULE#%d" % operand in s2.extra["receiver"] and u.per_element(s):
            out.append((s, s2))
    return out


def adaptor_of(u, site):
    """(block in root, term, body of the per-element code) of the call in the root function that receives the
    closure containing `site`; for loop-form per-element code the block/terminator of the loop's `next()` call and
    the root body itself."""
    root = u.root
    if site.body.key == root.key:
        for (h, blocks, srcs) in PN.loops_of(root):
            if site.bi in blocks:
                for bi in sorted(blocks):
                    t = root.blocks[bi]["term"]
                    if t["k"] == "Call" and (callee_path(t) or "").endswith("::next"):
                        return bi, t, root
        return None
    cur = site.body
    while cur.kind == "closure" and cur.creator() and cur.creator()[0].key != root.key:
        cur = cur.creator()[0]
    if cur.kind != "closure":
        return None
    for bi, t in root.calls():
        for a in t["args"]:
            e = strip_refs(root.trace(a))
            if e[0] == "agg" and e[1].get("closure") == cur.key:
                return bi, t, cur
    return None


def consumer_of(root, abi):
    """The call of the root function that consumes the iterator built by the (lazy) adaptor call at block abi,
    followed through further lazy adaptors: (block, term) or None."""
    for _ in range(6):
        nxt = None
        for bi, t in root.calls():
            if bi == abi or not t["args"]:
                continue
            e = strip_refs(root.trace(t["args"][0]))
            if e[0] == "call" and e[3] == abi:
                nxt = (bi, t)
                break
        if nxt is None:
            return None
        if not LAZY.search(callee_path(nxt[1]) or ""):
            return nxt
        abi = nxt[0]
    return None


def local_reach(roles, key):
    """Bodies reachable from `key` without going through the interpreter (parser / evaluators)."""
    cg, _ = roles.facts.callgraph()
    stop = set(roles.sinks) | set(roles.evaluators)
    seen = set()
    st = [key]
    while st:
        k = st.pop()
        if k in seen or k in stop:
            continue
        seen.add(k)
        st.extend(cg.get(k, ()))
    return seen


def is_err(e):
    """Is the (path-local) result expression certainly an error?  Err{..}, `?`'s from_residual, and Result
    combinators over such (case normal form)."""
    if e is None:
        return False
    x = strip_refs(e)
    if x[0] == "agg" and x[1].get("variant") == "Err":
        return True
    if x[0] == "call" and x[1] and "from_residual" in x[1].get("path", ""):
        return True
    if x[0] == "phi":
        return bool(x[2]) and all(is_err(y) for y in x[2])
    if x[0] == "call" and x[1] and optnorm.M.match(x[1].get("path", "")):
        if optnorm.M.match(x[1]["path"]).group(2) in ("map", "and_then", "map_err", "inspect", "and") and x[2] and is_err(x[2][0]):
            return True
        try:
            sub = optnorm.cases_expr(FACTS[0], x)
        except Exception:
            sub = None
        if sub and not (len(sub) == 1 and sub[0][1] is x):
            return all(is_err(v) for _, v in sub)
    return False


FACTS = [None]


def bool_of(facts, e, depth=0):
    """Constant boolean an expression stands for: a constant, Ok(..)/Some(..)/Value::Bool(..) around one, `!c`, or a
    call of a local loop-free helper all of whose paths return the same constant for these arguments."""
    if e is None or depth > 6:
        return None
    x = strip_refs(e)
    while x[0] == "agg" and (x[1].get("variant") in ("Ok", "Some") or (x[1].get("adt") == VALUE and x[1].get("variant") == "Bool")) and len(x[2]) == 1:
        x = strip_refs(x[2][0])
    if x[0] == "call" and x[1] and x[1].get("path", "").endswith("Value::Bool") and len(x[2]) == 1:
        return bool_of(facts, x[2][0], depth + 1)
    if x[0] == "const":
        v = const_value(x[1])
        return v if isinstance(v, bool) else None
    if x[0] == "unop" and x[1] == "Not":
        v = bool_of(facts, x[2], depth + 1)
        return None if v is None else (not v)
    if x[0] == "phi":
        vs = {bool_of(facts, y, depth + 1) for y in x[2]}
        return vs.pop() if len(vs) == 1 else None
    if x[0] == "call" and x[1] and optnorm.M.match(x[1].get("path", "")):
        try:
            sub = optnorm.cases_expr(facts, x)
        except Exception:
            sub = None
        if sub and not (len(sub) == 1 and strip_refs(sub[0][1]) == x):
            vs = {bool_of(facts, v, depth + 1) for _, v in sub}
            return vs.pop() if len(vs) == 1 else None
        return None
    if x[0] == "call" and x[1] and x[1].get("local"):
        cb = facts.body(x[1].get("key"))
        if cb is not None and cb.kind == "fn" and len(x[2]) == cb.arg_count:
            w = pathsum.summarize(cb, env={i + 1: a for i, a in enumerate(x[2])}, max_paths=200)
            if not w.overflow and w.paths and not any(q.truncated for q in w.paths):
                vs = {bool_of(facts, q.result, depth + 1) for q in w.paths}
                return vs.pop() if len(vs) == 1 else None
    return None


def ext_reach(facts, body, blocks, exclude=()):
    """External callee paths reachable from the calls in `blocks` of `body` (through local helpers)."""
    out = set()
    roots = []
    for bi in blocks:
        t = body.blocks[bi]["term"]
        if t["k"] == "Call" and callee_of(t):
            c = callee_of(t)
            if c["local"]:
                if c["key"] not in exclude:
                    roots.append(c["key"])
            else:
                out.add(c["path"])
        for s in body.blocks[bi]["stmts"]:
            if s["k"] == "Assign" and s["rv"]["k"] == "Aggregate" and s["rv"].get("closure"):
                roots.append(s["rv"]["closure"])
    cg, ext = facts.callgraph()
    for k in facts.reach(roots):
        out |= ext.get(k, set())
    return out


def peel(roles, e):
    """The value an expression hands on unchanged: references, `?`, Ok/Some payloads, clone, the faithful
    Evaluated → Value conversion and owning wrappers (Cow) are looked through."""
    ck = roles.conv.key
    for _ in range(40):
        e = strip_refs(e)
        if e[0] == "field" and e[2] == 0 and isinstance(e[1], tuple) and e[1][0] == "downcast" and e[1][2] in ("Continue", "Ok", "Some", "Borrowed", "Owned"):
            e = e[1][1]
            continue
        if e[0] == "payload":
            e = e[2]
            continue
        if e[0] == "agg" and e[1].get("agg") == "Adt" and len(e[2]) == 1 and (e[1].get("variant") in ("Ok", "Some", "Continue") or (e[1].get("variant") in ("Borrowed", "Owned") and "Cow" in str(e[1].get("adt")))):
            e = e[2][0]
            continue
        if e[0] == "call" and e[1] and e[2]:
            c = e[1]
            fwd = {x.get("key") for x in c.get("fwd") or []}
            if c.get("key") == ck or ck in fwd or FAITHFUL.search(c.get("path", "")):
                e = e[2][0]
                continue
            if optnorm.M.match(c.get("path", "")) and FACTS[0] is not None:
                # an Option/Result combinator over a constructor the path knows (`holder.as_ref().unwrap_or(operand)`
                # with holder = None / Some(evaluated)): the one value it hands on
                try:
                    sub = optnorm.cases_expr(FACTS[0], e)
                except Exception:
                    sub = None
                if sub and len(sub) == 1 and not sub[0][0] and isinstance(sub[0][1], tuple) and strip_refs(sub[0][1]) != e and sub[0][1][0] not in ("panic", "default", "error"):
                    e = sub[0][1]
                    continue
        return e
    return e


def matrix(ctx, roles, u, coll_sites, adaptor_bi, pred_sites=(), name="", cfg=""):
    """Outcome per (kind of the literal operand) × (kind it evaluates to): path summaries of the root function with
    the kind of exactly two values fixed — the literal operand and the value its evaluation returned, both looked at
    through value-preserving plumbing only.  A kind test on anything else is not decided by the case and shows up as
    several outcomes for it."""
    root = u.root
    facts = roles.facts
    raw_elems = {}

    def is_operand0(e):
        e = strip_refs(e)
        if e[0] == "call" and e[1] and e[1]["path"] == INDEX_PATH:
            i = strip_refs(e[2][1])
            return i[0] == "const" and const_value(i[1]) == 0
        return False

    coll_bis = {s.bi for s, _ in coll_sites}

    def is_coll_call(x):
        return x[0] == "call" and x[1] and x[1].get("key") == roles.parsed_evaluate and x[3] in coll_bis

    def mentions_coll(e):
        return expr_mentions(e, is_coll_call)

    def unfaithful(e, out):
        """Calls between expression e and the collection's evaluation other than value-preserving plumbing: the
        value they return need not have the kind the collection evaluated to."""
        if not isinstance(e, tuple) or is_coll_call(e):
            return
        if e[0] == "call" and e[1]:
            inner = [a for a in e[2] if mentions_coll(a)]
            if inner:
                c = e[1]
                fwd = {x.get("key") for x in c.get("fwd") or []}
                ok = c.get("key") == roles.conv.key or roles.conv.key in fwd or FAITHFUL.search(c["path"]) is not None
                if not ok:
                    out.add(c["path"])
                for a in inner:
                    unfaithful(a, out)
            return
        for x in e[1:]:
            if isinstance(x, tuple):
                unfaithful(x, out)
            elif isinstance(x, list):
                for y in x:
                    if isinstance(y, tuple):
                        unfaithful(y, out)

    lossy = set()

    def filled_in_place(w, recv):
        """What is put into a container that the receiver builds in place (`let mut v = Vec::new(); for c in … { v.push(..) }`):
        the other operands of every call, on any path of this case (the iterations of a loop included), that is handed
        the freshly constructed container and is not one of std's read-only accessors.  The collection then is what
        these calls put into it, as `collect()` of an adaptor chain is what the chain yields."""
        sites = set()
        expr_mentions(recv, lambda x: sites.add(x[3]) if x[0] == "call" and x[1] and len(x) > 3 and EMPTY_CTOR.search(x[1].get("path", "")) else False)
        out, seen = [], set()
        if not sites:
            return out
        for q in w.paths:
            for ev in q.events:
                if ev[1] is None or len(ev[2]) < 2 or (ev[3], len(ev[2])) in seen:
                    continue
                tgt = strip_refs(ev[2][0])
                if not (tgt[0] == "call" and len(tgt) > 3 and tgt[3] in sites and tgt[3] != ev[3]):
                    continue
                if READ_ONLY.search(ev[1].get("path", "")):
                    continue
                seen.add((ev[3], len(ev[2])))
                out.extend(ev[2][1:])
        return out

    def classify_receiver(recv, w=None):
        """What the iteration runs over, read off the path-local expression of the iterator."""
        fill = filled_in_place(w, recv) if w is not None else []
        if fill:
            recv = ("agg", {"agg": "fields"}, [recv] + fill)
        calls = []
        expr_mentions(recv, lambda x: calls.append(x) if x[0] == "call" and x[1] else False)
        ext = {c[1]["path"] for c in calls if not c[1].get("local")}
        roots = [c[1]["key"] for c in calls if c[1].get("local") and c[1].get("key") not in roles.sinks and c[1].get("key") not in roles.evaluators]
        expr_mentions(recv, lambda x: roots.append(x[1]["closure"]) if x[0] == "agg" and x[1].get("closure") else False)
        if roots:
            cg, extm = facts.callgraph()
            for k in facts.reach(roots):
                ext |= extm.get(k, set())
        bad = sorted(q for q in ext if BAD_SPLIT.search(q))
        acc = lambda kind: (lambda x: x[0] == "call" and x[1] and KIND_ACCESSOR.get(x[1].get("path")) == kind)
        from_array = expr_mentions(recv, lambda x: x[0] == "downcast" and x[2] == "Array") or expr_mentions(recv, acc("Array"))
        from_string = expr_mentions(recv, lambda x: x[0] == "downcast" and x[2] == "String") or expr_mentions(recv, acc("String"))
        if from_array and not from_string:
            return "ITER(elements)"
        if from_string and not from_array:
            has_chars = "core::str::<impl str>::chars" in ext
            return "ITER(chars)" if has_chars and not bad else "ITER(string split by %s)" % (bad or "?")
        if not from_array and not from_string and (any(EMPTY_CTOR.search(q) for q in ext) or expr_mentions(recv, lambda x: x[0] == "agg" and x[1].get("agg") == "Array" and not x[2])):
            return "ITER(empty)"
        return "ITER(string split by %s)" % bad if bad else "ITER(?)"

    res = {}
    kinds = facts.variants(VALUE)
    cases = [(o, None) for o in kinds if o != "Object"] + [("Object", v) for v in kinds]
    for (o, v) in cases:
        eff = o if o != "Object" else v

        def known(e, adt, _o=o, _eff=eff, record=True):
            if adt != VALUE:
                # `v.as_str()` is Some exactly for a string (serde_json's kind accessors): on a value whose kind the case
                # fixes, the question is decided — as the `match` spelling of it is; also through combinators that keep
                # the variant (`v.as_str().map(..)`)
                inner, ren = pathsum.through_variant_preserving(e)
                base = strip_refs(inner if inner is not None else e)
                if base[0] == "call" and base[1] and base[1].get("path") in KIND_ACCESSOR and base[2]:
                    k = known(base[2][0], VALUE, record=False)
                    if k is None:
                        return None
                    var = "Some" if k == KIND_ACCESSOR[base[1]["path"]] else "None"
                    if ren:
                        back = [o_ for o_, i_ in ren.items() if i_ == var]
                        return back[0] if len(back) == 1 else None
                    return var
                return None
            x = peel(roles, e)
            if is_operand0(x):
                return _o
            if is_coll_call(x):
                return _eff
            if record and mentions_coll(e):
                bad = set()
                unfaithful(e, bad)
                lossy.update(bad)
            return None

        w = pathsum.summarize(root, known=known, max_paths=4000)
        if w.overflow or not w.paths:
            res[(o, v)] = ("UNREAD(too many paths)", None)
            continue
        evaluated = any(any(ev[3] in coll_bis for ev in q.events) for q in w.paths)
        reach = [q for q in w.paths if adaptor_bi in q.blocks]
        if reach:
            ks = set()
            for q in reach:
                ev = [x for x in q.events if x[3] == adaptor_bi]
                ks.add(classify_receiver(ev[0][2][0], w) if ev and ev[0][2] else "ITER(?)")
            kind = ks.pop() if len(ks) == 1 else "MIXED(%s)" % ", ".join(sorted(ks))
        else:
            outs = [q for q in w.paths if not q.truncated]
            if outs and all(is_err(q.result) for q in outs):
                kind = "ERR"
            else:
                kind = "OTHER(%s)" % "; ".join(sorted({show_expr(q.result)[:50] for q in outs if not is_err(q.result)}))[:120]
        res[(o, v)] = (kind, evaluated)

        # ---- K5: can an element reach the predicate's evaluation without being parsed and evaluated first?
        # (the per-element code under this case: specialisation with constant propagation through captures)
        if not (o in ("Array", "Object") and eff in ("Array", "String")):
            continue

        def assume(e, adt, _o=o, _eff=eff, _known=known):
            if adt != VALUE:
                return None
            if e[0] == "phi" and (mentions_coll(e) or any(is_operand0(x) for x in e[2])):
                return _eff
            return _known(e, adt, record=False)

        restrict = P.specialise_unit(roles, root.key, assume)
        blocks = restrict[root.key]
        for ps in pred_sites:
            pb = ps.body
            within = restrict.get(pb.key, set())
            if ps.bi not in within:
                continue
            start = 0
            if pb.key == root.key:
                # loop-form per-element code: one iteration starts at the loop's next()
                ad = adaptor_of(u, ps)
                if ad is None:
                    continue
                start = ad[0]
            seen, st = set(), [start]
            while st:
                n = st.pop()
                if n in seen or n not in within:
                    continue
                seen.add(n)
                t = pb.blocks[n]["term"]
                c = callee_of(t) if t["k"] == "Call" else None
                if c is not None and c.get("key") in roles.sinks and n != start:
                    continue
                if t["k"] == "Call" and c is None and not (pb.key == root.key and n == start):
                    # a call through a function value: which function, under this case?
                    with root.restricted(blocks):
                        fe = strip_refs(pb.xtrace(t["func"]))
                    fk = None
                    if fe[0] == "const" and "fn" in fe[1]:
                        fn = fe[1]["fn"].get("resolved") or fe[1]["fn"]
                        fk = fn.get("key") if fn.get("local") else None
                    fb = facts.body(fk) if fk else None
                    if fb is None:
                        raw_elems[(o, v)] = None      # not read
                        seen.discard(ps.bi)
                        st = []
                        break
                    blocked = lambda tt: (callee_of(tt) is not None and callee_of(tt).get("key") in roles.sinks) or "from_residual" in (callee_path(tt) or "")
                    if not path_avoiding(fb, blocked):
                        continue          # every successful path of the function parses what it is given
                st.extend(pb.succs(n))
            if raw_elems.get((o, v), False) is None:
                continue
            raw_elems[(o, v)] = raw_elems.get((o, v), False) or (ps.bi in seen)
    return res, lossy, raw_elems


def expected(o, v):
    eff = o if o != "Object" else v
    return {"Array": "ITER(elements)", "String": "ITER(chars)", "Null": "ITER(empty)"}.get(eff, "ERR")


def negation(ctx, roles, none_b, some_b, cfg):
    """K1 on decision cases: every way `none` produces a result.  There is one call of a core function F with none's
    own (data, operands); where F gives a boolean b none gives Bool(!b); none fails only where F fails (or gives
    no boolean); F is the function bound to `some`, or `some` is Bool(b) of the same call."""
    facts = roles.facts
    where = none_b.where()

    def core_calls(cases):
        out = {}
        for conds, v, _p in cases:
            expr_mentions(v, lambda x: out.setdefault(x[1], x[2]) if x[0] == "payload" else False)
            for k in conds:
                if k[0] == "variant" and k in (getattr(cases, "exprs", None) or {}):
                    pass
        return out

    def the_bool(v, want_not):
        """(source key) when v is Ok(Bool(b)) / Ok(Bool(!b)) of a payload b, else None; False when it is another boolean."""
        x = strip_refs(v)
        if not (x[0] == "agg" and x[1].get("variant") == "Ok" and len(x[2]) == 1):
            return None
        x = strip_refs(x[2][0])
        if x[0] == "agg" and x[1].get("adt") == VALUE and x[1].get("variant") == "Bool":
            x = strip_refs(x[2][0])
        elif x[0] == "call" and x[1] and x[1].get("path", "").endswith("Value::Bool") and len(x[2]) == 1:
            x = strip_refs(x[2][0])
        elif x[0] == "payload" and not want_not:
            return ("value", x[1])          # some hands on F's own value
        else:
            return None
        if want_not:
            if not (x[0] == "unop" and x[1] == "Not"):
                return False
            x = strip_refs(x[2])
        if x[0] == "field" and x[2] == 0 and x[1][0] == "downcast" and x[1][2] == "Bool" and strip_refs(x[1][1])[0] == "payload":
            return ("bool-of-value", strip_refs(x[1][1])[1])
        if x[0] == "payload":
            return ("bool", x[1])
        return False

    def read(body, want_not, label):
        cases = optnorm.decision_cases(facts, body)
        if cases is None:
            return None
        srcs = {}
        good, bad = [], []
        for conds, v, _p in cases:
            if is_err(v):
                # an error: only where the core call failed or did not give a boolean
                excused = any(k[0] == "variant" and (val == "Err" or (isinstance(val, tuple) and val[0] == "not") or (isinstance(val, str) and val not in ("Ok", "Bool", "Some", "Continue"))) for k, val in conds.items())
                if not excused:
                    bad.append("an error under %s" % sorted(str(x) for x in conds.values()))
                continue
            r = the_bool(v, want_not)
            if r:
                good.append(r)
                expr_mentions(v, lambda x: srcs.setdefault(x[1], strip_refs(x[2])) if x[0] == "payload" else False)
            else:
                bad.append(show_expr(v)[:80])
        return good, bad, srcs

    rn = read(none_b, True, "none")
    if rn is None:
        ctx.unread("K1.negation", "none (%s)" % cfg, "the function bound to `none` has loops or too many paths: not read as a decision", where=where, fn=none_b.key)
        return None
    good, bad, srcs = rn
    keys = {g[1] for g in good}
    ctx.check(bool(good) and not bad and len(keys) == 1, "K1.negation", "none returns Bool(not b) for the core's boolean b, and fails only where the core fails (%s)" % cfg,
              ("none builds a result that is not the negation of the core's boolean: %s" % bad) if bad else "no Bool(!b) result found in none (%d core calls)" % len(keys), where=where, fn=none_b.key, nontrivial=True)
    if not good or len(keys) != 1:
        return None
    src = srcs.get(next(iter(keys)))
    if src is None or src[0] != "call" or not src[1] or not src[1].get("local"):
        ctx.unread("K1.calls-some", "none (%s)" % cfg, "the boolean none negates does not come from a call of a crate function: %s" % show_expr(src)[:80], where=where, fn=none_b.key)
        return None
    core = src[1]["key"]
    args = [strip_refs(a) for a in src[2]]

    def constant(a, depth=0):
        """An argument that is the same value at every call: a constant, or an aggregate of constants (the unit variant
        of a mode enum that tells a shared core which question is asked)."""
        a = strip_refs(a)
        return a[0] == "const" or (a[0] == "agg" and not a[1].get("closure") and depth < 4 and all(constant(x, depth + 1) for x in a[2]))
    # what the core is given besides constants is none's own (data, operands), in order; that the constants are the ones
    # `some` passes is part of K1.calls-some (same call = same argument list)
    ctx.check([a for a in args if not constant(a)] == [("arg", 1), ("arg", 2)], "K1.same-operands", "none passes its own (data, operands) in order (%s)" % cfg, "the core is called with %s" % [show_expr(a) for a in args], where=where, fn=none_b.key, nontrivial=True)
    if core == some_b.key and args == [("arg", 1), ("arg", 2)]:
        ctx.ok("K1.calls-some", "none negates the function bound to `some` (%s)" % cfg, nontrivial=True)
        return core
    # none and some share a core: some must be Bool(b) of the same call with its own (data, operands)
    rs = read(some_b, False, "some")
    if rs is None:
        ctx.unread("K1.calls-some", "some (%s)" % cfg, "none negates %s; the function bound to `some` is not read as a decision over the same call" % core, where=some_b.where(), fn=some_b.key)
        return core
    g2, b2, s2 = rs
    same = bool(g2) and not b2 and all(s2.get(g[1]) is not None and s2[g[1]][0] == "call" and s2[g[1]][1] and s2[g[1]][1].get("key") == core and [strip_refs(a) for a in s2[g[1]][2]] == args for g in g2)
    kinds = {g[0] for g in good}, {g[0] for g in g2}
    same = same and ((kinds[0] == {"bool"} and kinds[1] == {"bool"}) or (kinds[0] == {"bool-of-value"} and kinds[1] <= {"value", "bool-of-value"}))
    ctx.check(same, "K1.calls-some", "none negates the boolean that some returns: both are built from one call of %s with their own (data, operands) (%s)" % (core.split("::")[-1], cfg),
              "none negates %s, but the function bound to `some` is not Bool(b) of that same call (%s)" % (core, b2 or [show_expr(x)[:60] for x in s2.values()]), where=some_b.where(), fn=some_b.key, nontrivial=True)
    return core


def emptiness(p):
    """True / False when the path decided that a length is / is not zero, None when it asked no such question."""
    for key, val in p.atoms.items():
        if key[0] == "cmp" and key[1] == "Eq" and "c:0" in (key[2], key[3]) and "::len(" in (key[3] if key[2] == "c:0" else key[2]):
            return bool(val)
        if key[0] == "pure" and "::is_empty(" in key[1]:
            return bool(val)
        if key[0] == "int" and "::len(" in key[1]:
            return val == 0
        # "has it a first element?": `items.first().is_none()`, `match items.first() { None => … }`
        if key[0] == "pure" and isinstance(val, bool):
            m = FIRST_ELEMENT_TEST.match(key[1])
            if m:
                return val if m.group(1) == "is_none" else (not val)
        if key[0] == "variant" and re.match(r"^[\w:{}#<>, ]*::(first|last)\(", key[1]) and val in ("None", "Some"):
            return val == "None"
    return None


def switch_facts(w, body, p):
    """The boolean switches of one path, re-read with the path's environment: [(discriminant expression, truth)]."""
    out = []
    for i, bi in enumerate(p.blocks[:-1]):
        t = body.blocks[bi]["term"]
        if t["k"] != "SwitchInt" or t.get("dty") != "bool":
            continue
        nxt = p.blocks[i + 1]
        truth = None
        for val, bb in t["arms"]:
            if bb == nxt:
                truth = (str(val) != "0")
        if truth is None and t["otherwise"] == nxt:
            listed = {str(v) for v, _ in t["arms"]}
            truth = True if listed == {"0"} else (False if listed == {"1"} else None)
        if truth is None:
            continue
        out.append((w.operand(t["discr"], p.env or {}), truth))
    return out


def verdict_on(facts, w, body, p, tkeys):
    """What the path learned about the shared truthiness of the predicate's value: True / False / None."""
    def is_truthy(x):
        x = peel_bool(x)
        return x[0] == "call" and x[1] and x[1].get("key") in tkeys

    def peel_bool(x):
        x = strip_refs(x)
        for _ in range(6):
            if x[0] == "field" and x[2] == 0 and x[1][0] == "downcast" and x[1][2] in ("Continue", "Ok", "Some"):
                x = strip_refs(x[1][1])
            elif x[0] == "agg" and x[1].get("variant") in ("Continue", "Ok", "Some") and len(x[2]) == 1:
                x = strip_refs(x[2][0])
            elif x[0] == "call" and x[1] and x[1].get("path", "").endswith("as std::ops::Try>::branch") and x[2]:
                x = strip_refs(x[2][0])
            else:
                break
        return x
    got = None
    for e, truth in switch_facts(w, body, p):
        x = peel_bool(e)
        neg = False
        while x[0] == "unop" and x[1] == "Not":
            neg, x = not neg, peel_bool(x[2])
        if is_truthy(x):
            got = (truth != neg)
        elif x[0] == "binop" and x[1] in ("Eq", "Ne"):
            a, b_ = peel_bool(x[2]), peel_bool(x[3])
            for tt, other in ((a, b_), (b_, a)):
                if is_truthy(tt):
                    c = bool_of(facts, other)
                    if c is not None:
                        eq = (truth != neg) == (x[1] == "Eq")
                        got = c if eq else (not c)
    return got


def bool_on_path(facts, w, body, p, e):
    """The boolean an expression stands for on one path: a constant (bool_of), or the very value a switch of the
    path has decided (`result = verdict; if !result { break }; … Ok(Bool(result))`: on the path that left the loop,
    `result` is false)."""
    v = bool_of(facts, e)
    if v is not None:
        return v
    x = strip_refs(e)
    while x[0] == "agg" and (x[1].get("variant") in ("Ok", "Some") or (x[1].get("adt") == VALUE and x[1].get("variant") == "Bool")) and len(x[2]) == 1:
        x = strip_refs(x[2][0])
    neg = False
    while x[0] == "unop" and x[1] == "Not":
        neg, x = not neg, strip_refs(x[2])
    if x[0] in ("const", "agg", "phi"):
        return None
    cx = pathsum.canon(x)
    got = set()
    for d, truth in switch_facts(w, body, p):
        d = strip_refs(d)
        dneg = False
        while d[0] == "unop" and d[1] == "Not":
            dneg, d = not dneg, strip_refs(d[2])
        if pathsum.canon(d) == cx:
            got.add((truth != dneg) != neg)
    return got.pop() if len(got) == 1 else None


def loop_reading(ctx, roles, name, cfg, root, ps, abi, tkeys, seed_want, decided_want):
    """K4 for per-element code written as a loop: the paths of one iteration from the loop's next()."""
    facts = roles.facts
    w = pathsum.summarize(root, max_paths=4000)      # from the entry: what was fixed before the loop is known on the path
    key = "%s: loop over the collection (%s)" % (name, cfg)
    if w.overflow or not w.paths:
        ctx.unread("K4.short-circuit", key, "the loop body has too many paths to read", where=root.where(abi), fn=root.key)
        return None
    exits, conts, exhaust, unread = [], [], [], []
    for q in w.paths:
        if abi not in q.blocks:
            continue
        visited = any(ev[3] == ps.bi for ev in q.events)
        if q.truncated:
            if visited:
                conts.append(q)
            continue
        if is_err(q.result):
            continue
        (exits if visited else exhaust).append(q)
    bad = []
    nxt = lambda q: next((val for k_, val in q.atoms.items() if k_[0] == "variant" and "::next(" in k_[1]), None)
    passed = [q for q in w.paths if abi in q.blocks and nxt(q) == "Some" and not any(ev[3] == ps.bi for ev in q.events) and (q.truncated or not is_err(q.result))]
    if passed:
        bad.append("has a path through the loop body that takes an element and %s without evaluating the predicate for it" % ("goes on" if passed[0].truncated else "returns %s" % show_expr(passed[0].result)[:50]))
    exhaust = [q for q in exhaust if nxt(q) != "Some"]
    for q in exits:
        tv, rv = verdict_on(facts, w, root, q, tkeys), bool_on_path(facts, w, root, q, q.result)
        if tv is None or rv is None:
            unread.append("early exit with verdict %s returning %s" % (tv, show_expr(q.result)[:60]))
        elif not (tv is decided_want and rv is decided_want):
            bad.append("leaves the loop with %s after an element whose verdict is %s" % (rv, tv))
    for q in conts:
        tv = verdict_on(facts, w, root, q, tkeys)
        if tv is None:
            unread.append("goes on to the next element without having looked at the verdict")
        elif tv is decided_want:
            bad.append("goes on to the next element after an element whose verdict is %s" % tv)
    if not exits and not unread:
        bad.append("evaluates the predicate for every element (no exit from the loop after a deciding element): an error or a log after the deciding element still happens")
    if bad:
        ctx.fail("K4.short-circuit", key, "%s %s" % (name, "; ".join(sorted(set(bad)))), where=ps.where(), fn=root.key)
    elif unread:
        ctx.unread("K4.short-circuit", key, "%s: %s" % (name, "; ".join(sorted(set(unread)))), where=ps.where(), fn=root.key)
    else:
        ctx.ok("K4.short-circuit", key, nontrivial=True)
        ctx.ok("K4.decided-constant", "%s: the decided path returns %s (%s)" % (name, decided_want, cfg), nontrivial=True)
    zero = None
    if exhaust:
        vs = {bool_of(facts, q.result) for q in exhaust}
        zero = vs.pop() if len(vs) == 1 else None
        if zero is None:
            ctx.unread("K4.seed", "%s: result at exhaustion (%s)" % (name, cfg), "the value returned when the loop runs out of elements is not read as a constant", where=root.where(abi), fn=root.key)
        else:
            ctx.check(zero is seed_want, "K4.seed", "%s: with no deciding element the result is %s (%s)" % (name, seed_want, cfg), "when the loop runs out of elements %s returns %s" % (name, zero), where=root.where(abi), fn=root.key, nontrivial=True)
    return zero


def consumer_decisions(ctx, roles, name, cfg, root, seed_want, decided_want):
    """K4 under a short-circuiting std consumer: what the closure answers decides whether the walk goes on.  Read from
    the closure's decision cases; only positive evidence is reported: `any` goes on after `false`, `all` after `true`,
    `find_map` after `None` — a failed evaluation, or the deciding verdict, must not be answered that way."""
    facts = roles.facts
    for bi, t in root.calls():
        m = re.search(r"(Iterator::|Iterator>::)(any|all|find_map)$", callee_path(t) or "")
        if not m or len(t["args"]) < 2:
            continue
        ce = strip_refs(root.trace(t["args"][1]))
        if not (ce[0] == "agg" and ce[1].get("closure")):
            continue
        cb = facts.body(ce[1]["closure"])
        cases = optnorm.decision_cases(facts, cb) if cb is not None else None
        if not cases:
            continue
        meth = m.group(2)
        bad = []
        for conds, v, _q in cases:
            x = strip_refs(v)
            if meth == "find_map":
                goes_on = x[0] == "agg" and x[1].get("variant") == "None"
            else:
                bv = bool_of(facts, v)
                goes_on = bv is (meth == "all")
            if not goes_on:
                continue
            failed = [k for k, val in conds.items() if k[0] == "variant" and val == "Err"]
            if failed:
                bad.append("after an element whose evaluation failed")
            verdicts = [val for k, val in conds.items() if k[0] in ("expr", "site", "pure") and isinstance(val, bool) and ("Ok" in str(k[1]) or "payload" in str(k[1]) or k[0] == "site")]
            if meth == "find_map" and verdicts and all(val is decided_want for val in verdicts):
                bad.append("after an element whose verdict is %s" % decided_want)
        key = "%s: Iterator::%s goes on only after a non-deciding, successful element (%s)" % (name, meth, cfg)
        if bad:
            ctx.fail("K4.consumer-decision", key, "%s: under Iterator::%s the walk goes on %s" % (name, meth, "; ".join(sorted(set(bad)))), where=root.where(bi), fn=root.key)
        else:
            ctx.ok("K4.consumer-decision", key, nontrivial=True)


def run(ctx):
    ctx.explanation = __doc__
    ctx.rule = "instances = negation decision cases, 11 collection cases × 2 operators (path summaries), emptiness/short-circuit path facts, provenance sinks; non-trivial = path summaries under kind cases, dominance, path existence"
    ctx.trusted = ["std adaptor models", "C06 (truthiness table)", "str::chars iterates Unicode scalar values"]
    from . import manifest as _MF
    _MF.same_library_clause(ctx, "K6.number-model")
    cfgs = ["default"] if ctx.tier == "quick" else ["default", "python", "wasm"]
    from .engine import Ctx
    from .core import Facts
    for cfg in cfgs:
        facts = ctx.facts(cfg)
        from . import x_verdict
        x_verdict.per_element(ctx, facts, cfg)
        path = ctx.fact_paths[(cfg, "jsonlogic_rs", "debug")]
        raw = facts if not ctx.inline_set else Facts(path)
        sub = Ctx(ctx.prop, ctx.tier, ctx.level)
        analyse(sub, cfg, facts, raw, bool(ctx.inline_set))
        safe = [re.compile(x) for x in INLINE_SAFE]
        if not ctx.inline_set and any(any(x.search(v["clause"]) for x in safe) for v in sub.viol):
            # The iteration is not in the function bound to the operator but in private helpers it calls.  Read the
            # view of the program in which every private helper reachable from the three operators (without going
            # through the interpreter) stands at its call sites: the same program, with the facts where the clauses
            # look for them.  (The engine's own search adds one helper at a time and stops when a step does not
            # improve; a core split over several helpers needs them together.)
            from . import inline
            roles0 = Roles(facts)
            reach = set()
            for opn in ("all", "some", "none"):
                reach |= local_reach(roles0, roles0.fn_of(opn)[0].key)
            from .c06 import truthy_role, forwarders
            tr = truthy_role(roles0)
            keep = {tr.key, roles0.conv.key} | forwarders(roles0, tr) | set(roles0.lossy_conversions)      # functions that are a role of their own
            hs = [h for h in inline.candidates(path) if h in reach and h not in keep]
            if hs:
                try:
                    sub2 = Ctx(ctx.prop, ctx.tier, ctx.level)
                    analyse(sub2, cfg, inline.load_view(path, hs), raw, True)
                    if len(sub2.viol) < len(sub.viol) or not any(any(x.search(v["clause"]) for x in safe) for v in sub2.viol):
                        sub2.notes.append("%s: read on the view of the program with the private helpers %s inlined at their call sites (the functions bound to the operators delegate the iteration to them)" % (cfg, ", ".join(h.split("::", 1)[1] for h in hs)))
                        sub = sub2
                except Inconclusive:
                    pass
        # "true iff …": the verdict is a function of the operands — the lazy operation evaluator (src/op/mod.rs) through
        # which the three operators are run hands (data, operands) to the operator once and returns its result as a new
        # value, with no exit of its own (a guard, a counter or a cache that can fail the operation by itself)
        from .c04 import operator_receives_operand_list
        try:
            r0_, f0_ = Roles(raw), raw
        except Inconclusive:
            # the program as written hides a role behind a private helper (the parsers delegate to `parse_operation`): the
            # evaluator clause is read on the helper-inlined view this run already works on
            r0_, f0_ = Roles(facts), facts
        operator_receives_operand_list(ctx, f0_, r0_, r0_.fn_of("all")[1].table, cfg, "K7")
        ctx.obls.extend(sub.obls)
        ctx.viol.extend(sub.viol)
        ctx.undecided.extend(sub.undecided)
        ctx.nontrivial |= sub.nontrivial
        ctx.notes.extend(sub.notes)
        ctx.counts.update(sub.counts)
        for sm in sub.samples:
            if len(ctx.samples) < 40:
                ctx.samples.append(sm)


def analyse(ctx, cfg, facts, raw_facts, is_view):
    if True:
        FACTS[0] = facts
        roles = Roles(facts)
        p = P.Prov(roles).run()
        from .c06 import truthy_role, forwarders
        truthy = truthy_role(roles)
        tkeys = {truthy.key} | forwarders(roles, truthy)
        some_b, some_e = roles.fn_of("some")
        all_b, all_e = roles.fn_of("all")
        none_b, none_e = roles.fn_of("none")
        # ---------------- K1
        def k1(c, r):
            nb, sb = r.fn_of("none")[0], r.fn_of("some")[0]
            core = negation(c, r, nb, sb, cfg)
            if core is not None:
                other = sorted({callee_path(x.term) for x in Unit(r, nb.key).calls(lambda cc: cc["local"] and cc.get("key") != core)})
                c.check(not other, "K1.nothing-else", "none computes nothing itself (%s)" % cfg, "none also calls %s" % other, where=nb.where(), fn=nb.key)
        if is_view:
            # "which function does none call, with what, and what does it do with the result" is a statement about the
            # program as written; a helper-inlined view is the same program, so the clause holds if it holds on either
            from .engine import Ctx
            subs = []
            for fx in (raw_facts, facts):
                sub = Ctx(ctx.prop, ctx.tier, ctx.level)
                try:
                    FACTS[0] = fx
                    k1(sub, roles if fx is facts else Roles(fx))
                except Inconclusive:
                    continue
                finally:
                    FACTS[0] = facts
                subs.append(sub)
                if not sub.viol and not sub.undecided:
                    break
            pick = next((x for x in subs if not x.viol and not x.undecided), subs[0] if subs else None)
            ctx.need(pick is not None, "none: the negation was not read")
            ctx.obls.extend(pick.obls)
            ctx.viol.extend(pick.viol)
            ctx.undecided.extend(pick.undecided)
            ctx.nontrivial |= pick.nontrivial
        else:
            k1(ctx, roles)
        ctx.check(some_e.num == none_e.num == all_e.num, "K1.arity", "all/some/none share the arity (%s)" % cfg, "arities differ", where=none_b.where())

        # ---------------- per operator
        mats = {}
        _, s1res = P.analyse(roles)
        for name, b, seed_want, decided_want in (("all", all_b, True, False), ("some", some_b, False, True)):
            u = Unit(roles, b.key)
            colls = find_collection_eval(roles, p, u, 0)
            ctx.check(len(colls) == 1 and not u.per_element(colls[0][0]) and colls[0][1].tags == {"DATA"}, "K2.collection-eval", "%s evaluates an operation operand once, against the outer data (%s)" % (name, cfg),
                      "%d evaluations of operand 0 outside the iteration" % len(colls), where=b.where(), fn=b.key, nontrivial=True)
            bad_ad = [callee_path(s.term) for s in u.calls_path(REORDER.pattern)]
            ctx.check(not bad_ad, "K4.in-order", "%s walks the collection front to back, every element (no reversing / skipping / truncating adaptor) (%s)" % (name, cfg),
                      "%s applies %s to the collection: the first deciding element is no longer the first in order" % (name, bad_ad), where=b.where(), fn=b.key, nontrivial=True)
            consumer_decisions(ctx, roles, name, cfg, b, seed_want, decided_want)
            pes = per_element_sites(roles, p, u, 1)
            ctx.check(len(pes) >= 1, "K4.predicate-site", "%s evaluates the predicate per element (%s)" % (name, cfg), "no per-element predicate evaluation", where=b.where(), fn=b.key)
            if not pes or not colls:
                continue
            # what each per-element evaluation is evaluated against
            for sx in u.calls_to(roles.parsed_evaluate):
                s2 = p.s2.get((sx.body.key, sx.bi))
                if not s2 or not u.per_element(sx):
                    continue
                recv = s2.extra["receiver"]
                if "RULE#1" in recv:
                    ctx.check("DATA" not in s2.tags and s2.tags, "K5.predicate-sees-element", "%s: the predicate is evaluated against the element, not the outer data (%s)" % (name, cfg),
                              "%s evaluates the predicate against a value with provenance %s" % (name, sorted(s2.tags)), where=sx.where(), fn=sx.body.key, nontrivial=True)
                elif "RULE#0" in recv:
                    # The provenance analysis keeps one tag set per local: the fields of a struct that carries the
                    # per-element state (predicate, outer data, flag) share it.  Where the tags are not the outer data
                    # alone but include it, the value itself is read: the operator's own `data` parameter, reached
                    # through field reads of aggregates built in place and closure captures, is the outer data.
                    clean = set(s2.tags) == {"DATA"}
                    if not clean and "DATA" in s2.tags and len(sx.term["args"]) == 2:
                        clean = strip_refs(sx.body.xtrace(sx.term["args"][1])) == ("arg", 1)
                    ctx.check(clean, "K5.elements-against-outer-data", "%s: an element written as an expression is evaluated against the outer data (%s)" % (name, cfg),
                              "%s evaluates a literal element against a value with provenance %s instead of the outer data" % (name, sorted(s2.tags)), where=sx.where(), fn=sx.body.key, nontrivial=True)
            # ---------------- K4: the walk stops at the first deciding element
            adaptors = []
            zero = {}          # iteration point -> the result when no element is visited (True / False / None = not read)
            for ps, ps2 in pes:
                ad = adaptor_of(u, ps)
                if ad is None:
                    ctx.unread("K4.short-circuit", "%s: predicate site %s (%s)" % (name, ps.where(), cfg), "the consumer of the per-element code was not found", where=ps.where(), fn=ps.body.key)
                    continue
                abi, aterm, clos = ad
                apath = callee_path(aterm) or ""
                adaptors.append((ps, abi, aterm, clos, apath))
                cons_path = apath
                if clos.key != b.key and LAZY.search(apath):
                    # a lazy adaptor does nothing by itself: what consumes the iterator it returns decides
                    cons = consumer_of(b, abi)
                    cons_path = (callee_path(cons[1]) or "") if cons else ""
                if clos.key == b.key:
                    zero[abi] = loop_reading(ctx, roles, name, cfg, b, ps, abi, tkeys, seed_want, decided_want)
                elif SHORT_CIRCUIT.search(cons_path):
                    ctx.ok("K4.short-circuit", "%s: predicate under short-circuiting %s (%s)" % (name, cons_path.rsplit("::", 1)[-1], cfg), nontrivial=True)
                    m = re.search(r"::(any|all)$", cons_path)
                    zero[abi] = {"any": False, "all": True}[m.group(1)] if m else None
                    if re.search(r"::(find|position|rposition|try_fold|try_for_each)$", cons_path):
                        # the consumer stops at the first element its closure singles out; WHICH verdict that is, and what
                        # the operator answers then and at exhaustion, is decided by the closure and by what is done with
                        # the consumer's result — no reading of that yet: not a pass
                        ctx.unread("K4.decided-constant", "%s: the decided path returns %s (%s)" % (name, decided_want, cfg),
                                   "%s: which verdict stops Iterator::%s, and the results on stopping and at exhaustion, were not read" % (name, cons_path.rsplit("::", 1)[-1]), where=b.where(abi), fn=b.key)
                elif cons_path == "":
                    ctx.unread("K4.short-circuit", "%s: predicate site %s (%s)" % (name, ps.where(), cfg), "the iterator built by %s is consumed in a way that was not read" % apath.rsplit("::", 1)[-1], where=ps.where(), fn=ps.body.key)
                else:
                    is_blocked = lambda t: (callee_of(t) is not None and (callee_of(t).get("key") in roles.evaluators or callee_of(t).get("key") in roles.sinks)) or "from_residual" in (callee_path(t) or "") or (t["k"] == "Call" and callee_of(t) is None)
                    inner = ps.body
                    skip = cons_path == apath and path_avoiding(inner, is_blocked)
                    ctx.check(skip, "K4.short-circuit", "%s: predicate site %s is skippable once decided (%s)" % (name, ps.where(), cfg),
                              "%s evaluates the predicate for every element (consumer %s, no path that skips the evaluation): an error or a log after the deciding element still happens" % (name, cons_path.rsplit("::", 2)[-1]),
                              where=ps.where(), fn=ps.body.key, nontrivial=True)
                    if skip and re.search(r"Iterator(>)?::fold$", apath):
                        seed = strip_refs(b.trace(aterm["args"][1]))
                        sv = bool_of(facts, seed)
                        zero[abi] = sv
                        ctx.check(sv is seed_want, "K4.seed", "%s: fold seeded with %s (%s)" % (name, seed_want, cfg), "fold seed is %s" % show_expr(seed), where=b.where(abi), fn=b.key, nontrivial=True)
                        # the decided path returns the constant
                        dec = None
                        for sb in inner.reachable():
                            tt = inner.blocks[sb]["term"]
                            if tt["k"] == "SwitchInt" and tt.get("dty") == "bool":
                                for truth in (True, False):
                                    tg = bool_edge(inner, sb, truth)
                                    region = inner.reachable(tg) - inner.reachable(bool_edge(inner, sb, not truth))
                                    if region and not any(inner.blocks[x]["term"]["k"] == "Call" and is_blocked(inner.blocks[x]["term"]) for x in region):
                                        c = const_under_edge(inner, sb, truth)
                                        if isinstance(c, bool):
                                            dec = c
                        ctx.check(dec is decided_want, "K4.decided-constant", "%s: the decided path returns %s (%s)" % (name, decided_want, cfg), "the decided path returns %s" % dec, where=inner.where(), fn=inner.key, nontrivial=True)
                        # every other verdict is the shared truthiness of the predicate's value for this element
                        vc = optnorm.decision_cases(facts, clos)
                        k6key = "%s: a verdict that is not the decided constant comes from the predicate (%s)" % (name, cfg)
                        if vc is None:
                            ctx.unread("K6.verdict-from-predicate", k6key, "the per-element code has loops or too many paths: its results were not read as cases", where=clos.where(), fn=clos.key)
                        else:
                            alien = []
                            for conds, v, _q in vc:
                                if is_err(v) or bool_of(facts, v) is not None:
                                    continue
                                x = strip_refs(v)
                                while x[0] == "agg" and x[1].get("variant") in ("Ok", "Some") and len(x[2]) == 1:
                                    x = strip_refs(x[2][0])
                                if x[0] == "call" and x[1] and x[1].get("key") in tkeys and expr_mentions(x, lambda y: y[0] == "call" and y[1] and y[1].get("key") == roles.parsed_evaluate):
                                    continue
                                alien.append(("the payload of %s" % x[1][:80]) if x[0] == "payload" else show_expr(x)[:90])
                            ctx.check(not alien, "K6.verdict-from-predicate", k6key, "%s: the verdict for an element can be %s — not the shared truthiness of the predicate's value for that element" % (name, sorted(set(alien))[:3]),
                                      where=clos.where(), fn=clos.key, nontrivial=True)
                # verdict through truthy
                tcalls = [s for s in Unit(roles, ps.body.key).calls(lambda c: c.get("key") in tkeys)] or [s for s in u.calls(lambda c: c.get("key") in tkeys) if s.body.key.startswith(clos.key)]
                ctx.check(bool(tcalls), "K6.truthy", "%s: verdict at %s through the shared truthiness (%s)" % (name, ps.where(), cfg), "the predicate's value is not passed to the shared truthiness function", where=ps.where(), fn=ps.body.key)
            if not adaptors:
                continue
            main = [a for a in adaptors if not SHORT_CIRCUIT.search(a[4])] or adaptors
            abi = main[0][1]
            # ---------------- K3 empty is false: every path that found the collection empty returns false, and the
            # iteration is reached only by paths that found it non-empty — or returns false when it visits nothing
            w0 = pathsum.summarize(b, max_paths=4000)
            k3key = "%s: an empty collection returns false before the iteration (%s)" % (name, cfg)
            if w0.overflow or not w0.paths:
                ctx.unread("K3.empty-false", k3key, "%s has too many paths to read" % name, where=b.where(), fn=b.key)
            else:
                empties = [q for q in w0.paths if emptiness(q) is True]
                wrong = sorted({show_expr(q.result)[:60] for q in empties if not q.truncated and not is_err(q.result) and bool_of(facts, q.result) is True} | {"goes on to the iteration" for q in empties if abi in q.blocks and zero.get(abi) is not False})
                unreadable = [q for q in empties if not q.truncated and not is_err(q.result) and bool_of(facts, q.result) is None and abi not in q.blocks]
                untested = [q for q in w0.paths if abi in q.blocks and emptiness(q) is None]
                if wrong:
                    ctx.fail("K3.empty-false", k3key, "%s: a path that found the collection empty %s" % (name, "; ".join(wrong)), where=b.where(), fn=b.key)
                elif untested and zero.get(abi) is True:
                    ctx.fail("K3.empty-false", k3key, "no dominating emptiness test returning the constant false: the iteration is reached without one and yields true when it visits no element", where=b.where(), fn=b.key)
                elif unreadable or (untested and zero.get(abi) is None):
                    ctx.unread("K3.empty-false", k3key, "the result for an empty collection is not read as a constant (%s)" % ("no emptiness test before the iteration" if untested else show_expr(unreadable[0].result)[:60]), where=b.where(), fn=b.key)
                else:
                    ctx.ok("K3.empty-false", k3key, nontrivial=True, sample={"operator": name, "paths_that_found_it_empty": len(empties), "tested_before_iteration": not untested})
            # ---------------- K2 matrix
            m, lossy, raw_elems = matrix(ctx, roles, u, colls, abi, [ps for ps, _ in pes], name, cfg)
            mats[name] = m
            ctx.floor("%s: cases in which elements reach the predicate (%s)" % (name, cfg), len(raw_elems), 3)
            for (o, v), raw in sorted(raw_elems.items(), key=lambda kv: (kv[0][0], kv[0][1] or "")):
                label = "%s%s" % (o, ("→" + v) if v else "")
                want_raw = o != "Array"
                k5key = "%s: elements of %s reach the predicate %s (%s)" % (name, label, "as they are" if want_raw else "only after being evaluated against the outer data", cfg)
                if raw is None:
                    ctx.unread("K5.literal-elements-evaluated", k5key, "the per-element code calls a function value that is not a known function under this case", where=b.where(), fn=b.key)
                    continue
                ctx.check(raw == want_raw, "K5.literal-elements-evaluated", k5key,
                          ("%s: an element of the literal array can reach the predicate without having been parsed and evaluated" % name) if not want_raw else ("%s: an element of a computed collection cannot reach the predicate as it is" % name),
                          where=b.where(), fn=b.key, nontrivial=True)
            ctx.check(roles.conv_faithful, "K2.conversion-faithful", "%s: the conversion of an evaluated value hands on the value itself (%s)" % (name, cfg),
                      "the crate's Evaluated → Value conversion does not return the payload unchanged for every variant: what the collection evaluated to is not what is normalised", where=roles.conv.where(), fn=roles.conv.key, nontrivial=True)
            ctx.check(not lossy, "K2.collection-unchanged", "%s: the evaluated collection reaches the kind test through value-preserving plumbing only (%s)" % (name, cfg),
                      "%s passes the evaluated collection through %s before looking at its kind: what it evaluated to is no longer what is normalised" % (name, sorted(lossy)), where=b.where(), fn=b.key, nontrivial=True)
            for (o, v), (got, evaluated) in sorted(m.items(), key=lambda kv: (kv[0][0], kv[0][1] or "")):
                want = expected(o, v)
                label = "%s%s" % (o, ("→" + v) if v else "")
                if got == "ITER(?)" and want == "ERR":
                    # what is iterated over was not read, but *that* the walk is reached was: a collection operand that
                    # must be rejected (a computed number, boolean or object) is walked as some collection instead
                    ctx.fail("K2.collection", "%s: %s ⇒ %s (%s)" % (name, label, want, cfg), "%s reaches its iteration for a collection operand of kind %s (over something that was not read) where an error is required: a value that is not iterable is treated as some collection" % (name, label), where=b.where(), fn=b.key)
                    continue
                if got.startswith("UNREAD") or got == "ITER(?)":
                    ctx.unread("K2.collection", "%s: %s ⇒ %s (%s)" % (name, label, want, cfg), "what %s iterates over for a collection operand of kind %s was not read (%s)" % (name, label, got), where=b.where(), fn=b.key)
                    continue
                ctx.check(got == want, "K2.collection", "%s: %s ⇒ %s (%s)" % (name, label, want, cfg),
                          "%s treats a collection operand of kind %s as %s; expected %s" % (name, label, got, want), where=b.where(), fn=b.key, nontrivial=True,
                          sample={"operator": name, "operand": label, "outcome": got} if label in ("Array", "String", "Null", "Object→String", "Number") else None)
                ctx.check(evaluated == (o == "Object"), "K2.evaluate-only-operations", "%s: %s operand %s evaluated first (%s)" % (name, label, "is" if o == "Object" else "is not", cfg),
                          "operand of kind %s: evaluated first = %s" % (o, evaluated), where=b.where(), fn=b.key)
            # ---------------- K5
            reach = local_reach(roles, b.key)
            dirty = [sk for sk, verdict, how in s1res if verdict == "dirty" and sk.body.key in reach]
            for sk in dirty:
                ctx.fail("K5.rule-text", "%s|%s" % (name, sk.ident()), "%s parses a value with provenance %s as a rule: elements of a computed collection (or characters) are executed" % (name, sorted(sk.tags)), where=sk.body.where(sk.bi), fn=sk.body.key)
            if not dirty:
                ctx.ok("K5.rule-text", "%s: only elements of the literal array are parsed (%s)" % (name, cfg), nontrivial=True)
        if len(mats) == 2:
            ctx.check(mats["all"] == mats["some"], "K2.siblings", "all and some normalise the collection identically (%s)" % cfg, "the two collection matrices differ", where="", nontrivial=True)
