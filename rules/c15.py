#!/usr/bin/env python3
"""C15 — merge flattens exactly one level; in is substring / deep-membership test.

  K1  merge, read as a *stream term* (rules/x_streams.py — fold + for_each, loops + push / extend, flat_map + collect,
      slice-view helpers are one representation): the vector it returns is `for each operand x of the operand list
      itself, in order: what x contributes` and nothing else (one pass, nothing substituted for the operand list, no
      adaptor that drops / reorders elements, no loop that can stop early); per assumed kind of x (helpers are read
      under that kind): an Array contributes its elements, every other kind itself — identified up to clone and
      reference plumbing; merge is not recursive; the result vector is only appended to (no dedup / sort / retain /
      truncate / insert / remove).  Inspecting more than the outer kind of an operand shows as a contribution that is
      not one of the two (the former K1.kind-switch is subsumed by K1.contribution);
  K2  in: operand 0 is the needle, operand 1 the haystack; by kind of the
      haystack (and of the needle for strings): Null → constant false; Array →
      membership of the needle among the elements under the membership equality;
      String × String needle → exactly str::contains(haystack, needle) (no other
      path to a boolean); String × other needle → Err; Bool/Number/Object → Err;
      no byte-length / character-count mix (R-UNITS); the outcomes are read from path summaries, context-sensitively
      through private helpers (a helper's answer under the assumed kinds decides `helper(..)?` and Option switches),
      loops by kind specialisation + the membership-loop reader; an outcome that is not read is UNDECIDED;
  K3  membership equality is not spelling-sensitive (A1): `in` itself never uses
      serde_json's Value/Number equality or slice::contains on values; the
      membership function compares Number×Number exactly (integer pairs as
      integers through as_i64 / as_u64, f64 only otherwise), recurses
      structurally into Array×Array (same length, element-wise) and
      Object×Object (same length, key-wise via Map::get — key order irrelevant),
      and uses plain equality only where no number can hide (different kinds or
      Null/Bool/String); every way the code goes on when Map::get answers None (combinator default, match arm,
      let-else, early return out of a loop) yields false — going round the loop again is a violation.
Not decided: that the numeric comparison equals deep numeric equality on all values; the sense in which the
recursive answers are combined (a dropped negation in the element-wise / key-wise comparison is not caught).
"""
import re
from .core import (callee_of, callee_path, strip_refs, strip_payload, show_expr, const_value, expr_mentions, op_const)
from .engine import Inconclusive
from .roles import Roles
from .opfacts import Unit
from . import prov as P
from . import units as U
from . import pairs, strnum
from .c16 import kind_of_param_switches

VALUE = "serde_json::Value"
CLONE = "<serde_json::Value as std::clone::Clone>::clone"
INDEX_PATH = "<std::vec::Vec<T, A> as std::ops::Index<I>>::index"
MUTATORS = re.compile(r"^std::vec::Vec::<T, A>::(dedup\w*|sort\w*|retain\w*|truncate|insert|remove|swap_remove|drain|split_off|reverse|clear|pop)$|^core::slice::<impl \[T\]>::(sort\w*|reverse|rotate\w*)$")
SPELLING_EQ = re.compile(r"^<serde_json::(Value|Number) as std::cmp::PartialEq>::(eq|ne)$|^core::slice::<impl \[T\]>::contains$|^<std::vec::Vec<.*> as std::cmp::PartialEq.*>::(eq|ne)$|^<serde_json::Map<.*> as std::cmp::PartialEq>::(eq|ne)$")


def membership_loop(facts, ib, blocks, operand):
    """`for e in haystack { if eq(e, needle) { return Ok(true) } } Ok(false)`: the key of `eq`, or None."""
    from . import panic as PN
    from .core import strip_payload, bool_edge, switch_edges_for_variant
    from .opfacts import const_under_edge
    for (h, bl, srcs) in PN.loops_of(ib):
        if h not in blocks:
            continue
        nbi = [bi for bi in sorted(bl) if ib.blocks[bi]["term"]["k"] == "Call" and (callee_path(ib.blocks[bi]["term"]) or "").endswith("::next")]
        if len(nbi) != 1:
            continue
        it = ib.trace(ib.blocks[nbi[0]]["term"]["args"][0])
        if not expr_mentions(it, lambda x: x[0] == "downcast" and x[2] == "Array" and operand(x[1]) == 1):
            continue
        if expr_mentions(it, lambda x: x[0] == "call" and x[1] and re.search(r"(Iterator::|Iterator>::)(rev|skip|take|filter|step_by)$", x[1]["path"]) is not None):
            continue

        def is_elem(e):
            x = strip_payload(strip_refs(e))
            return x[0] == "call" and x[1] is not None and x[3] == nbi[0]

        for sb in sorted(bl):
            tt = ib.blocks[sb]["term"]
            if tt["k"] != "SwitchInt" or tt.get("dty") != "bool":
                continue
            e = strip_refs(ib.trace(tt["discr"]))
            if e[0] == "call" and e[1] and e[1]["local"] and len(e[2]) == 2:
                a_ = [strip_refs(x) for x in e[2]]
                if any(is_elem(x) for x in a_) and any(operand(x) == 0 for x in a_):
                    hit = const_under_edge(ib, sb, True)
                    # leaving the loop on the iterator's None edge returns false
                    miss = None
                    for xb in sorted(bl):
                        t2 = ib.blocks[xb]["term"]
                        if t2["k"] == "SwitchInt":
                            d = ib.trace(t2["discr"])
                            if d[0] == "discr" and strip_refs(d[1])[0] == "call" and strip_refs(d[1])[3] == nbi[0]:
                                r = switch_edges_for_variant(ib, xb, "None")
                                if r:
                                    only = ib.reachable(r[0]) - bl
                                    with ib.restricted(only):
                                        rr = strip_refs(ib.trace(0))
                                    if rr[0] == "agg" and rr[1].get("variant") == "Ok":
                                        v_ = strip_refs(rr[2][0])
                                        if v_[0] == "agg" and v_[1].get("variant") == "Bool" and strip_refs(v_[2][0])[0] == "const":
                                            miss = const_value(strip_refs(v_[2][0])[1])
                    if hit is True and miss is False:
                        return e[1]["key"]
    return None


def merge_contributions(ctx, facts, mb, vecp, cfg):
    """K1 on stream terms (rules/x_streams.py): whatever the spelling — fold + for_each, loops + push / extend,
    flat_map + collect, helpers that view an operand as a slice — the vector merge returns is read as
    `for each operand x of the operand list: <what x contributes>`, once per assumed kind of x."""
    from . import x_streams as XS
    # read once per assumed kind of the operands (helpers are then read under that kind, too)
    readings = {v: XS.read_vector(facts, mb, vecp, v) for v in facts.variants(VALUE)}
    # ---- the pass and what it runs over
    unknown_src, wrong_src, reordered, passes, shown = [], [], [], [], []
    for v, (R, terms) in readings.items():
        for t0 in terms:
            for t in (t0[1] if t0[0] == "alt" else [t0]):
                tops = t[1] if t[0] == "seq" else [t]
                fors = [x for x in tops if x[0] in ("for", "operands", "exit", "adapted", "members", "other")]
                passes.append(len(fors) if not XS.find(t, "unknown") or fors else None)
                if R.show(t) not in shown:
                    shown.append(R.show(t))
                for x in fors:
                    while x[0] in ("adapted", "exit"):
                        reordered.append("%s: %s" % (x[1] if x[0] == "adapted" else "early exit", R.show(x)))
                        x = x[2] if x[0] == "adapted" else x[1]
                    S = x[1] if x[0] == "for" else x
                    if S == ("operands",):
                        continue
                    if XS.find(S, "unknown") or S[0] == "unknown":
                        unknown_src.append(R.show(S))
                    else:
                        wrong_src.append(R.show(S))
    shown = "; ".join(shown)[:300]
    if any(n is None for n in passes) or not passes:
        ctx.unread("K1.one-pass", "merge makes one pass over its operands (%s)" % cfg, "the vector merge returns is not read as passes over streams: %s" % shown, where=mb.where(), fn=mb.key)
    else:
        ctx.check(all(n <= 1 for n in passes), "K1.one-pass", "merge makes one pass over its operands (%s)" % cfg, "the vector merge returns is built as: %s" % shown, where=mb.where(), fn=mb.key, nontrivial=True)
    for r_ in sorted(set(reordered)):
        ctx.fail("K1.append-only", "merge|%s" % r_.split(":")[0], "the elements merge returns go through %s (order / multiplicity would change)" % r_[:200], where=mb.where(), fn=mb.key)
    if wrong_src:
        ctx.fail("K1.over-operands", "the pass iterates the operand list itself (%s)" % cfg,
                 "merge iterates %s instead of its operand list: some operand shapes are rewritten before flattening (more than one level can be spliced)" % "; ".join(sorted(set(wrong_src)))[:200], where=mb.where(), fn=mb.key)
    elif unknown_src:
        ctx.unread("K1.over-operands", "the pass iterates the operand list itself (%s)" % cfg, "what merge iterates is not read: %s" % "; ".join(sorted(set(unknown_src)))[:200], where=mb.where(), fn=mb.key)
    elif passes:
        ctx.ok("K1.over-operands", "the pass iterates the operand list itself (%s)" % cfg, nontrivial=True)
    # ---- per kind of operand
    for v in facts.variants(VALUE):
        Rv, tv = readings[v]
        tv = [t for t0 in tv for t in (t0[1] if t0[0] == "alt" else [t0])]
        key = "merge: a %s operand contributes %s (%s)" % (v, "its elements" if v == "Array" else "itself", cfg)
        per = []        # what one operand contributes, per alternative
        for t in tv:
            tops = t[1] if t[0] == "seq" else [t]
            for x in tops:
                while x[0] in ("adapted", "exit"):       # reported by K1.append-only
                    x = x[2] if x[0] == "adapted" else x[1]
                if x == ("operands",):
                    per.append(("one", "x"))
                elif x[0] == "for" and x[1] == ("operands",):
                    for a in [b_ for a0 in x[3] for b_ in (a0[1] if a0[0] == "alt" else [a0])]:
                        per.append(("members", "x") if a == ("members", x[2]) else (("one", "x") if a == ("one", x[2]) else a))
                elif x[0] == "empty":
                    continue
                elif x[0] == "for" and tv is not None and XS.find(x[1], "unknown"):
                    per.append(("unknown", "source"))
                elif x[0] == "for" or x[0] in ("members", "adapted", "other", "exit"):
                    continue        # a pass over something else: reported by K1.over-operands
                else:
                    per.append(x)
        want = ("members", "x") if v == "Array" else ("one", "x")
        shown = " | ".join(sorted({("its elements" if a == ("members", "x") else "itself" if a == ("one", "x") else Rv.show(a)) for a in per})) or "nothing"
        bad = [a for a in per if a != want]
        if not per and (wrong_src or unknown_src):
            continue
        if bad and all(XS.find(a, "unknown") or a[0] == "unknown" for a in bad):
            ctx.unread("K1.contribution", key, "what a %s operand contributes is not read: %s" % (v, shown), where=mb.where(), fn=mb.key)
            continue
        ctx.check(bool(per) and not bad, "K1.contribution", key, "in merge a %s operand contributes %s" % (v, shown), where=mb.where(), fn=mb.key, nontrivial=True,
                  sample={"kind": v, "contributes": shown})


def in_expected(hv, nv):
    if hv == "Null":
        want = "CONST:false"
    elif hv == "Array":
        want = "MEMBERSHIP"
    elif hv == "String":
        want = "SUBSTRING" if nv == "String" else ("ERR" if nv is not None else "ERR|SUBSTRING")
    else:
        want = "ERR"
    return want, hv + ("×needle %s" % nv if nv else "")


def in_outcomes(facts, ib, operand, hv, nv):
    """K2 on path summaries read context-sensitively through private helpers (rules/x_streams.Reader): every way `in`
    produces its result when the haystack (operand 1) has kind hv and the needle (operand 0) kind nv (None = any).
    → (sorted outcome names, membership function key | None), or None when the code has loops (the loop reader decides).
    Outcomes: ERR, CONST:true/false, SUBSTRING, MEMBERSHIP, SPELLING-MEMBERSHIP, and ?(…) for a value that is not read."""
    from . import x_streams as XS

    class R_(XS.Reader):
        def known(self, pe, adt):
            if adt == VALUE:
                i = operand(pe)
                if i == 1:
                    return hv
                if i == 0 and nv is not None:
                    return nv
            x = strip_refs(pe)
            if x[0] == "call" and x[1] and x[1].get("local") and adt in ("std::option::Option", "std::result::Result"):
                # a private helper's answer, its Option/Result combinators in case normal form under the assumed kinds
                res = self.call_results(x, x[2])
                if res:
                    vs = set()
                    for r0 in res:
                        for r in expand(r0):
                            r = strip_refs(r)
                            vs.add(r[1].get("variant") if r[0] == "agg" else None)
                    if len(vs) == 1 and None not in vs:
                        return vs.pop()
                    return None
            return XS.Reader.known(self, pe, adt)
    R = R_(facts, ib, None)
    mem = []
    looped = []

    KIND_ACCESSOR = {"as_str": "String", "as_array": "Array", "as_object": "Object", "as_bool": "Bool", "as_null": "Null", "as_number": "Number",
                     "is_string": "String", "is_array": "Array", "is_object": "Object", "is_boolean": "Bool", "is_null": "Null", "is_number": "Number"}

    def expand(r):
        """The values an expression can take, Option/Result combinators in case normal form (rules/optnorm.py); a case
        that asks serde_json's kind accessor of an operand for an answer the assumed kind excludes is dropped."""
        from . import optnorm
        subs = optnorm.cases_expr(facts, r)
        if not subs:
            return [r]
        outs = []
        for conds, val in subs:
            feasible = True
            for k_, v_ in conds:
                src = optnorm.SRC_EXPRS.get(k_)
                src = strip_refs(src) if src is not None else None
                if k_[0] == "variant" and src is not None and src[0] == "call" and src[1] and src[1]["path"].startswith("serde_json::Value::") and src[2]:
                    acc = KIND_ACCESSOR.get(src[1]["path"].rsplit("::", 1)[1])
                    i = operand(src[2][0])
                    kind = hv if i == 1 else (nv if i == 0 else None)
                    if acc and kind is not None and v_ in ("Some", "None") and (v_ == "Some") != (kind == acc):
                        feasible = False
            if feasible:
                outs.append(val)
        return outs

    def membership_walk(call):
        """A private helper that *walks* (loops over) the haystack's elements: on every path a candidate is handed to an
        equality together with the needle; a candidate that is the same ends the walk with true, one that is not lets
        the walk go on, and the exhausted walk answers false.  → outcome names, or None when not such a walk."""
        from . import pathsum
        fb = facts.body(call[1].get("key"))
        if fb is None:
            return None
        w = pathsum.summarize(fb, known=R.known, env=dict((1 + i, a) for i, a in enumerate(call[2])), max_paths=800)
        if w.overflow or not w.paths:
            return None
        outs, found = [], []
        for p in w.paths:
            hits = []
            for ev in p.events:
                c = ev[1]
                if not c or len(ev[2]) != 2:
                    continue
                spelling = bool(SPELLING_EQ.search(c["path"]) or any(SPELLING_EQ.search(fw.get("path", "")) for fw in (c.get("fwd") or [])))
                if not (c.get("local") or spelling):
                    continue
                ids = [R.ident(a) for a in ev[2]]
                cand = [a for a in ids if isinstance(a, tuple) and a[0] == "elem"]
                if len(cand) != 1 or not any(operand(a) == 0 for a in ids):
                    continue
                nx = fb.blocks[cand[0][1]]["term"]
                S = R.norm(R.stream(pathsum_arg(w, p, cand[0][1], ev[2])))
                hits.append((ev, c, spelling, S))
            if not hits:
                if p.truncated:
                    return None
                res = strip_refs(p.result)
                if not (res[0] == "const" and const_value(res[1]) is False):
                    return None            # the walk that found nothing must answer false
                continue
            if len(hits) != 1:
                return None
            ev, c, spelling, S = hits[0]
            verdict = p.atoms.get(("site", ev[3])) if c.get("local") else p.atoms.get(("pure", pathsum.canon(strip_refs(("call", c, ev[2], ev[3])))))
            res = strip_refs(p.result) if (not p.truncated and p.result is not None) else None
            ok_path = (verdict is True and res is not None and res[0] == "const" and const_value(res[1]) is True) or (verdict is False and p.truncated)
            if not ok_path:
                return None
            if S[0] == "adapted" and S[2][0] == "members" and operand(S[2][1]) == 1:
                outs.append("MEMBERSHIP-AMONG-%s(elements)" % S[1])
            elif not (S[0] == "members" and operand(S[1]) == 1):
                outs.append("ANY(%s)" % R.show(S)[:40])
            elif spelling:
                outs.append("SPELLING-MEMBERSHIP")
            else:
                found.append(c["key"])
                outs.append("MEMBERSHIP")
        if not outs:
            return None
        mem.extend(found)
        return outs

    def pathsum_arg(w, p, site, args):
        """The iterator expression the candidate was pulled from: the argument of the `next()` at `site`, in the
        caller's terms (taken from the candidate expression itself)."""
        hit = []
        for a in args:
            expr_mentions(a, lambda y: y[0] == "call" and y[1] and y[1]["path"].endswith("::next") and len(y) > 3 and y[3] == site and y[2] and not hit.append(y[2][0]))
        return hit[0] if hit else ("unknown",)

    def payload_of(e, variant):
        """`(X as Ok).0` / `(branch(X) as Continue).0` where X is a private helper's answer: the helper's Ok payloads."""
        x = strip_refs(e)
        if not (x[0] == "field" and x[2] == 0 and x[1][0] == "downcast" and x[1][2] in ("Ok", "Continue", "Some")):
            return None
        src = strip_refs(x[1][1])
        if src[0] == "call" and src[1] and src[1]["path"].endswith("as std::ops::Try>::branch") and src[2]:
            src = strip_refs(src[2][0])
        if src[0] == "call" and src[1] and src[1].get("local"):
            res = R.call_results(src, src[2])
            if res is None:
                return None
            outs = []
            for r0 in res:
                for r in expand(r0):
                    r = strip_refs(r)
                    if r[0] == "agg" and r[1].get("variant") in ("Ok", "Some") and len(r[2]) == 1:
                        outs.append(r[2][0])
                    elif r[0] == "agg" and r[1].get("variant") in ("Err", "None"):
                        continue
                    else:
                        return None
            return outs
        return None

    def boolean(e, depth=0):
        x = strip_refs(e)
        if depth > 6:
            return ["?(deep)"]
        if x[0] == "phi":
            return [o for a in x[2] for o in boolean(a, depth + 1)]
        if x[0] == "const":
            return ["CONST:%s" % str(const_value(x[1])).lower()]
        pl = payload_of(x, "Ok")
        if pl is not None:
            return [o for a in pl for o in boolean(a, depth + 1)]
        if x[0] == "call" and x[1]:
            path = x[1]["path"]
            if x[1].get("local"):
                res = R.call_results(x, x[2])
                if res is None:
                    walk = membership_walk(x)
                    if walk is not None:
                        return walk
                    looped.append(x[1].get("key"))
                    return ["?(helper %s)" % x[1].get("key")]
                return [o for a in res for o in boolean(a, depth + 1)]
            if path == "core::str::<impl str>::contains" and len(x[2]) == 2:
                # the text of a String operand: its payload, or what `as_str` hands out (Some exactly for a String)
                def text_of(e_, i_):
                    return expr_mentions(e_, lambda y: (y[0] == "downcast" and y[2] == "String" and operand(y[1]) == i_)
                                         or (y[0] == "call" and y[1] and y[1]["path"] == "serde_json::Value::as_str" and y[2] and operand(y[2][0]) == i_))
                hs = text_of(x[2][0], 1)
                ns = text_of(x[2][1], 0)
                return ["SUBSTRING" if hs and ns else "SUBSTRING(wrong operands)"]
            if path == "core::slice::<impl [T]>::contains":
                return ["SPELLING-MEMBERSHIP"]
            if re.search(r"(Iterator::|Iterator>::)any$", path) and len(x[2]) == 2:
                S = R.norm(R.stream(x[2][0]))
                over = S[0] == "members" and operand(S[1]) == 1
                var = R.fresh("candidate")
                res = R.apply(x[2][1], [var])
                if S[0] == "adapted" and S[2][0] == "members" and operand(S[2][1]) == 1:
                    return ["MEMBERSHIP-AMONG-%s(elements)" % S[1]]
                if res is None or not over:
                    return ["ANY(%s)" % R.show(S)[:40]]
                outs = []
                for r in res:
                    r = strip_refs(r)
                    if r[0] == "call" and r[1] and (SPELLING_EQ.search(r[1]["path"]) or any(SPELLING_EQ.search(fw.get("path", "")) for fw in (r[1].get("fwd") or []))):
                        outs.append("SPELLING-MEMBERSHIP")
                    elif r[0] == "call" and r[1] and r[1].get("local") and len(r[2]) == 2:
                        a_ = [R.ident(a) for a in r[2]]
                        if any(a == var for a in a_) and any(operand(a) == 0 for a in a_):
                            mem.append(r[1]["key"])
                            outs.append("MEMBERSHIP")
                        else:
                            outs.append("ANY(wrong operands)")
                    else:
                        outs.append("?(%s)" % show_expr(r)[:40])
                return outs
        return ["?(%s)" % show_expr(x)[:40]]

    def value(e, depth=0):
        x = strip_refs(e)
        if depth > 6:
            return ["?(deep)"]
        if x[0] == "phi":
            return [o for a in x[2] for o in value(a, depth + 1)]
        if x[0] == "call" and x[1] and not x[1].get("local") and re.match(r"^std::(option::Option|result::Result)::<", x[1].get("path", "")):
            ex = expand(x)
            if ex and not (len(ex) == 1 and strip_refs(ex[0]) == x):
                return [o for a in ex for o in value(a, depth + 1)]
        if x[0] == "agg" and x[1].get("variant") == "Err":
            return ["ERR"]
        if x[0] == "call" and x[1] and "from_residual" in x[1].get("path", ""):
            return ["ERR"]
        if x[0] == "agg" and x[1].get("variant") == "Ok" and len(x[2]) == 1:
            v_ = strip_refs(x[2][0])
            if v_[0] == "agg" and v_[1].get("variant") == "Bool" and len(v_[2]) == 1:
                return boolean(v_[2][0], depth + 1)
            return ["OK(%s)" % show_expr(v_)[:40]]
        if x[0] == "call" and x[1] and x[1].get("local"):
            res = R.call_results(x, x[2])
            if res is None:
                looped.append(x[1].get("key"))
                return ["?(helper %s)" % x[1].get("key")]
            return [o for a in res for o in value(a, depth + 1)]
        return ["?(%s)" % show_expr(x)[:40]]
    w = R.paths_of(ib, {})
    if w is None or any(p.truncated for p in w.paths):
        return None
    outs = []
    for p in w.paths:
        outs.extend(value(p.result))
    if looped:
        return None
    ms = sorted(set(mem))
    return sorted(set(outs)), (ms[0] if len(ms) == 1 else None)


def _is_json_value(b, x):
    """x is a JSON value constant or construction (the NULL item, a promoted `&Value::Null`, `Value::Null` …)."""
    if x[0] == "const" and ("serde_json::Value" in str(x[1].get("ty", "")) or "item" in x[1] or "promoted" in x[1]):
        return "serde_json::Value" in str(x[1].get("ty", "")) or "NULL" in str(x[1].get("item", "")) or "promoted" in x[1]
    if x[0] == "agg" and x[1].get("adt") == "serde_json::Value":
        return True
    return False


def missing_key(ctx, facts, unit, mf, cfg):
    """K3.missing-key on path summaries + case normal form: in every body of the membership equality that looks a key
    up in the other object (`Map::get`), every way the code can go on when the lookup answers None — an `unwrap_or` /
    `map_or` default, an `is_some_and`, a `match` arm, a `let … else`, an early `return` out of a loop — must yield
    the constant false.  A None case that goes round the loop again (the key is skipped) or yields true is a violation;
    a None case whose value is not a constant is not read."""
    from . import pathsum, optnorm

    def is_get(e):
        e = strip_refs(e)
        return e[0] == "call" and e[1] is not None and e[1]["path"].startswith("serde_json::Map::<") and e[1]["path"].endswith("::get")

    def known(pe, adt):
        if adt == VALUE and strip_refs(pe) in (("arg", 1), ("arg", 2)):
            return "Object"
        return None
    lookups = 0
    decided = 0
    for b in unit.bodies:
        if not any(is_get(("call", callee_of(t), [], bi)) for (bi, t) in b.calls() if callee_of(t)):
            continue
        lookups += 1
        w = pathsum.summarize(b, known=known if b.key == mf.key else None, max_paths=3000)
        if w.overflow or not w.paths:
            ctx.unread("K3.missing-key", "a key missing from the other object makes the objects different (%s, %s)" % (b.key, cfg), "too many paths", where=b.where(), fn=b.key)
            continue
        seen = set()
        for p in w.paths:
            if p.truncated or p.result is None:
                subs = [((), None)]
            else:
                subs = optnorm.cases_expr(facts, p.result) or [((), ("unknown",))]
            for c2, val in subs:
                conds = dict(p.atoms)
                feasible = True
                for k_, v_ in c2:
                    if k_ in conds and conds[k_] != v_:
                        feasible = False
                    conds[k_] = v_
                if not feasible:
                    continue
                for k_, v_ in conds.items():
                    if k_[0] != "variant" or v_ != "None":
                        continue
                    src = w.exprs.get(k_)
                    if src is None:
                        src = optnorm.SRC_EXPRS.get(k_)
                    if src is None or not is_get(src):
                        continue
                    key = "a key missing from the other object makes the objects different (%s, %s)" % (b.key, cfg)
                    if val is None:
                        out = "goes on with the next key"
                    else:
                        x = strip_refs(val)
                        out = const_value(x[1]) if x[0] == "const" else None
                    if (key, str(out)) in seen:
                        continue
                    seen.add((key, str(out)))
                    if out is False:
                        decided += 1
                        ctx.ok("K3.missing-key", key, nontrivial=True)
                    elif out is None and val is not None and _is_json_value(b, strip_refs(val)):
                        # the lookup's miss is replaced by a *value* (`get(key).unwrap_or(&NULL)`): the comparison goes on
                        # with a stand-in, so a key the other object lacks is the same as that key holding the stand-in
                        ctx.fail("K3.missing-key", key, "for a key that the other object lacks the lookup yields a stand-in value (%s) that is then compared: {\"a\": null} and {\"b\": null} would be the same element" % show_expr(val)[:60], where=b.where(), fn=b.key)
                    elif out is None:
                        ctx.unread("K3.missing-key", key, "for a key that the other object lacks the membership equality yields %s" % show_expr(val)[:80], where=b.where(), fn=b.key)
                    else:
                        ctx.fail("K3.missing-key", key, "for a key that the other object lacks the membership equality %s: objects with different key sets would be the same element" % ("yields %s" % out if val is not None else out), where=b.where(), fn=b.key)
                        decided += 1
    if lookups == 0:
        ctx.fail("K3.missing-key-site", "the key-wise comparison handles a missing key explicitly (%s)" % cfg, "no Map::get in the membership equality: objects are not compared key by key", where=mf.where(), fn=mf.key)
    elif decided == 0:
        ctx.unread("K3.missing-key-site", "the key-wise comparison handles a missing key explicitly (%s)" % cfg, "no case of the Map::get lookup answering None was read", where=mf.where(), fn=mf.key)
    else:
        ctx.ok("K3.missing-key-site", "the key-wise comparison handles a missing key explicitly (%s)" % cfg)


def container_walk(facts, b, mf, known=None):
    """K3.elementwise on a body that walks the members in *loops* (path summaries): what the property needs is stated
    on the events of every path, not on the spelling of the walk —
      * a key of one object looked up in the other (`Map::get(Y, key of X)`) and a pair of members handed to the
        membership equality (`same(next of X, next of Y)`) happen only on paths on which `len(X) == len(Y)` holds for
        those very X and Y (a walk over one side alone, or a pairwise walk that stops at the shorter side, decides a
        sub-collection / prefix to be the same element);
      * a pair that is not the same ends the walk with false; a pair that is the same lets the walk go on (it does
        not decide the answer).
    → {"Object": (bad, good, unread), "Array": (bad, good, unread)}, or None when the body is not summarised."""
    from . import pathsum
    w = pathsum.summarize(b, known=known, max_paths=3000)
    if w.overflow or not w.paths:
        return None

    def measured(txt):
        """What a `len(..)` rendering measures, reference plumbing peeled."""
        if "::len(" not in txt:
            return None
        x = txt.split("::len(", 1)[1]
        x = x[:-1] if x.endswith(")") else x
        while True:
            m = re.match(r"^\((?:ref|deref) (.*)\)$", x)
            if not m:
                return x
            x = m.group(1)

    def lens_equal(p, c1, c2):
        """True / False / None: the path knows len(X) == len(Y) for X inside c1 and Y inside c2 (or the other way round)."""
        seen = None
        for k, val in p.atoms.items():
            if k[0] == "cmp" and isinstance(val, bool):
                la, lb = measured(str(k[2])), measured(str(k[3]))
                if la is None or lb is None or la == lb:
                    continue
                if (la in c1 and lb in c2) or (la in c2 and lb in c1):
                    if k[1] != "Eq":
                        return "cmp:" + k[1]
                    seen = val if seen is None else (seen and val)
        return seen

    out = {"Object": ([], 0, []), "Array": ([], 0, [])}

    def note(kind, what, msg=None):
        bad, good, unread = out[kind]
        if what == "bad":
            bad.append(msg)
        elif what == "unread":
            unread.append(msg)
        else:
            out[kind] = (bad, good + 1, unread)

    for p in w.paths:
        gets = [ev for ev in p.events if ev[1] and ev[1]["path"].startswith("serde_json::Map::<") and ev[1]["path"].endswith("::get") and len(ev[2]) == 2]
        recs = [ev for ev in p.events if ev[1] and ev[1].get("key") == mf.key and len(ev[2]) == 2]
        for ev in gets:
            cy, ck = pathsum.canon(strip_refs(ev[2][0])), pathsum.canon(strip_refs(ev[2][1]))
            if "::next(" not in ck:
                continue            # not a key handed out by a walk
            le = lens_equal(p, ck, cy)
            if le is True:
                note("Object", "good")
            elif isinstance(le, str):
                note("Object", "bad", "the two numbers of entries are compared with %s (only equality decides)" % le.split(":")[1])
            else:
                note("Object", "bad", "the entries of one object are walked and the numbers of entries of these two objects are not known to be equal on this path: an object would be the same element as any object that has its keys among others")
        for ev in recs:
            c1, c2 = pathsum.canon(strip_refs(ev[2][0])), pathsum.canon(strip_refs(ev[2][1]))
            if "::next(" not in c1 and "::next(" not in c2:
                continue            # not a pair handed out by a walk (a re-dispatch)
            kind = "Object" if ("::get(" in c1 or "::get(" in c2) else "Array"
            if kind == "Array":
                le = lens_equal(p, c1, c2)
                if isinstance(le, str):
                    note(kind, "bad", "the two lengths are compared with %s (only equality decides: a shorter array is not the same element as a longer one that starts with it)" % le.split(":")[1])
                    continue
                if le is not True:
                    note(kind, "bad", "the members are walked pairwise and the lengths of these two arrays are not known to be equal on this path: the walk stops at the shorter side, so a prefix is the same element as the whole")
                    continue
            verdict = p.atoms.get(("site", ev[3]))
            res = strip_refs(p.result) if (p.result is not None and not p.truncated) else None
            const = const_value(res[1]) if (res is not None and res[0] == "const") else None
            if verdict is False:
                if p.truncated:
                    note(kind, "bad", "the walk goes on after a pair of members that is not the same: two %ss are the same element only if *every* pair of members is" % kind.lower())
                elif const is False:
                    note(kind, "good")
                elif const is True:
                    note(kind, "bad", "a pair of members that is not the same makes the %ss the same element" % kind.lower())
                else:
                    note(kind, "unread", "after a pair that is not the same the result is %s" % (show_expr(res)[:50] if res is not None else "?"))
            elif verdict is True:
                if p.truncated:
                    note(kind, "good")
                elif isinstance(const, bool):
                    note(kind, "bad", "one pair of members that is the same decides the answer (%s): two %ss are the same element only if *every* pair of members is" % (str(const).lower(), kind.lower()))
                else:
                    note(kind, "unread", "after a pair that is the same the result is %s" % (show_expr(res)[:50] if res is not None else "?"))
            else:
                note(kind, "unread", "what the walk does with the answer for a pair of members is not read")
    return out


def container_cases(ctx, facts, mf, cfg):
    """K3.elementwise — the container cases of the membership equality, read on its decision cases with both kinds fixed:
    two arrays (two objects) are the same element iff they have the *same number* of members and *every* pair of
    corresponding members is.  Read: the comparison of the two lengths (equality only; `<=` admits a prefix), what is
    returned when the lengths differ (false), and the consumer of the pairwise walk — `all` over un-negated recursion
    (or `!any` over negated recursion); `any`, a negated predicate under `all`, or a `zip` walk with no length test
    (zip stops at the shorter side) are read and wrong.  Walks spelled as loops or in helpers are UNDECIDED here."""
    from . import optnorm, pathsum
    VALUE_ = "serde_json::Value"

    def is_len_of(txt, argn):
        return "::len(" in txt and ("(arg %d)" % argn) in txt and ("(arg %d)" % (3 - argn)) not in txt

    for kind in ("Array", "Object"):
        key0 = "membership equality %s,%s (%s)" % (kind, kind, cfg)
        cases = optnorm.decision_cases(facts, mf, known=lambda e, adt, _k=kind: _k if (adt == VALUE_ and strip_refs(e) in (("arg", 1), ("arg", 2))) else None)
        kn = lambda e, adt, _k=kind: _k if (adt == VALUE_ and strip_refs(e) in (("arg", 1), ("arg", 2))) else None
        if cases is None:
            # the walk is spelled with loops in the membership equality itself
            wk = container_walk(facts, mf, mf, known=kn)
            if wk is None or not (wk[kind][0] or wk[kind][1] or wk[kind][2]):
                ctx.unread("K3.elementwise", key0, "the membership equality has loops or too many paths to summarise, and no walk over the members of two %ss is read" % kind.lower(), where=mf.where(), fn=mf.key)
                continue
            bad, good, unread = wk[kind]
            for b_ in sorted(set(bad)):
                ctx.fail("K3.elementwise", key0 + "|" + b_[:40], b_, where=mf.where(), fn=mf.key)
            if not bad and unread:
                ctx.unread("K3.elementwise", key0, "the %s walk is not read: %s" % (kind, unread[:2]), where=mf.where(), fn=mf.key)
            elif not bad:
                ctx.ok("K3.elementwise", key0, nontrivial=True, sample={"kind": kind, "walks": good})
            continue
        bad, good, unread = [], 0, []
        for conds, v, p in cases:
            len_state = None      # True: lengths known equal on this case; False: known different
            for k, val in conds.items():
                if k[0] == "cmp" and isinstance(val, bool):
                    a_, b_ = str(k[2]), str(k[3])
                    if (is_len_of(a_, 1) and is_len_of(b_, 2)) or (is_len_of(a_, 2) and is_len_of(b_, 1)):
                        if k[1] == "Eq":
                            len_state = val
                        else:
                            bad.append("the two lengths are compared with %s (only equality decides: a shorter %s is not the same element as a longer one that starts with it)" % (k[1] if val else "not " + k[1], kind.lower()))
            vv = strip_refs(v)
            neg = False
            while vv[0] == "unop" and vv[1] == "Not":
                neg, vv = not neg, strip_refs(vv[2])
            if len_state is False:
                if not (vv[0] == "const" and const_value(vv[1]) is (True if neg else False)):
                    bad.append("with different lengths the result is %s (expected false)" % show_expr(strip_refs(v))[:60])
                continue
            if vv[0] == "const":
                continue
            if vv[0] == "binop" and vv[1] in ("Eq", "Ne"):
                ca, cb = pathsum.canon(strip_refs(vv[2])), pathsum.canon(strip_refs(vv[3]))
                if (is_len_of(ca, 1) and is_len_of(cb, 2)) or (is_len_of(ca, 2) and is_len_of(cb, 1)):
                    continue          # the length comparison itself returned as the result (empty walk): nothing to read
            if vv[0] == "call" and vv[1] and vv[1].get("local") and vv[1].get("key") != mf.key and not neg and facts.body(vv[1]["key"]) is not None and len_state is None:
                # the case is handed to a private helper (`arrays_eq(xs, ys)`): the helper's walk is the case's walk
                hb = facts.body(vv[1]["key"])
                wk = container_walk(facts, hb, mf)
                if wk is not None and any(wk[k_][0] or wk[k_][1] or wk[k_][2] for k_ in wk):
                    for k_ in wk:
                        bad.extend(wk[k_][0])
                        good += wk[k_][1]
                        unread.extend(wk[k_][2])
                    continue
            m_ = re.search(r"(Iterator::|Iterator>::)(all|any)$", vv[1]["path"]) if (vv[0] == "call" and vv[1]) else None
            if not m_ or len(vv[2]) != 2:
                unread.append(show_expr(strip_refs(v))[:70])
                continue
            consumer = m_.group(2)
            src = pathsum.canon(strip_refs(vv[2][0]))
            zipped = "::zip(" in src
            cc = optnorm._closure_cases(facts, vv[2][1], [("elem",)], 0)
            if cc is None:
                unread.append("predicate of %s not readable" % consumer)
                continue
            pol = set()
            other = []
            for c2, v2 in cc:
                x = strip_refs(v2)
                n2 = False
                while x[0] == "unop" and x[1] == "Not":
                    n2, x = not n2, strip_refs(x[2])
                if x[0] == "call" and x[1] and x[1].get("key") == mf.key:
                    pol.add(not n2)
                elif x[0] == "const" and isinstance(const_value(x[1]), bool):
                    continue          # a missing key etc.: K3.missing-key
                else:
                    other.append(show_expr(x)[:50])
            if other or len(pol) != 1:
                unread.append("predicate of %s yields %s" % (consumer, other[:1] or sorted(pol)))
                continue
            positive = list(pol)[0]
            ok_walk = (consumer == "all" and positive and not neg) or (consumer == "any" and not positive and neg)
            if not ok_walk:
                bad.append("the pairwise walk is %s%s(|pair| %ssame(pair)): two %ss are the same element only if *every* pair of members is" % ("!" if neg else "", consumer, "" if positive else "!", kind.lower()))
                continue
            if kind == "Object" and len_state is not True:
                bad.append("the entries of one object are walked and the numbers of entries are not known to be equal on this path: an object would be the same element as any object that has its keys among others")
                continue
            if zipped and len_state is not True:
                bad.append("the members are walked with zip and the lengths are not known to be equal on this path: zip stops at the shorter side, so a prefix is the same element as the whole")
                continue
            good += 1
        for b_ in sorted(set(bad)):
            ctx.fail("K3.elementwise", key0 + "|" + b_[:40], b_, where=mf.where(), fn=mf.key)
        if not bad and unread:
            ctx.unread("K3.elementwise", key0, "the %s case is not read as a length test and a pairwise all(..): %s" % (kind, unread[:2]), where=mf.where(), fn=mf.key)
        elif not bad:
            ctx.check(good >= 1, "K3.elementwise", key0, "no pairwise walk found in the %s case" % kind, where=mf.where(), fn=mf.key, nontrivial=True, sample={"kind": kind, "walks": good})


def run(ctx):
    ctx.explanation = __doc__
    ctx.rule = "instances = merge: pass/shape facts + 6 kinds; in: 6 haystack kinds × needle kinds + unit taint; membership equality: 36 kind pairs; non-trivial = specialisation / def-use"
    ctx.trusted = ["serde_json::Value::clone is structural", "str::contains is substring containment", "serde_json::Map::get / len"]
    from . import manifest as _MF
    _MF.same_library_clause(ctx, "K3.number-model")
    cfgs = ["default"] if ctx.tier == "quick" else ["default", "python", "wasm"]
    for cfg in cfgs:
        facts = ctx.facts(cfg)
        roles = Roles(facts)
        # ================= merge
        mb, me = roles.fn_of("merge")
        mu = Unit(roles, mb.key, extended=True)
        vecp = 2 if mb.kind == "closure" else 1
        ctx.check(me.table.role == "eager" and me.accepted() == (0, float("inf")), "K1.binding", "merge is an eager operator taking any number of operands (%s)" % cfg, "merge: %s table, arity %s" % (me.table.role, me.num), where=mb.where(), fn=mb.key)
        # one level only: nothing of merge's own code (the function, its closures, the private helpers it reaches
        # without going through the interpreter) is on a call cycle — wherever the per-operand code lives
        cg, _ = facts.callgraph()
        rec = []
        for k in sorted(mu.keys):
            seen_, st_ = set(), [x for x in cg.get(k, ()) if x in mu.keys]
            while st_:
                y = st_.pop()
                if y in seen_:
                    continue
                seen_.add(y)
                st_.extend(x for x in cg.get(y, ()) if x in mu.keys)
            if k in seen_:
                rec.append(k)
        ctx.check(not rec, "K1.not-recursive", "merge does not call itself (%s)" % cfg, "merge's code is recursive (%s): more than one level can be flattened" % ", ".join(rec)[:160], where=mb.where(), fn=mb.key, nontrivial=True)
        for s in mu.calls(lambda c: MUTATORS.search(c["path"]) is not None):
            ctx.fail("K1.append-only", "merge|%s" % callee_path(s.term).rsplit("::", 1)[1], "merge edits its result with %s (order / multiplicity would change)" % callee_path(s.term), where=s.where(), fn=s.body.key)
        # the pass over the operands and the contribution of each kind of operand
        merge_contributions(ctx, facts, mb, vecp, cfg)

        # ================= in
        ib, ie = roles.fn_of("in")
        iu = Unit(roles, ib.key)
        ivec = 2 if ib.kind == "closure" else 1
        ctx.check(ie.table.role == "eager" and ie.num == ("Exactly", 2), "K2.binding", "in takes exactly two evaluated operands (%s)" % cfg, "in: %s, %s" % (ie.table.role, ie.num), where=ib.where(), fn=ib.key)

        def operand(e):
            e = strip_refs(e)
            if e[0] == "call" and e[1] and e[1]["path"] == INDEX_PATH and strip_refs(e[2][0]) == ("arg", ivec):
                i = strip_refs(e[2][1])
                return const_value(i[1]) if i[0] == "const" else None
            return None

        sw = {}
        for bi in ib.reachable():
            t = ib.blocks[bi]["term"]
            if t["k"] == "SwitchInt":
                e = ib.trace(t["discr"])
                if e[0] == "discr" and e[2] == VALUE and operand(e[1]) is not None:
                    sw[operand(e[1])] = strip_refs(e[1])
        ctx.check(1 in sw, "K2.haystack", "in switches on the kind of operand 1, the haystack (%s)" % cfg, "in switches on operands %s" % sorted(sw), where=ib.where(), fn=ib.key, nontrivial=True)
        membership = None
        array_unread = False
        if 1 in sw:
            for hv in facts.variants(VALUE):
                needle_kinds = facts.variants(VALUE) if hv == "String" else [None]
                for nv in needle_kinds:
                    def assume(e, a, _hv=hv, _nv=nv):
                        if a != VALUE:
                            return None
                        if operand(e) == 1:
                            return _hv
                        if operand(e) == 0 and _nv is not None:
                            return _nv
                        return None
                    read = in_outcomes(facts, ib, operand, hv, nv)
                    if read is not None:
                        got = "|".join(read[0])
                        membership = read[1] or membership
                        want, label = in_expected(hv, nv)
                        if "?" in got or "ANY(" in got or "OK(" in got:
                            array_unread = array_unread or hv == "Array"
                            ctx.unread("K2.case", "in: haystack %s ⇒ %s (%s)" % (label, want, cfg), "with a %s haystack `in` yields %s (not read); expected %s" % (label, got, want), where=ib.where(), fn=ib.key)
                        else:
                            ctx.check(got == want, "K2.case", "in: haystack %s ⇒ %s (%s)" % (label, want, cfg), "with a %s haystack `in` yields %s; expected %s" % (label, got, want), where=ib.where(), fn=ib.key, nontrivial=True,
                                      sample={"haystack": label, "outcome": got})
                        continue
                    # code with loops: kind specialisation + the loop reader
                    restrict = P.specialise_unit(roles, ib.key, assume)
                    blocks = restrict[ib.key]
                    with ib.restricted(blocks):
                        r = strip_refs(ib.trace(0))
                    cands = [strip_refs(x) for x in r[2]] if r[0] == "phi" else [r]
                    kinds = []
                    for c in cands:
                        if c[0] == "agg" and c[1].get("variant") == "Err":
                            kinds.append("ERR")
                        elif c[0] == "agg" and c[1].get("variant") == "Ok":
                            v_ = strip_refs(c[2][0])
                            inner = strip_refs(v_[2][0]) if v_[0] == "agg" and v_[1].get("variant") == "Bool" else None
                            if inner is None:
                                kinds.append("OK(?)")
                            elif inner[0] == "const":
                                kinds.append("CONST:%s" % str(const_value(inner[1])).lower())
                            elif inner[0] == "call" and inner[1] and inner[1]["path"] == "core::str::<impl str>::contains":
                                h, n = strip_refs(inner[2][0]), strip_refs(inner[2][1])
                                hs = expr_mentions(h, lambda x: x[0] == "downcast" and x[2] == "String" and operand(x[1]) == 1)
                                ns = expr_mentions(n, lambda x: x[0] == "downcast" and x[2] == "String" and operand(x[1]) == 0)
                                kinds.append("SUBSTRING" if hs and ns else "SUBSTRING(wrong operands)")
                            elif inner[0] == "call" and inner[1] and re.search(r"(Iterator::|Iterator>::)(any)$", inner[1]["path"]):
                                src = inner[2][0]
                                over = expr_mentions(src, lambda x: x[0] == "downcast" and x[2] == "Array" and operand(x[1]) == 1)
                                clos = strip_refs(inner[2][1])
                                mem = None
                                if clos[0] == "agg" and clos[1].get("agg") == "Closure":
                                    cb = facts.body(clos[1]["closure"])
                                    rr = strip_refs(cb.trace(0))
                                    if rr[0] == "call" and rr[1] and rr[1]["local"]:
                                        a_ = [strip_refs(cb.xtrace(x)) for x in cb.blocks[rr[3]]["term"]["args"]]
                                        uses_elem = any(x[0] == "carg" for x in a_)
                                        uses_needle = any(operand(x) == 0 for x in a_)
                                        if uses_elem and uses_needle:
                                            mem = rr[1]["key"]
                                membership = mem or membership
                                kinds.append("MEMBERSHIP" if over and mem else "ANY(?)")
                            elif inner[0] == "call" and inner[1] and inner[1]["path"] == "core::slice::<impl [T]>::contains":
                                kinds.append("SPELLING-MEMBERSHIP")
                            else:
                                kinds.append("OK(%s)" % show_expr(inner)[:40])
                        elif c[0] == "call" and "from_residual" in (c[1] or {}).get("path", ""):
                            kinds.append("ERR")
                        else:
                            kinds.append("?")
                    if hv == "Array" and set(kinds) == {"CONST:true", "CONST:false"}:
                        mem = membership_loop(facts, ib, blocks, operand)
                        if mem:
                            membership = mem
                            kinds = ["MEMBERSHIP"]
                    got = "|".join(sorted(set(kinds)))
                    want, label = in_expected(hv, nv)
                    ctx.check(got == want, "K2.case", "in: haystack %s ⇒ %s (%s)" % (label, want, cfg), "with a %s haystack `in` yields %s; expected %s" % (label, got, want), where=ib.where(), fn=ib.key, nontrivial=True,
                              sample={"haystack": label, "outcome": got})
        ures = U.analyse(facts, Unit(roles, ib.key, extended=True).bodies)
        for (b, bi, si, what) in ures.mixed:
            ctx.fail("K2.mixed-units", "in|%s" % what.split(" ")[0], "in: %s" % what, where=b.where(bi, si) if si is not None else b.where(bi), fn=b.key)
        if not ures.mixed:
            ctx.ok("K2.units", "in: no byte-length / character-count mix (%s)" % cfg, nontrivial=True)
        # ================= membership equality
        for s in iu.calls(lambda c: SPELLING_EQ.search(c["path"]) is not None):
            ctx.fail("K3.spelling-sensitive", "in|%s" % callee_path(s.term).split(" as ")[0].strip("<")[:40], "`in` compares values with %s, which distinguishes 2 from 2.0" % callee_path(s.term), where=s.where(), fn=s.body.key)
        if membership is None and array_unread:
            ctx.unread("K3.membership-fn", "array membership uses a dedicated equality of the crate (%s)" % cfg, "the Array case of `in` is not read", where=ib.where(), fn=ib.key)
        else:
            ctx.check(membership is not None, "K3.membership-fn", "array membership uses a dedicated equality of the crate (%s)" % cfg, "no membership equality function identified", where=ib.where(), fn=ib.key, nontrivial=True)
        # whatever function decides membership: in the reach of `in` numbers are never pushed through an int↔float cast
        # (`*int as f64 == n.as_f64()` makes 2^63 and 2^63+1 the same element), and integers are read in both 64-bit
        # forms (an equality that reads as_i64 but never as_u64 compares every integer beyond i64::MAX as a double)
        iu = Unit(roles, ib.key, extended=True)
        n_cast, acc_ = 0, set()
        for bb_ in iu.bodies:
            for bi_, si_, st_ in bb_.stmts():
                if st_["k"] == "Assign" and st_["rv"]["k"] == "Cast" and re.search(r"IntToFloat|FloatToInt", str(st_["rv"].get("kind") or st_["rv"].get("cast") or "")) and re.search(r"64|128|size", str(st_["rv"].get("from")) + str(st_["rv"].get("to"))):
                    n_cast += 1
                    ctx.fail("K3.exact-numbers", "in|%s|%s→%s" % (bb_.key.split("::", 1)[1], st_["rv"].get("from"), st_["rv"].get("to")), "`in` converts between integers and doubles (%s → %s in %s): integers beyond 2^53 that differ become the same element" % (st_["rv"].get("from"), st_["rv"].get("to"), bb_.key.split("::", 1)[1]), where=bb_.where(bi_, si_), fn=bb_.key)
            for bi_, t_ in bb_.calls():
                m_ = re.search(r"^serde_json::Number::(as_i64|as_u64)$", callee_path(t_) or "")
                if m_:
                    acc_.add(m_.group(1))
        if "as_i64" in acc_ and "as_u64" not in acc_:
            ctx.fail("K3.exact-numbers", "in|as_i64 without as_u64", "`in` reads integers with as_i64 but never with as_u64: two different integers beyond i64::MAX are compared as doubles and are the same element", where=ib.where(), fn=ib.key)
        elif not n_cast:
            ctx.ok("K3.exact-numbers", "no int↔float cast in the reach of `in`; integer reads %s (%s)" % (sorted(acc_), cfg), nontrivial=True)
        if membership is not None:
            mf = facts.body(membership)
            s2n = strnum.find_str_to_number(facts)
            m = pairs.pair_matrix(roles, mf, str_to_number_key=s2n.key)
            for (a, b), o in sorted(m.items()):
                if a == b == "Number":
                    # exact: integers are compared as integers (i64, then u64), f64 only for what is left —
                    # through f64 alone distinct integers beyond 2^53 would be the same element
                    accl = [x.rsplit("::", 1)[1] for x in o.detail.get("int_accessors", [])]
                    acc = set(accl)
                    good = (o.kind in ("INT-EQ", "MIXED-INT/FLOAT") and {"as_i64", "as_u64"} <= acc and accl.count("as_i64") >= 2 and accl.count("as_u64") >= 2
                            and o.detail.get("ops") == ["Eq"] and not o.detail.get("ne_calls") and not o.detail.get("casts"))
                    want = "exact numeric comparison (as_i64 and as_u64 pairs compared as integers, f64 only otherwise)"
                elif a == b and a in ("Array", "Object"):
                    good = o.kind.startswith("REC")
                    want = "structural recursion"
                else:
                    good = o.kind in ("STREQ", "BOOLEQ", "CONST:true", "CONST:false") or o.kind.startswith("SPELLING-EQ")
                    want = "plain equality"
                ctx.check(good, "K3.pair", "membership equality %s,%s: %s (%s)" % (a, b, want, cfg), "%s vs %s is compared by %s; expected %s" % (a, b, o.kind, want), where=mf.where(), fn=mf.key, nontrivial=True,
                          sample={"pair": "%s,%s" % (a, b), "outcome": o.kind} if a == b else None)
            # Object×Object is key-wise (Map::get), Array×Array element-wise with equal lengths
            mu2 = Unit(roles, mf.key, extended=True)       # the membership equality with the private helpers it reaches
            container_cases(ctx, facts, mf, cfg)
            missing_key(ctx, facts, mu2, mf, cfg)
            paths = [callee_path(s.term) for s in mu2.calls()]
            ctx.check(any(p.startswith("serde_json::Map::<") and p.endswith("::get") for p in paths) and sum(1 for p in paths if p.endswith("::len")) >= 4, "K3.structure", "objects compared key-wise via Map::get, lengths compared (%s)" % cfg, "membership equality calls: %s" % sorted(set(p.rsplit("::", 1)[1] for p in paths)), where=mf.where(), fn=mf.key)
