#!/usr/bin/env python3
"""C16 — cat concatenates JS string forms; substr slices by Unicode character.

  K1  unit consistency in substr (R-UNITS): no length or offset measured in bytes
      reaches the counts of skip/take on the character iterator, no comparison or
      subtraction mixes a byte length with a character count, the string's
      length used for clamping is chars().count(); no byte-based string
      operation at all in substr's reach;
  K2  the text substr returns is made of characters of operand 0's payload taken
      through its chars() iterator and selected by position only (collect of
      chars()[.skip][.take], or a String that only receives push(c) with c from
      next() of chars()[.enumerate()]) — no byte-range slicing, split_at, get(range);
      start/length come from operands 1 and 2 through as_i64 (non-integers are Err);
  K3  cat: one forward pass over the operands; per operand kind (variant
      specialisation of the per-operand code, helpers included) a String
      contributes its payload and every other kind the shared string form of
      the operand itself (call of the to-string function on that operand) — no
      kind is special-cased (a null operand contributes "null"); every
      contribution is appended with push_str exactly once;
  K4  the string form (to-string function) per kind: Null → "null", Bool → its
      Display, Number → the JSON text of the number, String → itself, Object →
      "[object Object]", Array → the elements' forms joined with ",", where a null
      element contributes "" and every other element recurses (join(map(..)), or —
      for any way of appending to one buffer — the emission table
      (first | later) × (null | other) read by rules/joinloop.py EmissionTable).
  K5  clamping can neither trap nor wrap: no raw integer Add/Sub/Mul/Shl/Neg
      (checked-by-assert or unchecked) in substr's reach — index arithmetic goes
      through checked_* / saturating_* / min / max / unsigned_abs / try_into, whose
      failure arms are explicit.
Not decided: clamping arithmetic values for negative start/length, the split/recombine law.
"""
import re
from .core import (callee_of, callee_path, strip_refs, strip_payload, show_expr, const_value, expr_mentions, op_const, edge_dominates, bool_edge)
from .engine import Inconclusive
from .roles import Roles
from .opfacts import Unit, in_context
from . import prov as P
from . import units as U

VALUE = "serde_json::Value"
BYTE_SLICING = re.compile(r"^core::str::traits::<impl std::ops::Index<I> for str>::index$|^<std::string::String as std::ops::Index<I>>::index$|^core::str::<impl str>::(split_at|get|get_unchecked|as_bytes|bytes|char_indices|find|rfind|is_char_boundary|split_at_checked)$|^std::string::String::(as_bytes|truncate|split_off|drain|into_bytes)$")


from .panic import guarded_sub


def to_string_role(facts):
    c = [b for b in facts.fns() if b.kind == "fn" and facts.items.get(b.key, {}).get("inputs") == ["&serde_json::Value"] and facts.items[b.key].get("output") == "std::string::String"]
    if len(c) > 1:
        # private helpers of the same signature (`element_to_string`): the string form is the one the others are
        # helpers of — the externally visible one, else the one every other candidate is reachable from while it is
        # itself called from outside the candidates
        pub = [b for b in c if facts.items.get(b.key, {}).get("exported")]
        if len(pub) == 1:
            return pub[0]
        keys = {b.key for b in c}
        outer = []
        for b in c:
            callers = {o.key.split("::{closure#", 1)[0] for o in facts.fns() for _, t in o.calls() if callee_of(t) and callee_of(t).get("key") == b.key}
            if callers - keys and all(o.key in facts.reach([b.key]) for o in c):
                outer.append(b)
        if len(outer) == 1:
            return outer[0]
    if len(c) != 1:
        raise Inconclusive("shared string-form function (&Value) → String not identified (%d)" % len(c))
    return c[0]


def kind_of_param_switches(body):
    """Scrutinee expressions (strip_refs, x-traced) of switches on a JSON value's kind in `body`."""
    out = {}
    for bi in body.reachable():
        t = body.blocks[bi]["term"]
        if t["k"] == "SwitchInt":
            e = body.trace(t["discr"])
            if e[0] == "discr" and e[2] == VALUE:
                out[repr(strip_refs(e[1]))] = strip_refs(e[1])
    return list(out.values())


def run(ctx):
    ctx.explanation = __doc__
    ctx.rule = "instances = unit-taint sinks and comparisons in substr, slicing shape, per-kind contributions of cat (6) and of the string form (6 + element rule); non-trivial = taint / specialisation"
    ctx.trusted = ["str::chars iterates Unicode scalar values", "serde_json::Number's Display is its JSON text", "bool's Display"]
    cfgs = ["default"] if ctx.tier == "quick" else ["default", "python", "wasm"]
    for cfg in cfgs:
        facts = ctx.facts(cfg)
        roles = Roles(facts)
        ts = to_string_role(facts)
        # ---------------- substr
        sb, se = roles.fn_of("substr")
        su = Unit(roles, sb.key, extended=True)
        res = U.analyse(facts, su.bodies)
        # substr may also cut the text at byte offsets that *are* character boundaries: offsets handed out by
        # `char_indices()` for a character position (or the length of the text), used with the non-panicking `str::get`.
        # That selection is by character position too, but neither the unit taint (skip/take sinks) nor the slice shape
        # reads it: the K1/K2 clauses are UNDECIDED for this form — never a pass, and not a violation either.
        slicers = [s_ for s_ in su.calls(lambda c: BYTE_SLICING.search(c["path"]) is not None)]
        slicers = [s_ for s_ in slicers if not (callee_path(s_.term) or "").endswith("::char_indices")]
        by_boundaries = bool(slicers) and all(re.search(r"<impl str>::get$|str::get$", callee_path(s_.term) or "") for s_ in slicers) \
            and any(re.search(r"char_indices$", callee_path(s_.term) or "") for s_ in su.calls()) and res.checked_sinks == 0
        if by_boundaries:
            for cl_ in ("K1.units", "K2.slice-shape"):
                ctx.unread(cl_, "substr selects characters by position (%s)" % cfg, "substr cuts the text with str::get at byte offsets taken from char_indices(): whether those offsets are the boundaries of the intended character positions is not read", where=sb.where(), fn=sb.key)
            ctx.count("character-iterator sinks in substr (%s)" % cfg, 0)
        else:
            ctx.floor("character-iterator sinks in substr (%s)" % cfg, res.checked_sinks, 2)
        for (b, bi, what) in ([] if by_boundaries else res.sinks):
            ctx.fail("K1.bytes-reach-chars", "substr|%s" % what.split(" ")[0], "substr: %s" % what, where=b.where(bi), fn=b.key)
        for (b, bi, si, what) in ([] if by_boundaries else res.mixed):
            ctx.fail("K1.mixed-units", "substr|%s" % what.split(" ")[0], "substr: %s" % what, where=b.where(bi, si) if si is not None else b.where(bi), fn=b.key)
        if not res.sinks and not res.mixed and not by_boundaries:
            ctx.ok("K1.units", "substr: skip/take counts are character counts (%d sinks, %s)" % (res.checked_sinks, cfg), nontrivial=True, sample={"sources": dict(res.sources), "sinks_checked": res.checked_sinks})
        ctx.check(res.sources.get("BYTES", 0) == 0 or by_boundaries, "K1.no-byte-length", "substr measures nothing in bytes (%s)" % cfg, "substr's reach contains %d byte-length/offset sources" % res.sources.get("BYTES", 0), where=sb.where(), fn=sb.key, nontrivial=True)
        ctx.check(res.sources.get("CHARS", 0) >= 1, "K1.char-length", "substr clamps against chars().count() (%s)" % cfg, "no character count in substr", where=sb.where(), fn=sb.key)
        for s in ([] if by_boundaries else su.calls(lambda c: BYTE_SLICING.search(c["path"]) is not None)):
            ctx.fail("K2.byte-slicing", "substr|%s" % callee_path(s.term).rsplit("::", 1)[1], "substr uses the byte-based operation %s" % callee_path(s.term), where=s.where(), fn=s.body.key)
        r = strip_refs(sb.trace(0))
        cands = [strip_refs(x) for x in r[2]] if r[0] == "phi" else [r]
        oks = [c for c in cands if c[0] == "agg" and c[1].get("variant") == "Ok"]
        # the returned text is made of characters of operand 0's payload, taken through its chars() iterator and
        # selected by position only — stated on where the text comes from, for either way of building it:
        #   collect(chars(P) [.skip(..)] [.take(..)])       |      a String that only receives push(c), c from
        #   next() of chars(P) [.enumerate()]
        slice_state, slice_why = "unread", "substr's result is %s" % show_expr(r)[:160]

        def chars_root(x):
            """(source of the characters, adaptors met) of an iterator expression"""
            ads = []
            x = strip_refs(x)
            while x[0] == "call" and x[1] and re.search(r"(Iterator::|Iterator>::)\w+$|IntoIterator>::into_iter$", x[1]["path"]) and x[2]:
                if not x[1]["path"].endswith("into_iter"):
                    ads.append(x[1]["path"].rsplit("::", 1)[1])
                x = strip_refs(x[2][0])
            if x[0] == "call" and x[1] and x[1]["path"] == "core::str::<impl str>::chars" and x[2]:
                y = strip_refs(x[2][0])
                while y[0] == "call" and y[1] and re.search(r"Deref>::deref$|::as_str$", y[1]["path"]):
                    y = strip_refs(y[2][0])
                return y, ads
            return None, ads

        def is_operand0(y):
            return y is not None and y[0] == "field" and y[1][0] == "downcast" and y[1][2] == "String" and expr_mentions(y, lambda z: z[0] == "call" and z[1] and z[1]["path"].endswith("Index<I>>::index") and const_value(strip_refs(z[2][1])[1]) == 0)

        for c in oks:
            v = strip_refs(c[2][0])
            if not (v[0] == "agg" and v[1].get("variant") == "String" and v[2]):
                continue
            x = strip_refs(v[2][0])
            if x[0] == "call" and x[1] and re.search(r"(Iterator::|Iterator>::)collect$", x[1]["path"]):
                src, ads = chars_root(x[2][0])
                if src is None:
                    slice_why = "substr collects %s" % show_expr(x)[:120]
                elif not is_operand0(src):
                    slice_state, slice_why = "bad", "substr slices %s, not the payload of operand 0" % show_expr(src)[:100]
                elif [a for a in ads if a not in ("skip", "take")]:
                    slice_state, slice_why = ("bad" if [a for a in ads if a in ("rev", "filter", "map", "step_by", "chain", "cycle", "filter_map", "flat_map")] else "unread"), "substr selects the characters with %s — not a selection by position (skip/take)" % ads
                else:
                    slice_state = "ok"
            elif x[0] == "call" and x[1] and re.search(r"^std::string::String::(new|with_capacity)$", x[1]["path"]):
                appends = [s for s in su.calls_path(r"^std::string::String::(push|push_str|insert|insert_str|extend)$|Extend<.*>>::extend$") if strip_refs(s.body.trace(s.term["args"][0])) == x]
                probs, n_ok = [], 0
                for s in appends:
                    if callee_path(s.term) != "std::string::String::push":
                        probs.append(("unread", "the result also receives %s" % callee_path(s.term)))
                        continue
                    a = s.body.trace(s.term["args"][1])
                    nx = []
                    expr_mentions(a, lambda z: z[0] == "call" and z[1] and z[1]["path"].endswith("::next") and z[2] and not nx.append(z))
                    if len(nx) != 1:
                        probs.append(("unread", "a pushed character is %s" % show_expr(a)[:100]))
                        continue
                    src, ads = chars_root(nx[0][2][0])
                    if src is None:
                        probs.append(("unread", "a pushed character comes from %s" % show_expr(nx[0])[:100]))
                    elif not is_operand0(src):
                        probs.append(("bad", "substr takes characters of %s, not of the payload of operand 0" % show_expr(src)[:100]))
                    elif [a_ for a_ in ads if a_ not in ("skip", "take", "enumerate")]:
                        probs.append(("unread", "the characters come through %s" % ads))
                    else:
                        n_ok += 1
                if any(k_ == "bad" for k_, _ in probs):
                    slice_state, slice_why = "bad", [m for k_, m in probs if k_ == "bad"][0]
                elif probs or not n_ok:
                    slice_why = probs[0][1] if probs else "nothing is appended to the result"
                else:
                    slice_state = "ok"
        key_ = "substr returns characters of operand 0 selected by position through chars() (%s)" % cfg
        if len(oks) != 1 or slice_state == "unread":
            ctx.unread("K2.slice-shape", key_, slice_why if len(oks) == 1 else "substr has %d Ok results" % len(oks), where=sb.where(), fn=sb.key)
        else:
            ctx.check(slice_state == "ok", "K2.slice-shape", key_, slice_why, where=sb.where(), fn=sb.key, nontrivial=True)
        # ---- K5: clamping can neither trap nor wrap
        raw = []
        for xb in su.bodies:
            for bi, si, st in xb.stmts():
                if st["k"] != "Assign":
                    continue
                rv = st["rv"]
                if rv["k"] == "BinaryOp" and re.match(r"^(Add|Sub|Mul|Shl)(WithOverflow|Unchecked)?$", rv["op"]) and re.match(r"^[iu](8|16|32|64|128|size)$", rv.get("opty") or ""):
                    if rv["a"]["k"] == "Const" and rv["b"]["k"] == "Const":
                        continue
                    if rv["op"].startswith("Sub") and rv["opty"].startswith("u") and guarded_sub(xb, bi, rv):
                        continue
                    raw.append((xb, bi, si, "%s on %s" % (rv["op"], rv["opty"])))
                elif rv["k"] == "UnaryOp" and rv.get("op") == "Neg" and re.match(r"^i(8|16|32|64|128|size)$", rv.get("opty") or rv.get("ty") or ""):
                    raw.append((xb, bi, si, "Neg"))
        for (xb, bi, si, what) in raw:
            ctx.fail("K5.clamp-arithmetic", "substr|%s|%s" % (xb.key.split("::", 1)[1], what), "substr computes an index with raw integer arithmetic (%s): at the 64-bit extremes it traps (debug) or wraps (release) instead of clamping to the string" % what, where=xb.where(bi, si), fn=xb.key)
        if not raw:
            ctx.ok("K5.clamp-arithmetic", "substr: index arithmetic only through checked_* / saturating_* / min / max / unsigned_abs / try_into (%s)" % cfg, nontrivial=True)
        # an end before the start is the empty string: failing arms of the checked index arithmetic fall back to
        # a bound of the string (0 or the length), never to another constant
        for s in su.calls_path(r"^std::option::Option::<T>::unwrap_or$"):
            recv = strip_refs(s.body.trace(s.term["args"][0]))
            if not (recv[0] == "call" and recv[1] and re.search(r"::checked_(sub|add)$", recv[1]["path"])):
                continue
            # the fall-back value, with a helper's parameters replaced by what each of its call sites in substr passes
            for dflt, _at in in_context(su, s.body, s.body.xtrace(s.term["args"][1]), s):
                dflt = strip_refs(dflt)
                is_len = expr_mentions(dflt, lambda y: y[0] == "call" and y[1] and y[1]["path"].endswith("::count"))
                ctx.check((dflt[0] == "const" and const_value(dflt[1]) == 0) or is_len, "K5.clamp-fallback", "%s falls back to 0 or the string length (%s, %s)" % (recv[1]["path"].rsplit("::", 1)[1], s.where(), cfg),
                          "when %s fails substr falls back to %s instead of clamping to the string (0 or its length)" % (recv[1]["path"].rsplit("::", 1)[1], show_expr(dflt)), where=s.where(), fn=s.body.key, nontrivial=True)
        # a positive length counts characters from the start *inside the string*: where the length is added to the start,
        # the start has already been clamped to ≥ 0 (an unsigned quantity, a cast of one, max(0, ·) / clamp(0, ·), or a
        # signed one under a dominating `>= 0` test).  Adding the length to a start that may lie before the string and
        # clamping afterwards ends the slice too early: substr("abcde", -10, 3) must be "abc" (seeded C16-N).
        def reads_operand(e, n):
            return expr_mentions(e, lambda z: z[0] == "call" and z[1] and ((z[1]["path"].endswith("Index<I>>::index") and len(z[2]) == 2 and strip_refs(z[2][1])[0] == "const" and const_value(strip_refs(z[2][1])[1]) == n)
                                                                      or (z[1]["path"].endswith("::get") and len(z[2]) == 2 and strip_refs(z[2][1])[0] == "const" and const_value(strip_refs(z[2][1])[1]) == n)))

        def non_negative(xb, op, e):
            ty = xb.local_ty(op["place"]["local"]) if op.get("k") in ("Copy", "Move") and not op["place"]["proj"] else ""
            if re.match(r"^u(8|16|32|64|128|size)$", ty or ""):
                return True
            x = strip_refs(e)
            while x[0] == "cast" and len(x) > 2:
                src_ty = x[1].get("from") if isinstance(x[1], dict) else None
                if src_ty and re.match(r"^u(8|16|32|64|128|size)$", src_ty):
                    return True
                x = strip_refs(x[-1]) if isinstance(x[-1], tuple) else x
                break
            if x[0] == "call" and x[1] and re.search(r"::(max|clamp)$", x[1]["path"]):
                return True
            if x[0] == "phi":
                # one of several definitions: negative as soon as one computed alternative may be
                alts = [non_negative(xb, {}, a_) for a_ in x[2]]
                if any(a_ is False for a_ in alts):
                    return False
                return True if alts and all(a_ is True for a_ in alts) else None
            if x[0] == "call" and (x[1] is None or x[1].get("local") or re.search(r"::(saturating_add|saturating_sub|wrapping_add|wrapping_sub|checked_add|checked_sub|saturating_add_unsigned|unwrap_or|unwrap_or_default)$", x[1]["path"])):
                return False      # a computed signed offset (len + idx, a helper's result) that nothing clamps at 0
            if x[0] == "binop" and x[1] in ("Add", "Sub", "AddWithOverflow", "SubWithOverflow"):
                return False
            return None           # an operand as read (possibly under a sign test the reader does not follow)

        adds = []
        for xb in su.bodies:
            for bi, t in xb.calls():
                p_ = callee_path(t) or ""
                if re.search(r"::(checked_add|saturating_add|wrapping_add|overflowing_add|strict_add|saturating_add_signed|checked_add_signed)$", p_) and len(t["args"]) == 2:
                    adds.append((xb, bi, t["args"][0], t["args"][1], p_.rsplit("::", 1)[1]))
            for bi, si, st in xb.stmts():
                if st["k"] == "Assign" and st["rv"]["k"] == "BinaryOp" and st["rv"]["op"].startswith("Add"):
                    adds.append((xb, bi, st["rv"]["a"], st["rv"]["b"], st["rv"]["op"]))
        n_sl = 0
        for xb, bi, a, b_, what in adds:
            ea, eb = xb.xtrace(a), xb.xtrace(b_)
            for (es, ops, el) in ((ea, a, eb), (eb, b_, ea)):
                if reads_operand(es, 1) and reads_operand(el, 2) and not reads_operand(el, 1):
                    n_sl += 1
                    nn = non_negative(xb, ops, es)
                    key_sl = "substr: the length is added to a start already clamped to the string (%s, %s)" % (what, cfg)
                    if nn is None:
                        ctx.unread("K5.limit-from-clamped-start", key_sl, "the start operand of the addition is %s: whether it can be negative is not read" % show_expr(es)[:100], where=xb.where(bi), fn=xb.key)
                    else:
                        ctx.check(nn, "K5.limit-from-clamped-start", key_sl, "substr adds the length to the start offset %s before clamping it into the string: with a start before the string the slice ends too early" % show_expr(es)[:120],
                                  where=xb.where(bi), fn=xb.key, nontrivial=True)
        ctx.count("start+length additions in substr (%s)" % cfg, n_sl)
        # the integer reading of a JSON number: Number::as_i64, or Value::as_i64 (by definition `Number(n) => n.as_i64(),
        # _ => None` — the same reading with the kind test folded in); an operand that is (also) read through another
        # numeric accessor is read and wrong
        ints = [s for s in su.calls_path(r"^serde_json::(Number|Value)::as_i64$")]
        others = []
        for s_ in su.calls_path(r"^serde_json::(Number|Value)::as_(u64|f64|u128|i128)$"):
            e_ = s_.body.xtrace(s_.term["args"][0])
            for n_ in (1, 2):
                if reads_operand(e_, n_):
                    others.append("operand %d through %s" % (n_, callee_path(s_.term).rsplit("::", 1)[1]))
        ctx.check(len(ints) >= 2 and not others, "K2.integer-operands", "start and length are read with as_i64 (%s)" % cfg, "%d as_i64 reads%s" % (len(ints), ("; " + ", ".join(sorted(set(others)))) if others else ""), where=sb.where(), fn=sb.key)

        # ---------------- cat
        cb, ce = roles.fn_of("cat")
        from .c04 import operator_receives_operand_list
        operator_receives_operand_list(ctx, facts, roles, ce.table, cfg, "K3")
        cu = Unit(roles, cb.key, extended=True, stop=[ts.key])
        pushes = cu.calls_path(r"^std::string::String::push_str$")
        joins = cu.calls_path(r"::(join|concat)$|Iterator(>)?::collect$")
        joins = [s for s in joins if "String" in (callee_of(s.term).get("full") or "")]
        ok_build = (len(pushes) == 1 and cu.per_element(pushes[0]) is not None) or (not pushes and len(joins) >= 1)
        if len(pushes) > 1 and all(cu.per_element(x) is not None for x in pushes) and len({x.body.key for x in pushes}) == 1:
            # several sites on mutually exclusive arms of the per-element code: at most (and at least) one append per element
            from .opfacts import max_calls_on_a_path
            from .panic import loops_of as PN_loops
            pb = pushes[0].body
            is_push = lambda t_: callee_path(t_) == "std::string::String::push_str"
            most = max_calls_on_a_path(pb, is_push)
            lp = [(h, bl, s_) for (h, bl, s_) in PN_loops(pb) if pushes[0].bi in bl]
            if lp:
                # one iteration: longest path (in appends) from the header round to a back-edge source
                h, bl, srcs_ = lp[0]
                memo = {}

                def longest(n, stack=()):
                    if n in memo:
                        return memo[n]
                    if n in stack or n not in bl:
                        return -10 ** 6
                    tt_ = pb.blocks[n]["term"]
                    inc = 1 if (tt_["k"] == "Call" and is_push(tt_)) else 0
                    best = -10 ** 6
                    for sx in pb.succs(n):
                        if sx == h:
                            best = max(best, 0)
                        else:
                            best = max(best, longest(sx, stack + (n,)))
                    memo[n] = inc + best
                    return memo[n]

                most = max([longest(x) for x in pb.succs(h)] + [0])
            # least: is there a way from the loop's next() back to it (or through the closure) without a push?
            from . import panic as PN
            skip = False
            loops = [(h, bl) for (h, bl, s_) in PN.loops_of(pb) if pushes[0].bi in bl]
            if loops:
                h, bl = loops[0]
                seen, st = set(), [x for x in pb.succs(h)]
                while st:
                    n = st.pop()
                    if n in seen or n not in bl:
                        continue
                    seen.add(n)
                    tt_ = pb.blocks[n]["term"]
                    if tt_["k"] == "Call" and is_push(tt_):
                        continue
                    if n != h:
                        st.extend(pb.succs(n))
                    # reaching the header again without a push = an element that contributes nothing
                    if h in pb.succs(n) and not (tt_["k"] == "Call" and is_push(tt_)):
                        skip = True
            ok_build = most == 1 and not skip
        ctx.check(ok_build, "K3.append-once", "cat appends each contribution exactly once (push_str per operand, or one join/concat/collect over the contributions) (%s)" % cfg, "%d push_str sites, %d join/concat/collect sites" % (len(pushes), len(joins)), where=cb.where(), fn=cb.key, nontrivial=True)
        other_append = [callee_path(s.term) for s in cu.calls_path(r"^std::string::String::(push|insert|insert_str|replace_range|truncate|pop|remove)$")]
        ctx.check(not other_append, "K3.only-append", "cat never edits what it has appended (%s)" % cfg, "cat also uses %s" % other_append, where=cb.where(), fn=cb.key)
        it_ok = False
        for s in cu.calls_path(r"IntoIterator>::into_iter$|::iter$"):
            if s.body.key == cb.key and strip_refs(cb.trace(s.term["args"][0])) == ("arg", 1):
                it_ok = True
        rev = [callee_path(s.term) for s in cu.calls_path(r"(Iterator::|Iterator>::)(rev|skip|take|filter|filter_map|step_by|rfold|chain|zip|flat_map|flatten)$")]
        ctx.check(it_ok and not rev, "K3.forward-pass", "cat makes one forward pass over its operand list (%s)" % cfg, "iteration over the operands: direct=%s, adaptors=%s" % (it_ok, rev), where=cb.where(), fn=cb.key, nontrivial=True)
        # per-kind contribution
        hosts = [(b, sc) for b in cu.bodies for sc in kind_of_param_switches(b)]
        ctx.check(len(hosts) >= 1, "K3.kind-switch", "cat distinguishes strings from other kinds (%s)" % cfg, "no switch on the operand's kind in cat", where=cb.where(), fn=cb.key)
        for (hb, sc) in hosts:
            root_key = hb.key
            for v in facts.variants(VALUE):
                restrict = P.specialise_unit(roles, root_key, lambda e, a, _v=v, _sc=sc: _v if (a == VALUE and e == _sc) else None)
                blocks = restrict[hb.key]
                calls = []
                for k, bl in restrict.items():
                    bb = facts.body(k)
                    for bi in sorted(bl):
                        t = bb.blocks[bi]["term"]
                        if t["k"] == "Call" and callee_of(t):
                            calls.append((bb, bi, t, callee_of(t)))
                ts_calls = [c for c in calls if c[3].get("key") == ts.key]
                arg_ok = any(strip_refs(c[0].trace(c[2]["args"][0])) == sc for c in ts_calls)
                clones = [c for c in calls if c[3]["path"] in ("<std::string::String as std::clone::Clone>::clone", "<std::string::String as std::convert::From<&std::string::String>>::from", "std::string::String::as_str")]
                # the payload appended directly: push_str(&*payload)
                for c in calls:
                    if c[3]["path"] == "std::string::String::push_str":
                        a1 = strip_refs(c[0].trace(c[2]["args"][1]))
                        while a1[0] == "call" and a1[1] and re.search(r"Deref>::deref$|::as_str$", a1[1]["path"]):
                            a1 = strip_refs(a1[2][0])
                        if a1[0] == "field" and a1[1][0] == "downcast" and a1[1][2] == "String" and strip_refs(a1[1][1]) == sc:
                            clones.append(c)
                # constant contributions — the result buffer's own initialisation (outside the per-element code) is not one
                def _in_pe(c):
                    for sx in cu.calls(lambda cc, _k=c[3].get("key"), _p=c[3]["path"]: cc["path"] == _p):
                        if sx.body.key == c[0].key and sx.bi == c[1]:
                            return cu.per_element(sx) is not None
                    return True
                consts = [c for c in calls if (c[3]["path"] == "<std::string::String as std::convert::From<&str>>::from" or c[3]["path"] == "std::string::String::new") and _in_pe(c)]
                if v == "String":
                    good = (clones and not ts_calls) or (ts_calls and arg_ok)
                    what = "payload" if clones else "string form" if ts_calls else "?"
                else:
                    good = bool(ts_calls) and arg_ok and not consts
                    what = "string form of the operand" if good else ("a constant/empty string" if consts else "nothing / something else")
                ctx.check(bool(good), "K3.contribution", "cat: a %s operand contributes %s (%s)" % (v, "its payload" if v == "String" else "its string form", cfg),
                          "in cat a %s operand contributes %s instead of %s" % (v, what, "itself" if v == "String" else "the shared string form of that operand"), where=hb.where(), fn=hb.key, nontrivial=True,
                          sample={"kind": v, "contributes": what})
        string_form_clauses(ctx, facts, roles, ts, cfg, "K4")


def _appender_form(ctx, facts, roles, ts, cfg, K, want_const):
    """The string form written as `let mut out = String::new(); append(&mut out, value); out` with a private appender
    `fn(&mut String, &Value)`: the form of a kind is what the appender pushes onto its buffer under that kind.  Scalars are
    read (exactly one push of the constant / of the payload's Display / of the string payload); the array case is read
    for nesting evidence only (a position flag or slot list forwarded across nesting levels) and is otherwise UNDECIDED.
    Returns True when the function has this form (the per-kind clauses were reported here)."""
    r0 = strip_refs(ts.trace(0))
    if not (r0[0] == "call" and r0[1] and re.search(r"^std::string::String::(new|with_capacity)$", r0[1]["path"]) and len(r0) > 3):
        return False
    app = None
    for bi, t in ts.calls():
        c = callee_of(t)
        if c and c.get("local") and len(t["args"]) == 2:
            a0 = strip_refs(ts.trace(t["args"][0]))
            if a0[0] == "call" and len(a0) > 3 and a0[3] == r0[3] and strip_refs(ts.trace(t["args"][1])) == ("arg", 1):
                it = facts.items.get(c["key"], {})
                if it.get("inputs") and it["inputs"][0].replace(" ", "").endswith("mutstd::string::String") and it["inputs"][1].endswith("serde_json::Value"):
                    app = facts.body(c["key"])
    if app is None:
        return False
    from . import joinloop as JL
    ev = JL.shared_state_across_nesting(facts, app) or JL.descends_into_elements(facts, app)
    for v in facts.variants(VALUE):
        key = "string form of %s (%s)" % (v, cfg)
        restrict = P.specialise_unit(roles, app.key, lambda e, a, _v=v: _v if (a == VALUE and e == ("arg", 2)) else None)
        blocks = restrict[app.key]
        pushes = []
        with app.restricted(blocks):
            for bi in sorted(blocks):
                t = app.blocks[bi]["term"]
                if t["k"] != "Call":
                    continue
                p_ = callee_path(t) or ""
                if re.search(r"^std::string::String::(push_str|push)$", p_) and strip_refs(app.trace(t["args"][0])) == ("arg", 1):
                    pushes.append((p_.rsplit("::", 1)[1], strip_refs(app.trace(t["args"][1]))))
                elif callee_of(t) and callee_of(t).get("local") and v != "Array":
                    pushes.append(("call", callee_path(t)))
        if v == "Array":
            if ev:
                ctx.fail(K + ".array-element", "string form of Array|nested arrays (%s)" % cfg, ev, where=app.where(), fn=app.key)
            else:
                ctx.unread(K + ".array-join", key, "the string form is written by a recursive appender into one buffer: the array case (separators, null elements, recursion on each element) is not read as an emission table", where=app.where(), fn=app.key)
            continue
        consts = sorted(const_value(x[1]) for k_, x in pushes if k_ == "push_str" and isinstance(x, tuple) and x[0] == "const")
        if v in want_const:
            ctx.check(len(pushes) == 1 and consts == [want_const[v]], K + ".string-form", key, "the appender writes %s for %s; expected %r" % ([show_expr(x)[:40] if isinstance(x, tuple) else x for _, x in pushes], v, want_const[v]), where=app.where(), fn=app.key, nontrivial=True)
        elif v == "Bool":
            disp = [x for k_, x in pushes if k_ == "push_str" and isinstance(x, tuple) and expr_mentions(x, lambda y: y[0] == "call" and y[1] and y[1]["path"].endswith("to_string") and "bool" in ((y[1].get("full") or "") + y[1]["path"]))]
            good = consts == ["false", "true"] and len(pushes) == 2 or (len(pushes) == 1 and len(disp) == 1)
            if good:
                ctx.ok(K + ".string-form", key, nontrivial=True, sample={"kind": v, "form": "appender"})
            else:
                ctx.unread(K + ".string-form", key, "the appender's pushes for a boolean are not read: %s" % [show_expr(x)[:40] if isinstance(x, tuple) else x for _, x in pushes], where=app.where(), fn=app.key)
        else:
            x = pushes[0][1] if len(pushes) == 1 and pushes[0][0] == "push_str" else None
            good = x is not None and expr_mentions(x, lambda y: y[0] == "downcast" and y[2] == v and strip_refs(y[1]) == ("arg", 2))
            if v == "Number":
                good = good and expr_mentions(x, lambda y: y[0] == "call" and y[1] and y[1]["path"].endswith("to_string") and "serde_json::Number" in ((y[1].get("full") or "") + y[1]["path"]))
            ctx.check(bool(good), K + ".string-form", key, "the appender writes %s for %s" % ([show_expr(x_)[:60] if isinstance(x_, tuple) else x_ for _, x_ in pushes], v), where=app.where(), fn=app.key, nontrivial=True)
    return True


def string_form_clauses(ctx, facts, roles, ts, cfg, K="K4"):
    """Per-kind structure of the shared string form (used by C16 K4, C07 K5, C09 K5)."""
    want_const = {"Null": "null", "Object": "[object Object]"}
    if _appender_form(ctx, facts, roles, ts, cfg, K, want_const):
        return
    for v in facts.variants(VALUE):
        restrict = P.specialise_unit(roles, ts.key, lambda e, a, _v=v: _v if (a == VALUE and e == ("arg", 1)) else None)
        blocks = restrict[ts.key]
        with ts.restricted(blocks):
            r = strip_refs(ts.trace(0))
        key = "string form of %s (%s)" % (v, cfg)
        if v in want_const:
            got = None
            if r[0] == "call" and r[1] and r[1]["path"] in ("<std::string::String as std::convert::From<&str>>::from", "<str as std::string::ToString>::to_string", "<&str as std::string::ToString>::to_string", "std::borrow::ToOwned::to_owned", "<str as std::borrow::ToOwned>::to_owned"):
                a = strip_refs(r[2][0])
                got = const_value(a[1]) if a[0] == "const" else None
            ctx.check(got == want_const[v], K + ".string-form", key, "the string form of %s is %r; expected %r" % (v, got if got is not None else show_expr(r)[:60], want_const[v]), where=ts.where(), fn=ts.key, nontrivial=True, sample={"kind": v, "form": got})
        elif v in ("Bool", "Number", "String"):
            good = r[0] == "call" and r[1] and expr_mentions(r, lambda x: x[0] == "downcast" and x[2] == v and strip_refs(x[1]) == ("arg", 1))
            p = (r[1].get("full") or r[1]["path"]) if r[0] == "call" and r[1] else ""
            good = good and ((v == "Bool" and "bool" in p and p.endswith("to_string")) or (v == "Number" and "serde_json::Number" in p and p.endswith("to_string")) or (v == "String" and re.search(r"String as std::(convert::From<&std::string::String>|clone::Clone)>::(from|clone)$", p) is not None))
            ctx.check(bool(good), K + ".string-form", key, "the string form of %s is %s" % (v, show_expr(r)[:100]), where=ts.where(), fn=ts.key, nontrivial=True, sample={"kind": v, "form": p})
        else:  # Array
            good = r[0] == "call" and r[1] and r[1]["path"].endswith("::join")
            sep = None
            elem_clos = None
            if good:
                s_ = strip_refs(r[2][1])
                sep = const_value(s_[1]) if s_[0] == "const" else None
                src = r[2][0]
                # exactly collect(map(iter(payload), closure)) — every element keeps its slot
                x = strip_refs(src)
                chain = []
                clos = []
                while x[0] == "call" and x[1] and re.search(r"(Iterator::|Iterator>::)(collect|map)$|::iter$|Deref>::deref$|IntoIterator>::into_iter$", x[1]["path"]):
                    chain.append(x[1]["path"].rsplit("::", 1)[1])
                    if x[1]["path"].endswith("::map") and len(x[2]) > 1:
                        c_ = strip_refs(x[2][1])
                        if c_[0] == "agg" and c_[1].get("agg") == "Closure":
                            clos.append(c_[1]["closure"])
                        elif c_[0] == "const" and "fn" in c_[1] and (c_[1]["fn"].get("resolved") or c_[1]["fn"]).get("local"):
                            clos.append((c_[1]["fn"].get("resolved") or c_[1]["fn"])["key"])      # `.map(element_to_string)`: a private fn item per element
                    x = strip_refs(x[2][0])
                from_payload = x[0] == "field" and x[1][0] == "downcast" and x[1][2] == "Array" and strip_refs(x[1][1]) == ("arg", 1)
                good = from_payload and len(clos) == 1 and [c for c in chain if c not in ("deref", "into_iter", "iter")] == ["collect", "map"]
                elem_clos = facts.body(clos[0]) if good else None
            if not good:
                # not join(map(..)): a loop that appends to one String?
                from . import joinloop as JL
                jl = JL.JoinLoop(ts, blocks, ts.key)
                src_ok = jl.recognised and str(jl.next_path).startswith(("<std::iter::Enumerate<I> as", "<std::slice::Iter<")) and expr_mentions(jl.iter_expr, lambda y: y[0] == "downcast" and y[2] == "Array" and strip_refs(y[1]) == ("arg", 1)) \
                    and not expr_mentions(jl.iter_expr, lambda y: y[0] == "call" and y[1] and re.search(r"(Iterator::|Iterator>::)(rev|skip|take|filter|step_by|chain)$", y[1]["path"]) is not None)
                if src_ok and r[0] == "call" and r[1] and re.search(r"String::(new|with_capacity)$", r[1]["path"]):
                    JL.judge(ctx, jl, K, cfg, ts.where(), ts.key)
                    continue
                # any other spelling (peeled first element, helpers that receive the buffer or the element, flags):
                # the emission table of the array arm — (first | later) × (null | other) → what is appended
                ev = JL.shared_state_across_nesting(facts, ts) or JL.descends_into_elements(facts, ts)
                if ev:
                    ctx.fail(K + ".array-element", "string form of Array|nested arrays (%s)" % cfg, ev, where=ts.where(), fn=ts.key)
                    continue
                tab = JL.EmissionTable(facts, ts)
                if JL.judge_table(ctx, tab, K, cfg, ts.where(), ts.key):
                    continue
                ctx.unread(K + ".array-join", key, "the array arm is neither join(map(..)) nor readable as appends to one buffer: %s" % "; ".join(tab.unread[:2]), where=ts.where(), fn=ts.key)
                continue
            ctx.check(bool(good) and sep == ",", K + ".array-join", key, "the string form of an array is %s (separator %r)" % (show_expr(r)[:80], sep), where=ts.where(), fn=ts.key, nontrivial=True, sample={"separator": sep})
            if elem_clos is not None:
                ep = 2 if elem_clos.kind == "closure" else 1       # the element: a closure's first parameter / a fn item's parameter
                for ev in facts.variants(VALUE):
                    bl, dec = elem_clos.specialize(lambda e, a, _v=ev: _v if (a == VALUE and e == ("arg", ep)) else None)
                    with elem_clos.restricted(bl):
                        rr = strip_refs(elem_clos.trace(0))
                    if ev == "Null":
                        a = strip_refs(rr[2][0]) if rr[0] == "call" and rr[2] else None
                        got = const_value(a[1]) if a is not None and a[0] == "const" else ("" if rr[0] == "call" and rr[1] and rr[1]["path"] == "std::string::String::new" else None)
                        ctx.check(got == "", K + ".array-element", "a null element contributes \"\" (%s)" % cfg, "a null array element contributes %r" % (got if got is not None else show_expr(rr)[:60]), where=elem_clos.where(), fn=elem_clos.key, nontrivial=True)
                    else:
                        good = rr[0] == "call" and rr[1] and rr[1].get("key") == ts.key and strip_refs(rr[2][0]) == ("arg", ep)
                        ctx.check(good, K + ".array-element", "a %s element contributes its own string form (%s)" % (ev, cfg), "a %s element contributes %s" % (ev, show_expr(rr)[:80]), where=elem_clos.where(), fn=elem_clos.key, nontrivial=True)
