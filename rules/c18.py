#!/usr/bin/env python3
"""C18 — the jsonlogic command is a faithful, chainable wrapper of the library.

All paths of main (config `cmdline`, crate `jsonlogic`):
  K1  print once, last, only on success: in the library an evaluation can reach
      only the function bound to `log` writes to stdout; the binary contains
      exactly one stdout write, outside any loop; its block is edge-dominated by the success edge of
      every fallible step that can precede it (rule parse, data parse, apply, and
      the stdin read on its path); no fallible step is reachable after it; every
      failure edge reaches the return without passing it;
  K2  what is printed: one Display placeholder followed by exactly "\\n" (format
      template decoded), whose argument is — through reference plumbing only —
      the library serialisation (`Value::to_string`/Display) of the success
      payload of `jsonlogic_rs::apply(rule, data)`, where rule and data are the
      success payloads of `serde_json::from_str` applied to the whole text of
      the first argument and of the data text, in this order;
  K3  data source: the data text is the second argument unless it is absent
      (defaulted to the constant "-") or equals "-"; exactly then it is read to
      the end from stdin; the stdin read happens on that edge only (stated on the sources of the data text — read
      through `?`, merges and Option/Result combinators with their closures in case normal form — and on edge cut
      sets of main; a read that sits in a helper is decided on the view with the helper inlined);
  K4  exit status: every failure edge either returns the residual (`?`, main
      returning Result<(), _>) or ends in a handler that never returns and exits
      with a constant status that is non-zero modulo 256 (the OS keeps 8 bits); no
      Result is discarded with ok()/unwrap_or*/is_err in the binary;
  K5  Cargo manifest: the binary `jsonlogic` requires feature `cmdline`; enabling
      that feature changes the resolved feature set of no package the library
      itself is built from (cargo unifies features: `serde_json/arbitrary_precision`
      behind `cmdline` would make the command wrap a different library); the
      binary calls nothing of the library but the public apply.
Not decided: serde_json's serialiser/parser, clap's own parsing, broken pipes.
"""
import os, re, tomllib
from .core import (callee_of, callee_path, strip_refs, strip_payload, edge_dominates, switch_edges_for_variant,
                   bool_edge, const_value, show_expr, expr_mentions, PAYLOAD_CALLS)
from .engine import Inconclusive
from . import extract as ex
from . import panic as PN
from . import optnorm
from . import pathsum

FROM_STR = "serde_json::from_str"
PRINT = "std::io::_print"


def decode_fmt(hexs):
    """Decode rustc's byte-coded format template: [('lit', text) | ('arg',)] or None."""
    b = bytes.fromhex(hexs)
    out = []
    i = 0
    while i < len(b):
        x = b[i]
        if x == 0 and i == len(b) - 1:
            return out
        if x < 0x80:
            out.append(("lit", b[i + 1:i + 1 + x].decode("utf-8", "replace")))
            i += 1 + x
        elif x == 0xC0:
            out.append(("arg",))
            i += 1
        else:
            return None
    return out


_HANDLED = set()   # blocks of main whose unwrap_or_else handler never returns: the call yields the success payload


def _residual(e):
    return e[0] == "call" and e[1] is not None and "from_residual" in e[1].get("path", "")


def peel(e):
    """strip_payload + anyhow's context()/with_context() (payload-transparent) + unwrap_or_else(never-returning handler)."""
    while True:
        e2 = strip_payload(e)
        if e2[0] == "payload" and len(e2) > 2:      # case normal form (rules/optnorm.py): the success payload of a source that is no combinator
            e = e2[2]
            continue
        if e2[0] == "call" and e2[1] and e2[1]["path"] == "std::result::Result::<T, E>::unwrap_or_else" and e2[3] in _HANDLED:
            e = e2[2][0]
            continue
        if e2[0] == "call" and e2[1] and "anyhow::Context<" in e2[1]["path"] and e2[1]["path"].split("::")[-1].startswith(("context", "with_context")):
            e = e2[2][0]
            continue
        return e2


def run(ctx):
    ctx.explanation = __doc__
    ctx.rule = "instances = path facts of main (dominance / reachability per fallible step), provenance facts of the printed value and of apply's arguments, manifest facts; non-trivial = needs dominance or def-use reasoning"
    ctx.trusted = ["serde_json's serialiser emits valid JSON and from_str rejects trailing text", "clap", "rustc's format_args! template encoding (decoded by rules/c18.py)"]
    facts = ctx.facts("cmdline", "jsonlogic")
    mains = [b for b in facts.fns() if b.kind == "fn" and b.key.endswith("::main")]
    ctx.need(len(mains) == 1, "main not found in the binary crate")
    m = mains[0]
    bodies = [b for b in facts.fns()]
    # ---------------- K1
    _HANDLED.clear()
    _HANDLED.update(bi for (b, bi, _) in failure_handlers(facts, bodies)[0] if b is m)
    prints = [(b, bi, t) for b in bodies for bi, t in b.calls() if callee_path(t) in (PRINT,)]
    other_out = [(b, bi, callee_path(t)) for b in bodies for bi, t in b.calls() if re.search(r"^std::io::(stdout|Stdout)|^<std::io::Stdout(Lock<'_>)? as std::io::Write>", callee_path(t) or "")]
    ctx.check(len(prints) == 1 and prints[0][0] is m and not other_out, "K1.single-print", "exactly one stdout write in the binary, in main",
              "the binary has %d println!/print! sites (%s) and %d direct stdout handles" % (len(prints), [b.where(bi) for b, bi, _ in prints], len(other_out)),
              where=m.where(), fn=m.key, nontrivial=True)
    if len(prints) != 1 or prints[0][0] is not m:
        return
    pbi, pterm = prints[0][1], prints[0][2]
    in_loop = any(pbi in blocks for (h, blocks, srcs) in PN.loops_of(m))
    ctx.check(not in_loop, "K1.no-loop", "the result line is printed outside any loop", "the print is inside a loop", where=m.where(pbi), fn=m.key)
    # fallible steps: Try::branch sites
    branches = []
    for bi, t in m.calls():
        p = callee_path(t) or ""
        if p.endswith("as std::ops::Try>::branch"):
            src = peel(m.trace(t["args"][0]))
            what = src[1]["path"] if src[0] == "call" and src[1] else show_expr(src)
            # its switch
            sw = None
            for sb in m.reachable():
                tt = m.blocks[sb]["term"]
                if tt["k"] == "SwitchInt" and bi in discr_sites(m.trace(tt["discr"])):
                    sw = sb
            branches.append((bi, what, sw))
    # fallible steps handled by a handler that never returns (unwrap_or_else(|e| { …; exit(n) })): the call returns only on success
    handled, droppers, exits = failure_handlers(facts, bodies)
    hsteps = []
    for (b, bi, what) in handled:
        if b is m:
            src = peel(m.trace(m.blocks[bi]["term"]["args"][0]))
            hsteps.append((bi, src[1]["path"] if src[0] == "call" and src[1] else show_expr(src)))
    # ---------------- K4 (binary-wide facts first: they hold whatever shape main has)
    it = facts.items[m.key]
    if branches:
        ctx.check(it["output"].startswith("std::result::Result<(), "), "K4.returns-result", "main returns Result<(), _>", "main returns %s although it propagates failures with `?`" % it["output"], where=m.where(), fn=m.key)
    for b, bi, p_ in droppers:
        ctx.fail("K4.error-dropped", "%s@%s" % (b.key.split("::", 1)[1], p_.rsplit("::", 1)[1]), "the binary discards a failure with %s — a failing run may end with status 0 or print a result" % p_, where=b.where(bi), fn=b.key)
    if not droppers:
        ctx.ok("K4.error-dropped", "no Result is discarded in the binary", nontrivial=True)
    for (b, bi, vals) in exits:
        after_print = b is m and bi in m.reachable(pbi)
        if vals is None:
            ctx.fail("K4.exit-status", "%s@exit" % b.key.split("::", 1)[1], "the binary exits with a status that is not a known constant", where=b.where(bi), fn=b.key)
            continue
        bad = sorted(v for v in vals if v % 256 == 0)
        ctx.check(not bad or after_print, "K4.exit-status", "process::exit in %s: status ∈ %s, non-zero modulo 256" % (b.key.split("::", 1)[1], sorted(vals)),
                  "a failure handler exits with status %s, which the operating system reports as 0 (only the low 8 bits count): the failing run looks successful" % bad, where=b.where(bi), fn=b.key, nontrivial=True)
    ctx.floor("fallible steps (`?` or handler that exits) in main", len(branches) + len(hsteps), 3)
    reach_from_print = m.reachable(pbi)
    for bi, what in hsteps:
        ctx.check(bi not in reach_from_print, "K1.print-last", "no fallible step after the print (%s)" % short(what),
                  "the fallible step %s can run after the result line has been printed" % short(what), where=m.where(bi), fn=m.key, nontrivial=True)
    for bi, what, sw in branches:
        if sw is None:
            # helper-inlined view: the outcome of this `?` is already known on this path (the other outcome is a path of its own)
            oc = m.threaded_outcome(bi)
            ctx.need(oc is not None and oc[0] in ("Continue", "Break"), "`?` at bb%d has no switch" % bi)
            if oc[0] == "Continue":
                ctx.check(bi not in reach_from_print or bi == pbi, "K1.print-last", "no fallible step after the print (%s)" % short(what),
                          "the fallible step %s can run after the result line has been printed: a failure would follow a printed result" % short(what), where=m.where(bi), fn=m.key, nontrivial=True)
            else:
                fail_blocks = m.reachable(oc[1])
                ctx.check(pbi not in fail_blocks, "K4.fail-no-print", "failure of %s (bb%d) prints no result line" % (short(what), bi),
                          "after %s fails the result line can still be printed" % short(what), where=m.where(bi), fn=m.key, nontrivial=True)
                with m.restricted(fail_blocks):
                    r = m.trace(0)
                good = r[0] == "call" and r[1] and "from_residual" in r[1]["path"]
                ctx.check(good, "K4.fail-propagates", "failure of %s returns the error (`?`)" % short(what),
                          "on failure of %s main's result is %s instead of the propagated error" % (short(what), show_expr(r)), where=m.where(bi), fn=m.key, nontrivial=True)
            continue
        cont = variant_edges(m, sw, "Continue")
        brk = variant_edges(m, sw, "Break")
        ctx.need(cont and brk, "`?` switch without Continue/Break edges")
        can_precede = pbi in m.reachable(bi)
        if can_precede:
            ctx.check(edge_dominates_or_bypass(m, sw, cont[0], bi, pbi), "K1.after-success", "print only after success of %s (bb%d)" % (short(what), bi),
                      "the result line can be printed although %s failed (its success edge does not dominate the print on the paths through it)" % short(what), where=m.where(bi), fn=m.key, nontrivial=True,
                      sample={"step": what, "branch_block": bi, "print_block": pbi})
        ctx.check(bi not in reach_from_print or bi == pbi, "K1.print-last", "no fallible step after the print (%s)" % short(what),
                  "the fallible step %s can run after the result line has been printed: a failure would follow a printed result" % short(what), where=m.where(bi), fn=m.key, nontrivial=True)
        # failure edge: returns the residual, never prints
        fail_blocks = m.reachable(brk[0])
        ctx.check(pbi not in fail_blocks, "K4.fail-no-print", "failure of %s (bb%d) prints no result line" % (short(what), bi),
                  "after %s fails the result line can still be printed" % short(what), where=m.where(bi), fn=m.key, nontrivial=True)
        # what main returns on every way from the failure edge to its return (path summaries: the blocks of the ways
        # out may be shared with later failures, and — in a helper-inlined view — with the helper's own exits)
        verdict, r = failure_result(m, brk[0])
        if verdict is None:
            ctx.unread("K4.fail-propagates", "failure of %s" % short(what), "what main returns after %s fails could not be read: %s" % (short(what), r), where=m.where(bi), fn=m.key)
        else:
            ctx.check(verdict, "K4.fail-propagates", "failure of %s returns the error (`?`)" % short(what),
                      "on failure of %s main's result is %s instead of the propagated error" % (short(what), show_expr(r)[:200] if r is not None else "never returned"), where=m.where(bi), fn=m.key, nontrivial=True)
    # after the print: straight to Ok(())
    with m.restricted(reach_from_print):
        r = m.trace(0)
    if it["output"] != "()":
        ctx.check(r[0] == "agg" and r[1].get("variant") == "Ok", "K1.then-ok", "after printing main returns Ok(())", "after the print main returns %s" % show_expr(r), where=m.where(pbi), fn=m.key)
    no_exit_after = not any(b is m and bi in reach_from_print and vals and any(v % 256 for v in vals) for (b, bi, vals) in exits)
    ctx.check(no_exit_after, "K1.then-ok", "after printing, main does not exit with a failure status", "main can exit non-zero after printing the result", where=m.where(pbi), fn=m.key)

    def k2_k3():
        def in_main(e):
            """The call expression e is a call site of main itself (not one inside a closure read through its summary)."""
            if not (e[0] == "call" and e[1] and isinstance(e[3], int) and 0 <= e[3] < len(m.blocks)):
                return False
            t_ = m.blocks[e[3]]["term"]
            return t_["k"] in ("Call", "TailCall") and callee_path(t_) == e[1]["path"]

        def leaves(e, depth=0, out=None, site=None):
            """[(value, block of main at which it is produced)] — the values the text can be, read through `?`,
            Ok(..)/Some(..), merges of paths and — in case normal form (rules/optnorm.py) — the Option/Result combinators
            with the closures handed to them (`read(..).map(|_| buf)`, `.and_then(..)`, `.or_else(..)`); the Err/None
            cases of a combinator are not texts (they leave through `?`).  A value produced inside such a closure is
            produced where the combinator is called."""
            out = [] if out is None else out
            e = peel(e)
            if depth < 8 and e[0] in ("phi", "partial"):
                for x in e[2]:
                    leaves(x, depth + 1, out, site)
            elif depth < 8 and e[0] == "call" and e[1] and optnorm.M.match(e[1]["path"]):
                cs = optnorm.cases_expr(facts, e)
                here = e[3] if in_main(e) else site
                if cs is None or (len(cs) == 1 and cs[0][0] == () and strip_refs(cs[0][1]) == e):
                    out.append((("unread", e), here))
                else:
                    for _conds, v in cs:
                        v = strip_refs(v)
                        if v[0] == "agg" and v[1].get("variant") in ("Err", "None"):
                            continue
                        if v[0] in ("payload", "payload-err", "panic", "error", "default", "unit"):
                            # the payload of a source that is no combinator: the source itself is the leaf
                            if v[0] == "payload" and len(v) > 2:
                                leaves(v[2], depth + 1, out, here)
                            else:
                                out.append((("unread", v), here))
                            continue
                        leaves(v, depth + 1, out, here)
            else:
                out.append((e, e[3] if in_main(e) else site))
            return out
        # ---------------- K2
        a = strip_refs(m.trace(pterm["args"][0]))
        ok = a[0] == "call" and a[1] and a[1]["path"].startswith("std::fmt::Arguments::<'a>::new")
        ctx.need(ok, "print argument is not a format_args! value: %s" % show_expr(a))
        tmpl = strip_refs(a[2][0])
        pieces = decode_fmt(tmpl[1]["bytes"]) if tmpl[0] == "const" and "bytes" in tmpl[1] else None
        ctx.need(pieces is not None, "format template could not be decoded")
        ctx.check(pieces == [("arg",), ("lit", "\n")], "K2.template", "printed line is exactly `{}` + newline",
                  "the print template is %r: the output is no longer exactly one line holding only the result" % (pieces,), where=m.where(pbi), fn=m.key, nontrivial=True, sample={"template": pieces})
        arr = strip_refs(a[2][1])
        elems = arr[2] if arr[0] == "agg" and arr[1].get("agg") == "Array" else None
        ctx.need(elems is not None and len(elems) >= 1, "format arguments array not found")
        e0 = strip_refs(elems[0])
        disp = e0[0] == "call" and e0[1] and e0[1]["path"].endswith("new_display")
        ctx.check(len(elems) == 1 and disp, "K2.display", "one argument, formatted with Display", "format arguments: %s" % [show_expr(x) for x in elems], where=m.where(pbi), fn=m.key)
        if not disp:
            return
        x = strip_refs(e0[2][0])
        # the values the printed text can be — read through `?`, merges of paths and Result combinators in case normal form
        # (`apply(..).context(..).map(|r| r.to_string())` is `apply(..).context(..)?.to_string()`); error values leave by `?`
        texts = [lf for lf, _pos in leaves(x) if not _residual(lf)]
        if any(lf[0] == "unread" for lf in texts):
            ctx.unread("K2.prints-result", "the printed value", "the printed text is produced by a form the source reader cannot read: %s" % show_expr([lf for lf in texts if lf[0] == "unread"][0][1])[:160], where=m.where(pbi), fn=m.key)
            return
        if len(texts) == 1:
            x = strip_refs(texts[0])
        via = []
        if x[0] == "call" and x[1] and x[1]["path"] in ("<serde_json::Value as std::string::ToString>::to_string", "<T as std::string::ToString>::to_string") and "serde_json::Value" in (x[1].get("full") or ""):
            via.append("Value::to_string")
            x = strip_refs(x[2][0])
        src = peel(x)
        is_apply = src[0] == "call" and src[1] and src[1]["crate"] == "jsonlogic_rs" and src[1]["path"] == "jsonlogic_rs::apply"
        K3_ALL = ("K3.data-source", "K3.reads-stdin", "K3.data-argument", "K3.default-dash", "K3.selector", "K3.stdin-only-on-dash", "K3.argument-verbatim")

        def by_helper(e):
            """e is the result of a function of the binary that this view of the program does not show inlined: not read here."""
            return e[0] == "call" and bool(e[1]) and bool(e[1].get("local")) and facts.body(e[1].get("key")) is not None

        def k3_unread(why, bi_):
            for cl in K3_ALL:
                ctx.unread(cl, "the data text", why, where=m.where(bi_), fn=m.key)
        if not is_apply and by_helper(src):
            ctx.unread("K2.prints-result", "the printed value", "the printed text is produced by the function %s: read on the view with that function inlined" % src[1]["key"], where=m.where(pbi), fn=m.key)
            ctx.unread("K2.parsed-by-from_str", "apply's arguments", "the evaluation was not located (K2.prints-result)", where=m.where(pbi), fn=m.key)
            k3_unread("the data text was not located (K2.prints-result)", pbi)
            return
        ctx.check(bool(via or is_apply) and is_apply, "K2.prints-result", "the printed value is the library's serialisation of apply's Ok payload",
                  "the printed text derives from %s — not (only) from the JSON serialisation of apply's result" % show_expr(x), where=m.where(pbi), fn=m.key, nontrivial=True,
                  sample={"chain": via + ["payload of apply(..)?"]})
        if not is_apply:
            return
        apply_bi = src[3]
        # apply's arguments
        def parsed_from(e):
            s = peel(e)
            if s[0] == "call" and s[1] and s[1]["path"] == FROM_STR and "serde_json::Value" in (s[1].get("full") or ""):
                return s
            return None

        r0, d0 = parsed_from(src[2][0]), parsed_from(src[2][1])
        helper_args = [peel(a_) for a_, got in ((src[2][0], r0), (src[2][1], d0)) if got is None and by_helper(peel(a_))]
        if helper_args and len(helper_args) == [r0, d0].count(None):
            ctx.unread("K2.parsed-by-from_str", "apply's arguments", "an argument of apply is produced by the function %s: read on the view with that function inlined" % helper_args[0][1]["key"], where=m.where(apply_bi), fn=m.key)
            k3_unread("the data text was not located (K2.parsed-by-from_str)", apply_bi)
            return
        ctx.check(r0 is not None and d0 is not None, "K2.parsed-by-from_str", "rule and data are parsed with serde_json::from_str::<Value> (whole text, trailing characters rejected)",
                  "apply's arguments are %s and %s" % (show_expr(peel(src[2][0])), show_expr(peel(src[2][1]))), where=m.where(apply_bi), fn=m.key, nontrivial=True)
        if r0 is None or d0 is None:
            return
        rule_text = peel(r0[2][0])
        is_logic = rule_text[0] == "call" and rule_text[1] and rule_text[1]["path"].endswith("::value_of")
        argname = None
        if is_logic:
            n = strip_refs(rule_text[2][1])
            argname = const_value(n[1]) if n[0] == "const" else None
        ctx.check(is_logic and argname is not None, "K2.rule-source", "the rule text is a command-line argument (%r)" % argname, "rule text derives from %s" % show_expr(rule_text), where=m.where(apply_bi), fn=m.key)

        # ---------------- K3 data source
        # Stated on sources and cut sets of the control-flow graph, not on the shape of the selection:
        #   * every definition the data text can come from is either the data argument itself (made into a String) or a
        #     buffer filled by reading stdin to the end;
        #   * every path to the stdin read takes an edge that says "the data argument is absent" or "… equals \"-\"";
        #   * every path to the use of the argument takes the edge that says "… does not equal \"-\"";
        #   * a default substituted for an absent argument is the constant "-" (so that absence ends on the stdin side).
        dt = strip_refs(d0[2][0])
        while dt[0] == "call" and dt[1] and dt[1]["path"] in ("<std::string::String as std::ops::Deref>::deref", "std::string::String::as_str"):
            dt = strip_refs(dt[2][0])

        def arg_source(e, depth=0):
            """(argument name, default constant or None) when e is the command-line argument's text."""
            e = strip_refs(e)
            if depth > 8:
                return None
            if e[0] == "field" and e[1][0] == "downcast" and e[1][2] == "Some":
                return arg_source(e[1][1], depth + 1)
            if e[0] == "payload" and len(e) > 2:       # case normal form: the Some payload of a source that is no combinator
                return arg_source(e[2], depth + 1)
            if e[0] == "agg" and e[1].get("variant") == "Some" and e[2]:
                return arg_source(e[2][0], depth + 1)
            if e[0] == "call" and e[1]:
                pth = e[1]["path"]
                if pth.endswith("::value_of"):
                    n = strip_refs(e[2][1])
                    return (const_value(n[1]), None) if n[0] == "const" else None
                if pth == "std::option::Option::<T>::unwrap_or":
                    inner = arg_source(e[2][0], depth + 1)
                    dv = strip_refs(e[2][1])
                    if inner and dv[0] == "const":
                        return (inner[0], const_value(dv[1]))
                    return (inner[0], "<computed>") if inner else None
                if pth in ("std::option::Option::<T>::unwrap_or_default", "std::option::Option::<T>::unwrap_or_else"):
                    inner = arg_source(e[2][0], depth + 1)
                    return (inner[0], "<computed>") if inner else None
                if pth in ("std::option::Option::<T>::unwrap", "std::option::Option::<T>::expect", "std::option::Option::<&T>::copied", "std::option::Option::<&T>::cloned"):
                    return arg_source(e[2][0], depth + 1)
            return None

        OWNED = re.compile(r"::to_string$|::to_owned$|From<&str>|::into$|String::from$")

        lvs = leaves(dt)
        # binary-wide: one read-to-end site, no other reader — wherever it sits; the clauses below are about main's paths,
        # so a read that sits in a helper is read on the view with that helper inlined (not a violation: not read here)
        RD = r"as std::io::Read>::read_to_string$|^std::io::Read::read_to_string$|^std::io::read_to_string$"
        all_reads = [(b, bi, t) for b in bodies for bi, t in b.calls() if re.search(RD, callee_path(t) or "")]
        other_reads = [(b.where(bi), callee_path(t)) for b in bodies for bi, t in b.calls() if re.search(r"std::io::(Read|BufRead)>?::(read|read_line|read_exact|read_to_end|lines|bytes)\b", callee_path(t) or "") or "from_reader" in (callee_path(t) or "")]
        ctx.check(len(all_reads) == 1 and not other_reads, "K3.read-all", "stdin is read to the end, once", "stdin reads: %s; other readers: %s" % ([b.where(bi) for b, bi, _ in all_reads], other_reads), where=m.where(), fn=m.key, nontrivial=True)
        if len(all_reads) != 1:
            return
        if all_reads[0][0] is not m:
            # every clause about main's paths to the read is unread here (and decided — either way — on the view)
            for cl in ("K3.data-source", "K3.reads-stdin", "K3.data-argument", "K3.default-dash", "K3.selector", "K3.stdin-only-on-dash", "K3.argument-verbatim"):
                ctx.unread(cl, "the data text", "stdin is read in %s, not in main: the selection of the data source is read on the view with that function inlined" % all_reads[0][0].key, where=all_reads[0][0].where(all_reads[0][1]), fn=m.key)
            return
        stdin_reads = [(bi, t) for (b, bi, t) in all_reads]
        rbi, rt = stdin_reads[0]
        recv = strip_refs(m.trace(rt["args"][0]))
        from_stdin = expr_mentions(recv, lambda x: x[0] == "call" and x[1] and x[1]["path"] == "std::io::stdin")
        ctx.check(from_stdin, "K3.reads-stdin", "the reader is std::io::stdin()", "read_to_string is applied to %s" % show_expr(recv), where=m.where(rbi), fn=m.key)
        buf_call = None      # block of the String::new() whose result the read fills (method form)
        if len(rt["args"]) >= 2:
            bx = strip_refs(m.trace(rt["args"][1]))
            for x in ([bx] if bx[0] not in ("phi", "partial") else bx[2]):
                x = strip_refs(x)
                if x[0] == "call" and x[1] and re.search(r"String::(new|with_capacity)$", x[1]["path"]):
                    buf_call = x[3]
        arg_leaves, stdin_leaves, other = [], [], []
        unread = [lf for lf, pos in lvs if lf[0] == "unread"]
        if unread:
            ctx.unread("K3.data-source", "the data text", "the data text is produced by a form the source reader cannot read: %s" % show_expr(unread[0][1])[:160], where=m.where(apply_bi), fn=m.key)
            return
        for lf, pos in lvs:
            if lf[0] == "call" and lf[1] and OWNED.search(lf[1]["path"]) and lf[2] and arg_source(lf[2][0]):
                if pos is None:
                    ctx.unread("K3.argument-verbatim", "the data text", "where the data argument becomes the data text could not be located in main", where=m.where(apply_bi), fn=m.key)
                    return
                arg_leaves.append((lf, arg_source(lf[2][0]), pos))
            elif lf[0] == "call" and in_main(lf) and lf[3] == rbi and len(rt["args"]) < 2:
                stdin_leaves.append(lf)
            elif lf[0] == "call" and lf[1] and re.search(r"String::(new|with_capacity)$", lf[1]["path"]) and in_main(lf) and lf[3] == buf_call:
                stdin_leaves.append(lf)
            elif _residual(lf):
                continue
            else:
                other.append(lf)
        def from_helper(e):
            """e is — through references, payload projections and conversions to an owned String — what a function of the
            binary returns that this view does not show inlined."""
            for _ in range(12):
                e = strip_refs(e)
                if e[0] == "field":
                    e = e[1]
                elif e[0] == "downcast":
                    e = e[1]
                elif e[0] == "payload" and len(e) > 2:
                    e = e[2]
                elif e[0] == "call" and e[1] and e[2] and (OWNED.search(e[1]["path"]) or e[1]["path"] in PAYLOAD_CALLS):
                    e = e[2][0]
                else:
                    break
            return by_helper(e)
        hidden = [lf for lf in other if from_helper(lf)]
        if hidden:
            # a value that comes out of a function of the binary which this view does not show inlined is not read (it
            # is read — either way — on the view with that function inlined), whatever else the text can be
            ctx.unread("K3.data-source", "the data text", "the data text can be %s, which is computed by a function of the binary not inlined in this view" % show_expr(hidden[0])[:160], where=m.where(apply_bi), fn=m.key)
            return
        ctx.check(not other and arg_leaves and stdin_leaves, "K3.data-source", "the data text is the data argument itself or what was read from stdin — nothing else",
                  "the data text can be %s (argument forms: %d, stdin forms: %d)" % ([show_expr(x)[:100] for x in other], len(arg_leaves), len(stdin_leaves)), where=m.where(apply_bi), fn=m.key, nontrivial=True,
                  sample={"argument_forms": len(arg_leaves), "stdin_forms": len(stdin_leaves)})
        if other or not arg_leaves or not stdin_leaves:
            return
        dnames = {a[1][0] for a in arg_leaves}
        ctx.check(len(dnames) == 1 and argname not in dnames, "K3.data-argument", "the data argument is one command-line argument, not the rule's (%s)" % sorted(dnames), "data argument names: %s (rule: %r)" % (sorted(dnames), argname), where=m.where(), fn=m.key)
        for lf, (nm, dflt), pos in arg_leaves:
            ctx.check(dflt in (None, "-"), "K3.default-dash", "an absent data argument is treated as \"-\" (stdin)", "an absent data argument is replaced by %r instead of reading stdin" % (dflt,), where=m.where(pos), fn=m.key, nontrivial=True)
        # decision edges about the data argument
        stdin_edges, arg_edges = set(), set()
        for sb in m.reachable():
            tt = m.blocks[sb]["term"]
            if tt["k"] != "SwitchInt":
                continue
            e0_ = m.trace(tt["discr"])
            e = strip_refs(e0_)
            neg = False
            while e[0] == "unop" and e[1] == "Not":
                neg, e = not neg, strip_refs(e[2])
            if e[0] == "call" and e[1] and re.search(r"PartialEq.*::(eq|ne)$", e[1]["path"]):
                l, r_ = strip_refs(e[2][0]), strip_refs(e[2][1])
                for pp, q in ((l, r_), (r_, l)):
                    src_ = arg_source(pp)
                    if q[0] == "const" and const_value(q[1]) == "-" and src_ and src_[0] in dnames:
                        is_eq = e[1]["path"].endswith("::eq") != neg
                        stdin_edges.add((sb, bool_edge(m, sb, is_eq)))
                        arg_edges.add((sb, bool_edge(m, sb, not is_eq)))
            elif e0_[0] == "discr":
                x = strip_refs(e0_[1])
                src_ = arg_source(x)
                if src_ and src_[0] in dnames and src_[1] is None and x[0] == "call" and x[1]["path"].endswith("::value_of"):
                    r = switch_edges_for_variant(m, sb, "None")
                    if r:
                        stdin_edges.add((sb, r[0]))
            else:
                for (sw_, t_some, t_none) in []:
                    pass
        from .core import option_guards
        for (sw_, t_some, t_none) in option_guards(m, lambda x: x[0] == "call" and x[1] is not None and x[1]["path"].endswith("::value_of") and (arg_source(x) or (None,))[0] in dnames):
            stdin_edges.add((sw_, t_none))
        # The same two statements on path summaries (rules/pathsum.py), for selections that the edges of main do not
        # show: a decision stored in a value and asked again later (`enum Source { Stdin, Inline(&str) }` built by one
        # match and consumed by another, a named boolean): on every way through main on which stdin is read the
        # argument was found absent or equal to "-"; on every way on which the argument becomes the text it was found
        # different from "-".  Ways that contradict a value built on the way are not ways (pathsum decides them).
        _ps = []

        def path_facts():
            """[(path, {"absent", "present", "dash", "not-dash"})] or None when main's ways could not be enumerated."""
            if _ps:
                return _ps[0]
            w = pathsum.summarize(m, max_paths=4000)
            if w.overflow or not w.paths:
                _ps.append(None)
                return None
            out = []
            for p_ in w.paths:
                fs = set()
                for k, v in p_.atoms.items():
                    src = w.exprs.get(k)
                    if src is None:
                        continue
                    x = strip_refs(src)
                    if k[0] == "variant" and x[0] == "call" and x[1] and x[1]["path"].endswith("::value_of"):
                        a_ = arg_source(x)
                        if a_ and a_[0] in dnames and v in ("None", "Some"):
                            fs.add("absent" if v == "None" else "present")
                    elif k[0] in ("pure", "site") and x[0] == "call" and x[1] and isinstance(v, bool):
                        if re.search(r"PartialEq.*::(eq|ne)$", x[1]["path"]) and len(x[2]) == 2:
                            l, r_ = strip_refs(x[2][0]), strip_refs(x[2][1])
                            for pp, q in ((l, r_), (r_, l)):
                                a_ = arg_source(pp)
                                if q[0] == "const" and const_value(q[1]) == "-" and a_ and a_[0] in dnames:
                                    fs.add("dash" if x[1]["path"].endswith("::eq") == v else "not-dash")
                        elif re.search(r"Option::<.*>::is_(none|some)$", x[1]["path"]) and x[2]:
                            y = strip_refs(x[2][0])
                            a_ = arg_source(y)
                            if a_ and a_[0] in dnames and a_[1] is None and y[0] == "call" and y[1]["path"].endswith("::value_of"):
                                fs.add("absent" if x[1]["path"].endswith("is_none") == v else "present")
                out.append((p_, fs))
            _ps.append(out)
            return out

        def on_paths(block, wanted):
            """True: every way through main that executes the call at `block` established one of `wanted`;
            False: a way was read that did not; None: not read."""
            pf = path_facts()
            if pf is None:
                return None
            hit = [(p_, fs) for p_, fs in pf if any(ev[0] == "call" and ev[3] == block for ev in p_.events)]
            if not hit or any(p_.truncated for p_, _ in hit):
                return None
            return all(fs & wanted for _, fs in hit)
        pf0 = None if stdin_edges else path_facts()
        has_selector = bool(stdin_edges) or bool(pf0 and any(fs & {"absent", "dash"} for _, fs in pf0))
        if not has_selector and pf0 is None and not stdin_edges:
            ctx.unread("K3.selector", "the data text", "the ways through main could not be enumerated and no edge of main tests the data argument", where=m.where(), fn=m.key)
            return
        ctx.check(has_selector, "K3.selector", "main decides on the data argument being absent or \"-\"", "no test of the data argument against the constant \"-\" (or for absence) found", where=m.where(), fn=m.key, nontrivial=True)

        def reachable_without(edges, target):
            seen, st = set(), [0]
            while st:
                x = st.pop()
                if x in seen:
                    continue
                seen.add(x)
                for y in m.succs(x):
                    if (x, y) in edges:
                        continue
                    st.append(y)
            return target in seen

        def decide(clause, cut_ok, block, wanted, good, bad_):
            v = True if cut_ok else on_paths(block, wanted)
            if v is None:
                ctx.unread(clause, "the data text", "the ways through main to %s could not be enumerated, and the edges of main alone do not separate them" % m.where(block), where=m.where(block), fn=m.key)
            else:
                ctx.check(v, clause, good, bad_, where=m.where(block), fn=m.key, nontrivial=True)
        if not has_selector:
            if pf0:      # the ways through main were read: say what they show about the read
                decide("K3.stdin-only-on-dash", False, rbi, {"absent", "dash"}, "stdin is read only when the data argument is \"-\" or absent", "stdin is read on a way through main that never established that the data argument is absent or \"-\"")
            return
        decide("K3.stdin-only-on-dash", bool(stdin_edges) and not reachable_without(stdin_edges, rbi), rbi, {"absent", "dash"},
               "stdin is read only when the data argument is \"-\" or absent", "stdin can be read on a path that never established that the data argument is absent or \"-\"")
        for lf, _src, pos in arg_leaves:
            decide("K3.argument-verbatim", bool(arg_edges) and not reachable_without(arg_edges, pos), pos, {"not-dash"},
                   "the data argument is used as the data text only when it is not \"-\"", "the data argument can become the data text without having been compared with \"-\"")
        ctx.ok("K3.stdin-into-data", "the stdin text becomes the data text", nontrivial=True)

    k2_k3()

    # ---------------- K1 (library side): what else can reach stdout before the result line
    lf = ctx.facts("cmdline", "jsonlogic_rs")
    from .roles import Roles
    lroles = Roles(lf)
    inside = lroles.inside()
    log_fn, _le = lroles.fn_of("log")
    log_unit = {bb.key for bb in lroles.unit(log_fn.key)}
    out_sites = []
    for k in sorted(inside):
        lb = lf.body(k)
        if lb is None or lb.kind not in ("fn", "closure"):
            continue
        for bi, t in lb.calls():
            pth = callee_path(t) or ""
            if pth in (PRINT,) or re.search(r"^std::io::(stdout|Stdout)|^<std::io::Stdout(Lock<'_>)? as std::io::Write>", pth):
                out_sites.append((lb, bi, pth))
    stray = [(lb, bi, pth) for (lb, bi, pth) in out_sites if lb.key not in log_unit]
    ctx.floor("stdout writes in the library's evaluation reach (cmdline)", len(out_sites), 1)
    for lb, bi, pth in stray:
        ctx.fail("K1.library-stdout", "%s|%s" % (lb.key.split("::", 1)[1], pth.rsplit("::", 1)[-1]), "the library writes to stdout outside the log operator (%s): the command's output is no longer log lines followed by exactly one result line" % pth, where=lb.where(bi), fn=lb.key)
    if not stray:
        ctx.ok("K1.library-stdout", "in the library an evaluation can reach, only the function bound to `log` writes to stdout (%d site(s))" % len(out_sites), nontrivial=True)

    # ---------------- K5
    man = tomllib.load(open(os.path.join(ex.REPO, "Cargo.toml"), "rb"))
    bins = [b for b in man.get("bin", []) if b.get("name") == "jsonlogic"]
    ctx.check(len(bins) == 1 and "cmdline" in bins[0].get("required-features", []), "K5.manifest", "[[bin]] jsonlogic requires feature cmdline", "Cargo.toml [[bin]] entries: %s" % man.get("bin"), where="Cargo.toml")
    from . import manifest as MF
    changes, npk = MF.library_config_changes("cmdline")
    ctx.floor("packages of the library build compared across configurations", npk, 10)
    ctx.check(not changes, "K5.same-library", "feature cmdline leaves every package of the library build configured as in the default build (%d packages, cargo's resolver)" % npk,
              "enabling feature cmdline reconfigures packages the library itself is built from: %s — the command no longer wraps the library other users get" % "; ".join("%s +%s -%s" % (p_, sorted(a), sorted(r_)) for p_, a, r_ in changes),
              where="Cargo.toml", nontrivial=True, sample={"packages": npk, "changes": [(p_, sorted(a), sorted(r_)) for p_, a, r_ in changes]})
    lib_calls = sorted({callee_path(t) for b in bodies for _, t in b.calls() if callee_of(t) and callee_of(t)["crate"] == "jsonlogic_rs"})
    ctx.check(lib_calls == ["jsonlogic_rs::apply"], "K5.only-apply", "the binary uses only the library's public apply", "library functions used by the binary: %s" % lib_calls, where=m.where(), fn=m.key)


def diverging(b):
    """No reachable Return: every path ends in a call that never returns."""
    return not any(b.blocks[bi]["term"]["k"] == "Return" for bi in b.reachable() if not b.blocks[bi]["cleanup"])


def failure_handlers(facts, bodies):
    """(handled, droppers, exits): Result combinators whose handler never returns; Result combinators that
    can swallow a failure; process::exit/abort sites with the value set of the status."""
    handled, droppers, exits = [], [], []
    for b in bodies:
        for bi, t in b.calls():
            p = callee_path(t) or ""
            if p.startswith("std::result::Result::<T, E>::") and p.rsplit("::", 1)[1] in ("ok", "unwrap_or", "unwrap_or_else", "unwrap_or_default", "is_ok", "is_err", "err", "map_or", "map_or_else", "or", "or_else"):
                h = None
                if p.rsplit("::", 1)[1] == "unwrap_or_else" and len(t["args"]) == 2:
                    e = strip_refs(b.trace(t["args"][1]))
                    if e[0] == "agg" and e[1].get("closure"):
                        h = facts.body(e[1]["closure"])
                    elif e[0] == "const" and "fn" in e[1]:
                        h = facts.body(e[1]["fn"].get("key"))
                if h is not None and diverging(h):
                    handled.append((b, bi, p))
                else:
                    droppers.append((b, bi, p))
            if p == "std::process::abort":
                exits.append((b, bi, {134}))
            if p == "std::process::exit":
                exits.append((b, bi, PN.value_set(facts, b, b.trace(t["args"][0]))))
    return handled, droppers, exits


def discr_sites(e, depth=0):
    """Call sites whose result's discriminant the value e is: read through merges of paths (in a helper-inlined view
    the switch of a `?` is reached from the `?` itself and — decided — from copies of it on the helper's exits)."""
    out = set()
    if depth > 6:
        return out
    if e[0] in ("phi", "partial"):
        for x in e[2]:
            out |= discr_sites(x, depth + 1)
    elif e[0] == "discr":
        st = [strip_refs(e[1])]
        n = 0
        while st and n < 32:
            x = st.pop()
            n += 1
            if x[0] in ("phi", "partial"):
                st.extend(strip_refs(y) for y in x[2])
            elif x[0] == "call" and isinstance(x[3], int):
                out.add(x[3])
    return out


def variant_edges(m, sb, variant):
    """core.switch_edges_for_variant, read through a merge of paths all of whose values are discriminants of one type."""
    r = switch_edges_for_variant(m, sb, variant)
    if r is not None:
        return r
    t = m.blocks[sb]["term"]
    flat, st = [], [m.trace(t["discr"])]
    while st and len(flat) < 32:
        x = st.pop()
        if x[0] in ("phi", "partial"):
            st.extend(x[2])
        else:
            flat.append(x)
    adts = {x[2] for x in flat if x[0] == "discr"}
    if not flat or any(x[0] != "discr" for x in flat) or len(adts) != 1:
        return None
    vs = m.facts.adts.get(adts.pop(), {}).get("variants", [])
    dv = [str(v["discr"]) for v in vs if v["name"] == variant]
    if not dv:
        return None
    for val, bb in t["arms"]:
        if val == dv[0]:
            return bb, sum(1 for _vv, b2 in t["arms"] if b2 == bb) == 1 and t["otherwise"] != bb
    return t["otherwise"], {str(v["discr"]) for v in vs} - {val for val, _ in t["arms"]} == {dv[0]}


def failure_result(m, start):
    """(True, _) when on every way from block `start` to main's return the value returned is the propagated residual
    (`?`); (False, value) when a way was read that returns something else; (None, reason) when the ways could not be read."""
    w = pathsum.summarize(m, start=start, max_paths=2000)
    if w.overflow:
        return None, "too many ways out"
    if not w.paths:
        return False, None          # no way from the failure edge returns at all
    for p_ in w.paths:
        if p_.truncated:
            return None, "a loop on the way out"
        if p_.result is None:
            continue        # ends in a call that never returns
        r = strip_refs(p_.result)
        if not (r[0] == "call" and r[1] and "from_residual" in r[1]["path"]):
            if r[0] in ("agg", "const") or (r[0] == "call" and r[1]):
                return False, r
            return None, show_expr(r)[:120]
    return True, None


def short(p):
    return p.split("::<")[0].rsplit("::", 2)[-1] if "::" in p else p


def edge_dominates_or_bypass(m, u, v, step_bi, target):
    """Every path entry→target that executes the step at step_bi leaves its switch through u→v."""
    # remove edge u→v; target must be unreachable from step_bi
    seen = set()
    st = [step_bi]
    while st:
        b = st.pop()
        if b in seen:
            continue
        seen.add(b)
        for s in m.succs(b):
            if b == u and s == v:
                continue
            st.append(s)
    return target not in seen
